"""C06 - SCP bursts: the real SCPConnection.send_scp_burst driven through a
scripted lossy network and fake clock (harness/simnet.py); its observable
trace is compared with the Lean model (RigModel/Model/C06.lean `run`) fed
with the recorded environment, and the Lean specification `checkLog` is
evaluated on the implementation's own log."""
import struct

from harness import simnet

CLAIM = dict(
    text=("Machine-checked proof (Lean 4) about a code-shaped model of SCPConnection.send_scp_burst that takes the whole "
          "environment (every clock reading, every batch of received datagrams) as input: for ALL environments the window "
          "bound, distinct sequence numbers, at-most-once / exactly-once callbacks, own-sequence-number replies (and, under "
          "the stated freshness hypothesis, replies caused by that very command), try bound, no early retransmission, fatal "
          "and retryable code handling and the global send bound hold. TERMINATION is proved under explicit hypotheses "
          "about the operating system, stated on the model: (a) the clock never goes backwards, (b) every iteration that "
          "receives no datagram ends with a clock reading strictly later than the earliest outstanding deadline (select "
          "returned by timeout), (c) at most D datagrams are delivered in total; then the burst ends with done / "
          "TimeoutError / FatalReturnCodeError within commands*n_tries + D + 1 loop iterations and never exhausts a longer "
          "environment (terminates_under_progress); with (b) weakened to what select really guarantees (final reading >= "
          "earliest deadline and > the reading taken before select) the bound is 2*(commands*n_tries + D + 1) and (a) is "
          "used (terminates_under_select); a clock that stands still is proved to exhaust every script "
          "(no_termination_without_progress), so (b) cannot be dropped. (a)-(c) remain ASSUMPTIONS about time.time / "
          "select / the network - nothing in rig enforces them. COMPOSITION with C07, for every environment and window "
          "size: if each delivered OK datagram carries the bytes the machine holds for the chunk it answers (plus the "
          "netOK/fresh hypotheses of callback_own_reply and at most 2^16 chunks), SCPConnection.read modelled as the burst "
          "of C07's read chunks with slice-storing callbacks never raises ValueError and, when the burst ends done, returns "
          "exactly memory[addr, addr+len) (read_through_burst); for SCPConnection.write, if the machine executes only "
          "requests this burst transmitted and replies OK only after executing, then when done every chunk was executed at "
          "least once, only chunks of this write were executed and memory = memory[addr := data] (write_through_burst); "
          "whatever the outcome every byte is old or new (write_through_burst_partial); both together: under (a)-(c) and the "
          "read hypotheses, read returns exactly the memory or raises Timeout/Fatal within the iteration bound "
          "(read_through_burst_total). Tied to the code by exact trace "
          "correspondence under scripted loss/duplication/delay/error schedules over several bursts per connection, by the "
          "Lean specification checkLog evaluated on the implementation's socket/callback log, by evaluating the progress "
          "hypotheses and the proved iteration bounds on every recorded environment, and by running the real "
          "SCPConnection.read/write against a simulated memory and comparing with the Lean readThrough / memAfter."),
    design="3/C06",
    note=("Environment (UDP, select, clock) is an input of the model, quantified universally. Termination is conditional on "
          "the OS progress hypotheses (a)-(c), which are validated only on the simulated clock/select of the harness "
          "(the weak form holds on every recorded trace, the strict form on most: the simulated select wakes up exactly at "
          "the deadline). What a datagram carries and which requests the machine executed are ghost inputs of the "
          "composition theorems, constrained only by their hypotheses; the machine's memory semantics is C07's Lean "
          "specification. 16-bit sequence wrap is a known finding (seq-wrap), reproduced on every run with 65,537 commands."),
    technique="Lean 4 invariant proofs over an environment-parametrised state machine + trace correspondence + Lean spec oracle")

THEOREMS = ["consts_documented", "window_bound", "window_bound_fill", "seqs_distinct",
            "callback_at_most_once", "done_all_called", "callback_own_seq", "seq_fixed", "tries_bound",
            "sends_numbered", "send_bound", "timeout_only_after_all_tries", "no_early_retransmit",
            "fatal_raises", "fatal_raises_iter", "fatal_raises_run", "fatal_only_from_reply",
            "retryable_ignored", "seq_injective", "callback_own_reply", "own_reply_wrap_counterexample",
            # termination under explicit progress hypotheses about the OS
            "terminates_on_script", "iterations_bound", "terminates_under_progress",
            "terminates_on_script_weak", "iterations_bound_weak", "terminates_under_select",
            "no_termination_without_progress",
            # composition with C07: SCPConnection.read / write through the burst
            "read_through_burst_buffer", "read_through_burst", "write_through_burst",
            "write_through_burst_partial", "read_through_burst_total"]

RULE = ("cases = (window 1-8, tries 1-5, timeout 2-6 ticks, sequence mask 0xffff or small, 1-3 bursts of 0-40 commands with "
        "per-command extra timeouts on one connection, per-datagram outcome script drawn from {ok with latency, request/"
        "reply lost, reply delayed past 1-4 timeouts, duplicated, retryable code, fatal code}, clock jitter); non-trivial "
        "= at least one datagram lost or delayed past a timeout and at least one retransmission happened; distinct = "
        "distinct canonical JSON of the case; plus read/write cases = (SCPConnection.read or write of 0 .. 9 buffers + 1 bytes, "
        "buffer 4-256, window 1-8, tries 1-5, same outcome scripts plus request-executed-reply-lost) against a simulated "
        "memory, non-trivial = more than one chunk and a loss/delay; plus wrap cases = one transfer of more commands than the "
        "(shrunk) sequence space, window 2-8, with 1-3 (often neighbouring) commands whose replies arrive late but before "
        "their timeout, so that several sequence numbers in a row are still in use when the counter comes round; the "
        "connection is configured by keywords, positionally in the documented order, or built by MachineController / "
        "BMPController from their own n_tries/timeout arguments; in a fifth of the cases the caller's command iterator "
        "takes 0 .. 2 timeouts of clock time to produce a command")

OK, SUM, BUSY = 0x80, 0x82, 0x8d
FATAL = [0x81, 0x83, 0x84, 0x85, 0x86, 0x87, 0x88, 0x89, 0x8a, 0x8b, 0x8c, 0x8e, 0x8f, 0x90, 0x00]


def gen_case(rng, big=False):
    window = rng.choice([1, 1, 2, 3, 4, 8])
    n_tries = rng.choice([1, 2, 3, 3, 5])
    timeout = rng.choice([2, 3, 4, 6])
    mask = rng.choice([0xffff] * 4 + [3, 7, 15])
    if mask + 1 <= window:
        mask = 0xffff
    bursts = []
    for _ in range(rng.choice([1, 1, 2, 3])):
        n = rng.choice([0, 1, 2, 3, 5, 8, 13, 40 if big else 20])
        bursts.append({"extra": [rng.choice([0, 0, 0, 1, 3]) for _ in range(n)]})
    total = sum(len(b["extra"]) for b in bursts) * n_tries + 5
    p_bad = rng.choice([0.0, 0.1, 0.3, 0.6])
    script = {}
    for k in range(total):
        if rng.random() < p_bad:
            kind = rng.choice(["lost", "lost", "late", "late", "dup", "dup", "retry", "retry", "fatal", "duplate"])
            if kind == "lost":
                script[k] = []
            elif kind == "late":
                script[k] = [[timeout * rng.randrange(1, 5) + rng.randrange(3), "ok"]]
            elif kind == "dup":
                script[k] = [[rng.randrange(3), "ok"], [rng.randrange(4), "ok"]]
            elif kind == "duplate":
                script[k] = [[rng.randrange(3), "ok"], [timeout * rng.randrange(1, 6), "ok"]]
            elif kind == "retry":
                script[k] = [[rng.randrange(3), ["rc", rng.choice([SUM, BUSY])]]]
                if rng.random() < 0.5:
                    script[k].append([rng.randrange(6), "ok"])
            elif rng.random() < 0.35:
                script[k] = [[rng.randrange(3), ["rc", rng.choice(FATAL)]]]
        elif rng.random() < 0.5:
            script[k] = [[rng.randrange(3), "ok"]]
    case = {"window": window, "n_tries": n_tries, "timeout": timeout, "mask": mask, "bursts": bursts,
            "script": {str(k): v for k, v in script.items()}, "jitter": rng.randrange(1 << 30)}
    if rng.random() < 0.2:
        # "harmonic" bursts: per-command timeouts that are multiples of one another and (almost) everything
        # lost, so that the deadlines of commands with DIFFERENT numbers of transmissions fall into the same
        # scan of the burst loop
        case["window"] = rng.choice([2, 3, 4, 8])
        if case["mask"] + 1 <= case["window"]:
            case["mask"] = 0xffff          # the (shrunk) sequence space must exceed the window
        case["n_tries"] = rng.choice([2, 2, 3])
        for b in case["bursts"]:
            b["extra"] = [rng.choice([0, 0, timeout, 2 * timeout, 3 * timeout]) for _ in b["extra"]]
        p_lost = rng.choice([0.7, 0.9, 1.0])
        case["script"] = {str(k): ([] if rng.random() < p_lost else [[rng.randrange(3), "ok"]]) for k in range(total)}
        if rng.random() < 0.5:
            case["jitter"] = 0
    # buffer size of the burst (decides the receive length) and replies as long as it allows
    if rng.random() < 0.4:
        k = rng.choice([5, 6, 7, 8, 9])
        case["bufsize"] = rng.choice([(1 << k) - d for d in (27, 26, 25, 24, 23, 16, 10)] + [rng.randrange(4, 600)])
        case["reply_data"] = rng.choice([case["bufsize"], case["bufsize"] - 1, case["bufsize"] // 2, 1])
    # payloads: commands carry 0..256 bytes of data (errors raised by the burst describe the failing packet)
    for b in case["bursts"]:
        b["data"] = [rng.choice([0, 0, 4, 31, 32, 33, 64, 256]) for _ in b["extra"]]
    # how the connection got its configuration: built directly (keywords / positionally, in the documented
    # order) or by one of rig's controllers, which build their connections themselves
    if rng.random() < 0.25:
        case["via"] = rng.choice(["pos", "mc", "bmp"])
    # the caller's command iterator may take its time: ticks that pass while command i is being produced
    if rng.random() < 0.2:
        for b in case["bursts"]:
            b["gen_delay"] = [rng.choice([0, 0, 1, timeout - 1, timeout, 2 * timeout]) for _ in b["extra"]]
    return case


def wrap_case():
    """the 16-bit sequence wrap: a duplicate reply to command 0 arrives while command 65536
    (same sequence number) is outstanding"""
    n = 65537
    return {"window": 1, "n_tries": 3, "timeout": 4, "mask": 0xffff,
            "bursts": [{"extra": [0] * n}],
            "script": {"0": [[1, "ok"], [["after_send", 65536], "ok"]], "65536": [[3, "ok"]]},
            "jitter": 0, "wrap": True}


def make_connection(case):
    """the connection under test, configured with case["n_tries"] / case["timeout"] in one of the ways a
    program does it (inside simnet.installed)"""
    from rig.machine_control import scp_connection as sc
    via = case.get("via", "kw")
    n_tries, timeout = case["n_tries"], float(case["timeout"])
    if via == "pos":
        return sc.SCPConnection("sim", 17893, n_tries, timeout)         # the documented parameter order
    if via == "mc":
        from rig.machine_control import MachineController
        return MachineController("sim", n_tries=n_tries, timeout=timeout).connections[None]
    if via == "bmp":
        from rig.machine_control import BMPController
        return list(BMPController("sim", n_tries=n_tries, timeout=timeout).connections.values())[0]
    return sc.SCPConnection("sim", n_tries=n_tries, timeout=timeout)


def slow_iter(net, calls, delays):
    """the caller's iterator of commands; producing command i takes delays[i] ticks of the clock"""
    if not delays:
        return iter(calls)

    def gen():
        for c, d in zip(calls, delays):
            net.now += int(d)
            yield c
    return gen()


def run_impl(case):
    """Run the real code; returns per-burst records."""
    import random
    from rig.machine_control import scp_connection as sc
    jr = random.Random(case["jitter"])
    script = case["script"]
    state = {"after": {}}

    bufsize = case.get("bufsize", 256)
    reply_data = case.get("reply_data", 0)

    def machine(req):
        # the reply may be as long as the protocol allows: three argument words and a full buffer of data
        if reply_data:
            return simnet.make_reply(req, OK, args=(0, 0x11111111, 0x22222222), data=bytes(range(256)) * 3)[:18 + 8 + reply_data]
        return simnet.make_reply(req, OK, args=(0,))

    def scr(k, data):
        out = []
        for delay, kind in script.get(str(k), [[1, "ok"]]):
            kind = tuple(kind) if isinstance(kind, list) else kind
            if isinstance(delay, list):      # ["after_send", K]
                out.append((10 ** 9, kind, delay[1]))
            else:
                out.append((delay, kind, None))
        return out

    net = simnet.Net(machine, None, (lambda: 1 if jr.random() < 0.2 else 0) if case["jitter"] else None)
    send_owner = {}     # send index -> (burst, cmd)
    held = []           # datagrams waiting for a later send index

    def script_fn(k, data):
        res = []
        for delay, kind, after in scr(k, data):
            res.append((delay, kind))
        return res
    net.script = script_fn
    # stamp datagram ids into arg1 and handle "after_send" deliveries
    orig_send = net.send

    def send(data, sid=None):
        k = net.n_sent
        first_id = net.next_id
        r = orig_send(data, sid)
        specs = [s for s in scr(k, data) if s[1] != "lost"]
        for i, did in enumerate(range(first_id, net.next_id)):
            q = [q for q in net.queue if q[2] == did][0]
            q[3] = q[3][:14] + struct.pack("<I", did) + q[3][18:]
            net.dgram[did]["bytes"] = q[3]
            if specs[i][2] is not None:
                held.append((specs[i][2], q))
        for after, q in list(held):
            if after == k:
                q[0] = net.now
                held.remove((after, q))
        return r
    net.send = send

    records = []
    truncated = []
    with simnet.installed(net):
        conn = make_connection(case)
        if case["mask"] != 0xffff:
            conn.seq = sc.seqs(mask=case["mask"])
        for bi, b in enumerate(case["bursts"]):
            start = len(net.log)
            sent0 = net.n_sent

            def mk_cb(i):
                def cb(packet):
                    did = struct.unpack_from("<I", packet, 14)[0]
                    net.log.append(("cb", i, did))
                    sent = net.dgram.get(did, {}).get("bytes")
                    if sent is not None and bytes(packet) != bytes(sent):
                        truncated.append((i, len(packet), len(sent)))
                return cb
            sizes = b.get("data") or [0] * len(b["extra"])
            calls = [sc.scpcall(1, 2, 3, 7, i, 0, 0, bytes(range(256))[:sizes[i]], mk_cb(i), float(e))
                     for i, e in enumerate(b["extra"])]
            # far beyond the proved iteration bound 2*(commands*n_tries + datagrams + 1) (each iteration logs a
            # bounded number of events): a burst still running then is stopped and reported as not terminating
            net.limit_events = len(net.log) + 60 * (len(calls) * case["n_tries"] + len(net.queue) + 20)
            try:
                from harness import common as _common
                with _common.cpu_limit(300 if len(calls) > 5000 else 30):
                    conn.send_scp_burst(bufsize, case["window"], slow_iter(net, calls, b.get("gen_delay")))
                result = ["done"]
            except sc.TimeoutError as e:
                result = ["timeout", e.packet.arg1]
            except sc.FatalReturnCodeError as e:
                result = ["fatal", int(e.return_code), None if e.packet is None else e.packet.arg1]
            except (simnet.Runaway, _common.ImplHang) as e:
                result = ["error", "DidNotTerminate", str(e)]
            except Exception as e:     # noqa: the property allows only the two documented errors
                result = ["error", type(e).__name__, repr(e)[:120]]
            log = net.log[start:]
            for k in range(sent0, net.n_sent):
                send_owner[k] = bi
            records.append({"log": log, "result": result, "burst": bi, "truncated": list(truncated)})
            del truncated[:]
    return records, net, send_owner


def digest(case, records, net, send_owner):
    """Turn the recorded logs into model requests / spec requests / impl traces."""
    out = []
    modulus = case["mask"] + 1
    gbase = [0]
    for b in case["bursts"]:
        gbase.append(gbase[-1] + len(b["extra"]))
    for rec in records:
        gorigin = {}
        b = case["bursts"][rec["burst"]]
        clock, batches, events, obs = [], [], [], []
        tries = {}
        cur = None
        last_t = 0
        seq0 = None
        for e in rec["log"]:
            if e[0] == "t":
                clock.append(e[1])
                last_t = e[1]
            elif e[0] == "select":
                cur = []
                batches.append(cur)
            elif e[0] == "recv":
                if e[1] is not None:
                    d = net.dgram[e[1]]
                    cur.append({"id": e[1], "rc": d["rc"], "seq": d["seq"]})
                    k = d["origin_send"]
                    origin = None
                    gorigin[e[1]] = gbase[send_owner[k]] + simnet.parse_scp(net_send_bytes(net, k))["arg1"]
                    if send_owner.get(k) == rec["burst"]:
                        origin = simnet.parse_scp(net_send_bytes(net, k))["arg1"]
                    obs.append(["recv", e[1], d["rc"], d["seq"], origin])
            elif e[0] == "send":
                p = simnet.parse_scp(e[2])
                c = p["arg1"]
                tries[c] = tries.get(c, 0) + 1
                if seq0 is None:
                    seq0 = p["seq"]
                events.append(["send", p["seq"], c, tries[c], last_t])
                obs.append(["send", p["seq"], c, e[3]])
            elif e[0] == "cb":
                events.append(["cb", e[1], e[2]])
                obs.append(["cb", e[1], e[2]])
        out.append({
            "model": {"suite": "c06", "op": "run", "window": case["window"], "n_tries": case["n_tries"],
                      "modulus": modulus, "timeout": case["timeout"], "extra": b["extra"], "clock": clock,
                      "batches": batches, "seq0": seq0 or 0},
            "spec": {"suite": "c06", "op": "check_log", "window": case["window"], "n_tries": case["n_tries"],
                     "n_cmds": len(b["extra"]), "timeouts": [case["timeout"] + x for x in b["extra"]],
                     "log": obs, "result": rec["result"]},
            "events": events, "result": rec["result"], "obs": obs, "gorigin": gorigin,
            "truncated": rec.get("truncated", []),
            "gbase": gbase[rec["burst"]],
        })
    return out


_send_cache = {}


def net_send_bytes(net, k):
    key = id(net)
    if key not in _send_cache:
        _send_cache.clear()
        _send_cache[key] = {}
    m = _send_cache[key]
    if len(m) != net.n_sent:
        m.clear()
        for e in net.log:
            if e[0] == "send":
                m[e[1]] = e[2]
    return m[k]


def eval_cases(ctx, cases):
    reqs, meta = [], []
    for case in cases:
        records, net, owner = run_impl(case)
        dig = digest(case, records, net, owner)
        lost = any(v == [] or any(isinstance(d[0], int) and d[0] >= case["timeout"] for d in v)
                   for v in case["script"].values())
        retrans = any(ev[0] == "send" and ev[3] > 1 for d in dig for ev in d["events"])
        for bi, d in enumerate(dig):
            big = len(d["events"]) > 5000
            reqs.append(d["model"])
            meta.append((case, bi, d, "model"))
            reqs.append(d["spec"])
            meta.append((case, bi, d, "spec"))
            reqs.append(dict(d["model"], op="progress"))
            meta.append((case, bi, d, "progress"))
            ctx.traces += 1
            ctx.tag("result_" + d["result"][0])
        small = {k: v for k, v in case.items()}
        if len(str(small)) > 4000:
            small = {"window": case["window"], "n_tries": case["n_tries"], "timeout": case["timeout"],
                     "mask": case["mask"], "n_commands": [len(b["extra"]) for b in case["bursts"]],
                     "script": case["script"], "wrap": case.get("wrap", False)}
        ctx.case(small, lost and retrans)
        ctx.tag("connection_via_" + case.get("via", "kw"))
        if any(b.get("gen_delay") for b in case["bursts"]):
            ctx.tag("slow_command_iterator")
        if lost:
            ctx.tag("case_with_loss")
        if retrans:
            ctx.tag("case_with_retransmission")
    replies = ctx.lean(reqs)
    for (case, bi, d, what), r in zip(meta, replies):
        desc = case if not case.get("wrap") else dict(case, bursts=[{"n_commands": 65537}])
        if what == "model" and d.get("truncated"):
            i_, got_, sent_ = d["truncated"][0]
            ctx.violation("callback-with-truncated-reply",
                          "burst %d: the callback of command %d was handed %d bytes, the reply datagram to that command "
                          "has %d (buffer size %r)" % (bi, i_, got_, sent_, case.get("bufsize", 256)), desc)
        if what == "model" and d["result"][0] == "error":
            ctx.violation("undocumented-exception",
                          "burst %d ended with %s %s: a burst may only complete, raise the timeout error or the "
                          "fatal-return-code error" % (bi, d["result"][1], d["result"][2]), desc)
        if what == "model":
            if r.get("events") != d["events"] or r.get("result") != d["result"]:
                me = r.get("events", [])
                i = next((i for i, (a, b) in enumerate(zip(me, d["events"])) if a != b), min(len(me), len(d["events"])))
                ctx.mismatch("c06.run", "burst %d: first difference at event %d: model=%r impl=%r; results model=%r impl=%r" % (
                    bi, i, me[i:i + 2], d["events"][i:i + 2], r.get("result"), d["result"]), desc)
        elif what == "progress":
            # the recorded environment against the hypotheses of terminates_under_progress /
            # terminates_under_select, and the implementation's iteration count against the proved bounds
            n_iter = len(d["model"]["batches"])
            if r.get("iterations") != n_iter:
                ctx.mismatch("c06.progress", "burst %d: model performs %r iterations, implementation %d" % (
                    bi, r.get("iterations"), n_iter), desc)
            if not (r.get("weak") and r.get("mono")):
                # the hypotheses are about the (simulated) OS, not about rig: recorded, never a verdict
                ctx.tag("progress_hypotheses_do_not_hold_on_simulated_os")
            elif n_iter > r["bound_weak"]:
                ctx.mismatch("c06.progress", "burst %d: %d iterations exceed the proved bound %d" % (
                    bi, n_iter, r["bound_weak"]), desc)
            else:
                ctx.tag("progress_weak_holds_and_bound_met")
            if r.get("strict") and r.get("mono"):
                ctx.tag("progress_strict_holds")
                if n_iter > r["bound_strict"]:
                    ctx.mismatch("c06.progress", "burst %d: %d iterations exceed the proved bound %d" % (
                        bi, n_iter, r["bound_strict"]), desc)
        else:
            for clause in r:
                if clause == "did-not-terminate" and d["result"][0] == "error":
                    continue        # reported as undocumented-exception
                key = clause
                if clause == "callback-with-foreign-reply":
                    w = is_wrap(case, d)
                    if w == "artifact":
                        ctx.tag("wrap_with_shrunk_sequence_space")
                        continue
                    if w:
                        key = w
                ctx.violation(key, "burst %d violates clause %s (result %r)" % (bi, clause, d["result"]), desc)


def is_wrap(case, d):
    """Classify the foreign replies of a burst.  Returns "seq-wrap" when every reply handed to a
    wrong command was caused by a command at least 65,536 commands older on the same connection
    (the real 16-bit sequence space wrapped: the known finding); "artifact" when the harness had
    shrunk the sequence space (mask < 0xffff) and at least `modulus` commands had been issued, so
    a wrap is the expected consequence of the shrunk space and says nothing about the real code;
    None otherwise (a genuine violation)."""
    modulus = case["mask"] + 1
    origin = {}
    for o in d["obs"]:
        if o[0] == "recv":
            origin[o[1]] = o[4]
    foreign = [(o[1], o[2]) for o in d["obs"] if o[0] == "cb" and origin.get(o[2]) != o[1]]
    if not foreign:
        return None
    if modulus == 65536:
        if all(d["gbase"] + c - d["gorigin"][i] >= 65536 for c, i in foreign):
            return "seq-wrap"
        return None
    if all(d["gbase"] + c >= modulus for c, i in foreign):
        return "artifact"
    return None


# ---- SCPConnection.read / write through the burst (composition with C07) -----------------------

def mem0(case, a):
    """initial content of the simulated machine's memory"""
    return (a * 37 + case["mem_seed"]) % 251


def gen_rw_case(rng):
    buf = rng.choice([4, 5, 7, 8, 16, 64, 256]) if rng.random() < 0.6 else rng.randrange(4, 600)    # every size
    n_tries = rng.choice([1, 2, 3, 3, 5])
    timeout = rng.choice([2, 3, 4])
    window = rng.choice([1, 1, 2, 3, 4, 8])
    mask = rng.choice([0xffff] * 3 + [15, 31])
    ln = max(0, rng.choice([0, 1, 2, 3, buf - 1, buf, buf + 1, 2 * buf, 3 * buf + rng.randrange(4),
                            5 * buf - rng.randrange(4), 9 * buf + 1]))
    n_cmds = -(-ln // buf)
    if n_cmds > mask + 1 or mask + 1 <= window:
        mask = 0xffff
    op = rng.choice(["read", "write"])
    total = n_cmds * n_tries + 5
    p_bad = rng.choice([0.0, 0.1, 0.3, 0.6])
    script = {}
    for k in range(total):
        if rng.random() < p_bad:
            kind = rng.choice(["lost", "lost", "replylost", "replylost", "late", "dup", "duplate", "retry", "fatal"])
            if kind == "lost":
                script[k] = []
            elif kind == "replylost":           # request executed, reply never arrives
                script[k] = [[10 ** 9, "ok"]]
            elif kind == "late":
                script[k] = [[timeout * rng.randrange(1, 5) + rng.randrange(3), "ok"]]
            elif kind == "dup":
                script[k] = [[rng.randrange(3), "ok"], [rng.randrange(4), "ok"]]
            elif kind == "duplate":
                script[k] = [[rng.randrange(3), "ok"], [timeout * rng.randrange(1, 6), "ok"]]
            elif kind == "retry":
                script[k] = [[rng.randrange(3), ["rc", rng.choice([SUM, BUSY])]]]
                if rng.random() < 0.5:
                    script[k].append([rng.randrange(6), "ok"])
            elif rng.random() < 0.35:
                script[k] = [[rng.randrange(3), ["rc", rng.choice(FATAL)]]]
        elif rng.random() < 0.5:
            script[k] = [[rng.randrange(3), "ok"]]
    case = {"rw": op, "buf": buf, "window": window, "n_tries": n_tries, "timeout": timeout, "mask": mask,
            "addr": rng.choice([0x60000000, 0x70000000]) + rng.randrange(64), "len": ln,
            "mem_seed": rng.randrange(251), "script": {str(k): v for k, v in script.items()},
            "jitter": rng.randrange(1 << 30)}
    if op == "write":
        case["data"] = [rng.randrange(256) for _ in range(ln)]
    return case


def gen_rw_wrap_case(rng):
    """one transfer of MORE commands than the (shrunk) sequence space while a few commands - often neighbours -
    are still waiting for replies that arrive late but BEFORE their timeout: nothing is retransmitted, so every
    reply belongs to exactly one command that is still outstanding and the counter must step over ALL the
    numbers that are still in use when it comes round (no reply can legitimately reach another command)."""
    mask = rng.choice([7, 15, 15, 31])
    window = rng.choice([w for w in (2, 3, 4, 8) if w < mask])
    buf = rng.choice([4, 8, 16, 64])
    n_cmds = rng.randrange(mask + 2, 4 * (mask + 1) + 2)
    ln = n_cmds * buf - rng.randrange(buf)
    timeout = 60
    script = {str(k): [[0, "ok"]] for k in range(n_cmds)}
    for _ in range(rng.randrange(1, 4)):
        k0 = rng.randrange(n_cmds)
        for k in range(k0, min(n_cmds, k0 + rng.choice([1, 2, 2, 3]))):       # neighbours straggle together
            if len([v for v in script.values() if v[0][0] > 0]) < window - 1:
                script[str(k)] = [[rng.randrange(8, 50), "ok"]]
    op = rng.choice(["read", "write"])
    case = {"rw": op, "buf": buf, "window": window, "n_tries": rng.choice([1, 2, 3]), "timeout": timeout,
            "mask": mask, "addr": rng.choice([0x60000000, 0x70000000]) + rng.randrange(64), "len": ln,
            "mem_seed": rng.randrange(251), "script": script, "jitter": rng.randrange(1 << 30), "wrap_rw": True}
    if op == "write":
        case["data"] = [rng.randrange(256) for _ in range(ln)]
    return case


def run_rw_impl(case):
    """the real SCPConnection.read / write against a simulated machine holding memory"""
    import random
    from rig.machine_control import scp_connection as sc
    jr = random.Random(case["jitter"])
    mem, execd = {}, []
    addr, buf = case["addr"], case["buf"]

    def machine(req):
        p = simnet.parse_scp(req)
        a, n = p["arg1"], p["arg2"]
        if p["cmd"] == 2:
            return simnet.make_reply(req, OK, data=bytes(mem.get(a + i, mem0(case, a + i)) for i in range(n)))
        if p["cmd"] == 3:
            for i, b in enumerate(bytearray(p["data"])):
                mem[a + i] = b
            execd.append((a - addr) // buf)
            return simnet.make_reply(req, OK)
        raise AssertionError("unexpected command %r" % p["cmd"])

    def script_fn(k, data):
        return [(d, tuple(kind) if isinstance(kind, list) else kind)
                for d, kind in case["script"].get(str(k), [[1, "ok"]])]

    net = simnet.Net(machine, script_fn, (lambda: 1 if jr.random() < 0.2 else 0))
    with simnet.installed(net):
        conn = sc.SCPConnection("sim", n_tries=case["n_tries"], timeout=float(case["timeout"]))
        if case["mask"] != 0xffff:
            conn.seq = sc.seqs(mask=case["mask"])
        try:
            if case["rw"] == "read":
                got = conn.read(buf, case["window"], 0, 0, 1, addr, case["len"])
                result = {"ok": list(bytearray(got))}
            else:
                conn.write(buf, case["window"], 0, 0, 1, addr, bytes(bytearray(case["data"])))
                result = {"burst": ["done"]}
        except sc.TimeoutError as e:
            result = {"burst": ["timeout", (e.packet.arg1 - addr) // buf]}
        except sc.FatalReturnCodeError as e:
            result = {"burst": ["fatal", int(e.return_code),
                                None if e.packet is None else (e.packet.arg1 - addr) // buf]}
        except ValueError:
            result = {"err": "ValueError"}
    clock, batches, payloads, seq0, cur = [], [], [], None, None
    for e in net.log:
        if e[0] == "t":
            clock.append(e[1])
        elif e[0] == "select":
            cur = []
            batches.append(cur)
        elif e[0] == "recv" and e[1] is not None:
            d = net.dgram[e[1]]
            cur.append({"id": e[1], "rc": d["rc"], "seq": d["seq"]})
            payloads.append([e[1], list(bytearray(d["bytes"][14:]))])
        elif e[0] == "send" and seq0 is None:
            seq0 = simnet.parse_scp(e[2])["seq"]
    env = {"window": case["window"], "n_tries": case["n_tries"], "modulus": case["mask"] + 1,
           "timeout": case["timeout"], "clock": clock, "batches": batches, "seq0": seq0 or 0}
    return result, env, payloads, mem, execd


def rw_note(ctx, suite, detail, case):
    """SCPConnection.read / write (chunking, access type, slice assembly) belong to property C07, whose check
    decides them; a disagreement here only means the composition model (readThrough / memAfter) is not
    validated on this tree.  It is recorded in the evidence and never decides C06."""
    if getattr(ctx, "rw_decides", False):
        # running under the C07 check: there the disagreement is C07's to decide
        if "differ from the machine" in detail or "not memory[addr := data]" in detail:
            ctx.violation("through-burst-not-exact", detail, case)
        else:
            ctx.mismatch(suite, detail, case)
        return
    ctx.tag("rw_through_DISAGREES")
    notes = ctx.extra.setdefault("rw_through_disagreements", [])
    if len(notes) < 5:
        notes.append({"suite": suite, "detail": detail[:300], "case": case})


def eval_rw_cases(ctx, cases):
    reqs, meta = [], []
    for case in cases:
        result, env, payloads, mem, execd = run_rw_impl(case)
        addr, ln, buf = case["addr"], case["len"], case["buf"]
        n_cmds = -(-ln // buf)
        ctx.traces += 1
        ctx.tag("%s_through_burst_%s" % (case["rw"], (result.get("burst") or ["ok" if "ok" in result else "err"])[0]))
        ctx.tag("rw_through_cases")
        if case.get("wrap_rw"):
            ctx.tag("rw_through_wrap_with_stragglers")
        lossy = any(v == [] or any(isinstance(d[0], int) and d[0] >= case["timeout"] for d in v)
                    for v in case["script"].values())
        ctx.case(case, lossy and n_cmds > 1)
        if case["rw"] == "read":
            reqs.append(dict(env, suite="c06", op="read_through", buf=buf, addr=addr, len=ln, payloads=payloads))
            meta.append((case, "read", result, None))
            if "ok" in result and result["ok"] != [mem0(case, addr + i) for i in range(ln)]:
                rw_note(ctx, "c06.read_through", "read returned bytes that differ from the machine's memory", case)
        else:
            lo = addr - 8
            init = [mem0(case, lo + i) for i in range(ln + 16)]
            final = [mem.get(lo + i, mem0(case, lo + i)) for i in range(ln + 16)]
            reqs.append({"suite": "c06", "op": "write_through", "buf": buf, "addr": addr, "data": case["data"],
                         "exec": execd, "lo": lo, "init": init})
            meta.append((case, "write_mem", final, None))
            reqs.append(dict(env, suite="c06", op="run", extra=[0] * n_cmds))
            meta.append((case, "write_run", result, None))
            if result == {"burst": ["done"]}:
                want = init[:8] + case["data"] + init[8 + ln:]
                if final != want or set(execd) != set(range(n_cmds)):
                    rw_note(ctx, "c06.write_through", "after a completed write the machine's memory is not "
                                 "memory[addr := data] or a chunk was never executed", case)
    replies = ctx.lean(reqs)
    for (case, what, impl, _), r in zip(meta, replies):
        if what == "read":
            if r != impl:
                rw_note(ctx, "c06.read_through", "model readThrough=%r implementation=%r" % (
                    str(r)[:200], str(impl)[:200]), case)
        elif what == "write_mem":
            if r != impl:
                rw_note(ctx, "c06.write_through", "model memAfter differs from the simulated machine's memory", case)
        elif r.get("result") != impl["burst"]:
            rw_note(ctx, "c06.write_through", "model result=%r implementation=%r" % (r.get("result"), impl), case)


def run(ctx):
    ctx.extra["rule"] = RULE
    ctx.assumptions += [
        "window >= 1, n_tries >= 1, sequence modulus > window (documented use)",
        "the simulated network/clock only produce the environment; the model and the spec are evaluated on the recorded log",
        "termination is proved only under the OS progress hypotheses (monotone clock, select returns by timeout, finitely "
        "many datagrams); they are evaluated on every recorded environment of the simulated clock/select, not on a real OS",
        "read/write through the burst: datagram payloads and the machine's executed requests are ghost inputs constrained "
        "by the theorem hypotheses; the simulated machine of the harness satisfies them"]
    n = ctx.scale(600, 20000)
    if ctx.extended:
        n *= 4
    cases = [wrap_case()] + [gen_case(ctx.rng, big=not ctx.quick) for _ in range(n)]
    for i in range(0, len(cases), 500):
        eval_cases(ctx, cases[i:i + 500])
    rw = [gen_rw_case(ctx.rng) for _ in range(ctx.scale(300, 6000) * (4 if ctx.extended else 1))]
    rw += [gen_rw_wrap_case(ctx.rng) for _ in range(ctx.scale(100, 2000) * (4 if ctx.extended else 1))]
    for i in range(0, len(rw), 500):
        eval_rw_cases(ctx, rw[i:i + 500])


def replay(ctx, payload):
    ctx.extra["rule"] = RULE
    case = payload["case"]
    if case.get("wrap"):
        case = wrap_case()
    if "rw" in case:
        eval_rw_cases(ctx, [case])
    else:
        eval_cases(ctx, [case])
THEOREMS += ['seqs_step', 'gen_seqs', 'drawSeq_is_seqs']   # translator tie: generated function bodies = model (Props/C06Gen.lean)
