"""C02 (companion) - KERNEL-LEVEL stream for the annealing kernels.

Drives rig.place_and_route.place.sa.python_kernel.PythonKernel (and, oracle only, c_kernel.CKernel) directly
through the API sa/algorithm.py uses - constructor, run_steps(num_steps, distance_limit, temperature),
get_placements() - on states prepared by sa.place itself (the kernel class handed to sa.place records its
constructor arguments and aborts the anneal), with EXTREME parameters that whole `sa.place` runs on random
problems practically never reach: temperatures 1e-12 .. 1e12 and 1e100, the temperature / distance-limit
sequence the loop of algorithm.py computes down to its stopping temperature, net weights spanning 1e-3 .. 1e3
inside one netlist, distance limits 1 .. max(width, height), many steps.

Oracle (the property: a placer returns a feasible placement or raises one of the two documented errors, never
anything else): every constructor / run_steps / get_placements call must return normally; the placements
after every schedule, expanded by finalise_same_chip_constraints, must satisfy the Lean `Feasible` predicate.
Correspondence: every `_step` of the Python kernel is recorded (source vertex, destination, swapped) and the whole
run is replayed through the Lean model `saPlace` (the accept bit is an input of `saStep`, so no float is modelled).

Hooked into harness/c02.py: run() calls run_kernel(ctx) last; replay() calls replay_kernel(ctx, payload) when
payload["case"] has the key "kernel"."""
import math

RULE_KERNEL = ("kernel cases: in-domain problems of the main generator (up to 10x10 machines, 40 vertices, constraints "
               "of every kind) with 1..3n nets whose weights are drawn log-uniformly from 1e-3..1e3 (plus exact 0.01 / 100 "
               "mixes); the kernel state is the one sa.place prepares; schedules of 4-12 run_steps calls with temperatures "
               "from {1e-12,1e-9,1e-6,1e-3,1,1e3,1e6,1e12,1e100}, distance limits 1..max, 1-3n steps each, and the "
               "temperature/distance sequence of algorithm.py run down to its stopping temperature (at most 120 "
               "temperatures); PythonKernel recorded step by step and replayed through the Lean model; CKernel driven with "
               "the same schedule (oracle only). A kernel case is non-trivial when the Python kernel made >= 20 steps, "
               "at least one swap was kept and one rejected or reverted")

CLAIM_KERNEL = ("Both annealing kernels are additionally driven directly (constructor, run_steps, get_placements) on states "
                "prepared by sa.place with extreme temperatures (1e-12..1e12, 1e100, and the schedule of algorithm.py down to "
                "its stopping temperature), strongly heterogeneous net weights and all distance limits: any exception is "
                "reported, placements go through the Lean Feasible oracle and every Python-kernel step through the saStep "
                "model.")

TEMPS = [1e-12, 1e-9, 1e-6, 1e-3, 1.0, 1e3, 1e6, 1e12, 1e100]
DOCUMENTED = ("InsufficientResourceError", "InvalidConstraintError")


class _Captured(Exception):
    def __init__(self, args):
        Exception.__init__(self, "kernel arguments captured")
        self.kargs = args


def gen_kernel_case(rng, big=True):
    """problems of the main generator that reach the kernel are preferred (up to 8 draws)"""
    for _ in range(8):
        case = _gen_kernel_case(rng, big)
        if _capture(case, case["seed"])[1] is not None:
            break
    return case


def _gen_kernel_case(rng, big):
    from harness import c02
    while True:
        prob = c02.gen_problem(rng, big=big)
        if prob.get("var"):
            prob["var"]["scale"] = 1        # the C kernel (C ints) is driven with the same problem
        n = len(prob["vr"])
        if n >= 2 and prob["w"] * prob["h"] >= 2 and not prob["ood"]:
            break
    mode = rng.choice(["loguniform", "loguniform", "one-heavy", "two-scale"])
    nets = []
    m = rng.choice([1, 2, 3]) * n
    for i in range(m):
        src = rng.randrange(n)
        sinks = [rng.randrange(n) for _ in range(rng.choice([1, 1, 1, 2, 3]))]
        if mode == "loguniform":
            wt = 10.0 ** rng.uniform(-3, 3)
        elif mode == "one-heavy":
            wt = 100.0 if i == 0 else 0.01
        else:
            wt = rng.choice([0.001, 1000.0])
        nets.append([src, sinks, wt])
    prob["nets"] = nets
    prob["effort"] = 1.0
    dmax = max(prob["w"], prob["h"])
    sched = []
    for _ in range(rng.choice([4, 6, 8, 12])):
        sched.append({"steps": rng.choice([1, n, n, 2 * n, 3 * n]), "d": rng.choice([1, 1, 2, dmax, rng.randint(1, dmax)]),
                      "t": rng.choice(TEMPS)})
    # low temperatures late, as at the end of an anneal
    sched.append({"steps": 2 * n, "d": 1, "t": rng.choice([1e-12, 1e-9])})
    sched.append({"steps": 2 * n, "d": dmax, "t": rng.choice([1e-12, 1e-9, 1e-6])})
    return {"problem": prob, "schedule": sched, "anneal": rng.random() < 0.6, "anneal_steps": rng.choice([n, 2 * n]),
            "seed": rng.randrange(2 ** 30), "cseed": rng.randrange(2 ** 30)}


def _capture(case, seed):
    """run sa.place up to the construction of the kernel -> (outcome dict, kernel args or None, rr, merged)"""
    from harness import c02
    from rig.place_and_route.place.sa import algorithm as sa_alg
    prob = case["problem"]
    vr, nets, machine, cs = c02.build(prob)
    rr = c02.RecRandom(seed)
    merged, keep = {}, []
    real_same = sa_alg.apply_same_chip_constraints

    def rec_same(*a):
        r = real_same(*a)
        for k, mv in enumerate(r[3]):
            merged[id(mv)] = k
            keep.append(mv)
        return r

    class K(object):
        def __init__(self, *a, **k):
            raise _Captured(a)

    sa_alg.apply_same_chip_constraints = rec_same
    try:
        try:
            p = sa_alg.place(vr, nets, machine, cs, effort=1.0, random=rr, kernel=K)
            return {"ok": p}, None, rr, merged, keep
        except _Captured as c:
            return None, c.kargs, rr, merged, keep
        except Exception as e:    # noqa - every exception type is part of the observation
            return {"err": type(e).__name__, "msg": str(e)[:200]}, None, rr, merged, keep
    finally:
        sa_alg.apply_same_chip_constraints = real_same


def _drive(kernel, case, n_movable, n_nets, machine, log):
    """the run_steps calls of one case; `log` receives (call description) before each call"""
    for s in case["schedule"]:
        log.append("run_steps(%d, %d, %r)" % (s["steps"], s["d"], s["t"]))
        kernel.run_steps(s["steps"], s["d"], s["t"])
    if case["anneal"]:
        # the loop of sa/algorithm.py (same expressions), with a smaller number of steps per temperature
        distance_limit = max(machine.width, machine.height)
        log.append("run_steps(%d, %d, 1e100)" % (n_movable, distance_limit))
        _0, _1, sd = kernel.run_steps(n_movable, distance_limit, 1e100)
        temperature = 20.0 * sd
        num_steps = max(1, case["anneal_steps"])
        current_cost = 0.0
        count = 0
        while temperature > (0.005 * current_cost) / n_nets and count < 120:
            count += 1
            log.append("run_steps(%d, %d, %r)" % (num_steps, int(math.ceil(distance_limit)), temperature))
            num_accepted, current_cost, _ = kernel.run_steps(num_steps, int(math.ceil(distance_limit)), temperature)
            r_accept = num_accepted / float(num_steps)
            if current_cost == 0:
                break
            if r_accept > 0.96:
                alpha = 0.5
            elif r_accept > 0.8:
                alpha = 0.9
            elif r_accept > 0.15:
                alpha = 0.95
            else:
                alpha = 0.8
            temperature = alpha * temperature
            distance_limit *= 1.0 - 0.44 + r_accept
            distance_limit = min(max(distance_limit, 1.0), max(machine.width, machine.height))
    log.append("get_placements()")
    return kernel.get_placements()


def run_case(case):
    """-> dict(py=..., c=..., req=lean request or None, ...)"""
    from harness import c02
    from rig.place_and_route.place.sa import python_kernel
    from rig.place_and_route.place.utils import finalise_same_chip_constraints
    prob = case["problem"]
    base = c02.lean_problem(prob)
    res = {"py": None, "c": None, "req": None, "steps": [], "pre": None}
    pre, kargs, rr, merged, keep = _capture(case, case["seed"])
    if kargs is None:
        res["pre"] = pre
        return res
    vr2, movable, fixed, init, nets2, machine2, rnd = kargs[:7]
    shuffles = [r for k, r in rr.log if k == "shuffle"]
    locs = [list(c) for c in shuffles[0]]
    vs = [c02.enc_vertex(v, merged) for v in shuffles[1]]
    subs = keep
    steps = []
    real_step = python_kernel._step

    def rec_step(*a):
        n0 = len(rr.log)
        machine_, wrap = a[8], a[9]
        swapped, delta = real_step(*a)
        ev = rr.log[n0:]
        if not ev:
            return swapped, delta
        src = [r for k, r in ev if k == "choice"][0]
        ri = [r for k, r in ev if k == "randint"]
        x, y = ri[-2], ri[-1]
        if wrap:
            x, y = x % machine_.width, y % machine_.height
        asked = any(k == "random" for k, r in ev)
        steps.append({"src": c02.enc_vertex(src, merged), "dst": [x, y], "accept": bool(swapped),
                      "feasible": bool(swapped or asked)})
        return swapped, delta

    log = []
    python_kernel._step = rec_step
    try:
        try:
            log.append("PythonKernel(...)")
            k = python_kernel.PythonKernel(vr2, movable, fixed, init, nets2, machine2, rnd, no_warn=True)
            p = dict(_drive(k, case, len(movable), len(nets2), machine2, log))
            log.append("finalise_same_chip_constraints")
            finalise_same_chip_constraints(subs, p)
            res["py"] = {"ok": p}
        except Exception as e:   # noqa
            res["py"] = {"err": type(e).__name__, "msg": str(e)[:200], "at": log[-1] if log else None}
    finally:
        python_kernel._step = real_step
    res["steps"] = steps
    res["req"] = dict(base, op="sa", locs=locs, vs=vs,
                      steps=[{"src": s["src"], "dst": s["dst"], "accept": s["accept"]} for s in steps])
    # C kernel: same preparation (fresh objects), same schedule, oracle only
    try:
        from rig.place_and_route.place.sa.c_kernel import CKernel
    except ImportError:
        CKernel = None
    if CKernel is not None:
        pre2, kargs2, rr2, merged2, keep2 = _capture(case, case["cseed"])
        if kargs2 is not None:
            vr3, movable3, fixed3, init3, nets3, machine3, rnd3 = kargs2[:7]
            log = []
            try:
                log.append("CKernel(...)")
                k = CKernel(vr3, movable3, fixed3, init3, nets3, machine3, rnd3)
                p = dict(_drive(k, case, len(movable3), len(nets3), machine3, log))
                finalise_same_chip_constraints(keep2, p)
                res["c"] = {"ok": p}
            except Exception as e:   # noqa
                res["c"] = {"err": type(e).__name__, "msg": str(e)[:200], "at": log[-1] if log else None}
    return res


def eval_cases(ctx, cases):
    from harness import c02
    reqs, slots, work = [], [], []
    for case in cases:
        r = run_case(case)
        work.append((case, r))
        base = c02.lean_problem(case["problem"])
        if r["req"] is not None and r["py"] is not None and "ok" in r["py"]:
            reqs.append(dict(r["req"], suite="c02"))
            slots.append((r, "model"))
        for which in ("py", "c"):
            o = r[which]
            if o is not None and "ok" in o:
                enc = c02.enc_placement(o["ok"])
                r[which + "_enc"] = enc
                if enc is not None:
                    reqs.append(dict(base, suite="c02", op="valid", p=enc))
                    slots.append((r, which + "_valid"))
    replies = ctx.lean(reqs)
    for (obj, what), rep in zip(slots, replies):
        obj[what] = rep
    for case, r in work:
        desc = {"kernel": case}
        if r["pre"] is not None or (r["py"] is None and r["c"] is None):
            # the problem never reaches the kernel (documented error or trivial solution): covered by the main stream
            ctx.tag("kernel:not-reached")
            ctx.case(desc, False)
            continue
        for which, name in (("py", "sa-python-kernel"), ("c", "sa-c-kernel")):
            o = r[which]
            if o is None:
                continue
            ctx.traces += 1
            if "err" in o:
                ctx.tag(name + ":" + o["err"])
                # the kernel is entered only after the constraint handling and the initial placement succeeded:
                # from here on the placer must return (the documented errors included for completeness)
                if o["err"] not in DOCUMENTED:
                    ctx.violation("%s-raises-%s" % (name, o["err"]),
                                  "%s raised %s (%s) in %s; a placer returns a placement or raises "
                                  "InsufficientResourceError / InvalidConstraintError, never another exception"
                                  % (name, o["err"], o.get("msg"), o.get("at")), desc)
                continue
            ctx.tag(name + ":returned")
            if r.get(which + "_enc") is None:
                ctx.violation("infeasible-placement-" + name, "%s returned a placement with a non-chip value: %r"
                              % (name, o["ok"]), desc)
            elif not r[which + "_valid"].get("valid"):
                ctx.violation("infeasible-placement-" + name, "%s returned an infeasible placement (%s): %r"
                              % (name, r[which + "_valid"].get("why"), r[which + "_enc"]), desc)
        if r["py"] is not None and "ok" in r["py"] and "model" in r:
            model = r["model"]
            mi = {"ok": r.get("py_enc")}
            if "ok" in model:
                mm = {"ok": c02.canon_model({"ok": model["ok"]["p"]})["ok"]}
                if model["ok"]["feasible"] != [s["feasible"] for s in r["steps"]]:
                    ctx.mismatch("c02.kernel-steps", "per-step feasibility differs", desc)
            else:
                mm = model
            if mi != mm:
                ctx.mismatch("c02.kernel", "impl=%r model=%r" % (str(mi)[:300], str(mm)[:300]), desc)
        st = r["steps"]
        kept = sum(1 for s in st if s["accept"])
        ctx.tag("kernel:steps>=20" if len(st) >= 20 else "kernel:steps<20")
        ctx.case(desc, len(st) >= 20 and kept >= 1 and kept < len(st))


def run_kernel(ctx):
    ctx.extra["rule_kernel"] = RULE_KERNEL
    n = ctx.scale(120, 1500)
    if ctx.extended:
        n *= 4
    cases = [gen_kernel_case(ctx.rng) for _ in range(n)]
    for i in range(0, len(cases), 50):
        eval_cases(ctx, cases[i:i + 50])


def replay_kernel(ctx, payload):
    eval_cases(ctx, [payload["case"]["kernel"]])
