"""C08 - bit-field keys are collision-free.

Correspondence of rig/bitfield.py with the Lean model RigModel/Model/C08.lean on
operation histories (add_field / __call__ / assign_fields / getters, errors as an
enum, the *whole field tree* compared after every mutating call), and the Lean
specification predicates (the ones the theorems are about) evaluated on the
implementation's own trees, keys, masks and reported positions."""
import json

CLAIM = dict(
    text=("Machine-checked proof (Lean 4) over ALL operation histories of a BitField (any hierarchy depth, sibling scopes "
          "re-using names, fixed/automatic positions and lengths, tags, any interleaving of add_field / __call__ / "
          "assign_fields with arbitrary instance values, any bit-field length).  Three invariants are established by the "
          "empty bit field and preserved by every operation, including an assign_fields that raises half-way: (1) of the "
          "field tree: co-presentable fields have distinct names and, once positioned, disjoint non-empty ranges inside the "
          "bit field; every length covers the largest value given; (2) of its structure: every child key is a non-empty "
          "tuple naming fields of the parent node, and every field required by a tagged field (and present with it) carries "
          "the tag (tag_closed); (3) of the instances the code creates: every value names a field present in the instance "
          "and is <= that field's max_value, hence fits the field's length once known (values_fit).  From them: any two "
          "fields present in one instance are disjoint and in range; __call__ rejects values wider than a known length; "
          "explicit definitions that overflow or overlap a co-presentable positioned field are rejected; after a successful "
          "assign_fields every field has a position and a length (all_fixed_after_assign); for every instance every present "
          "field's value is read back from get_value() at the position get_location_and_length reports "
          "(readback_instance, no side condition); get_mask() / get_mask(tag) have exactly the bits of the present "
          "(tagged) fields, and a tagged field's required fields are found by get_field with the tag; two instances "
          "whose value dicts differ at all differ on a field present in both, and if both have keys their key/mask pairs "
          "never match each other (orthogonal_instances, no side condition); completeness: with the repaired scan "
          "bound (SCAN_SLACK = 1), nothing positioned explicitly, nested scopes and every co-present set of widths within "
          "the length, assign_fields succeeds (complete_floating; also for the weaker per-chain condition).  Tied to "
          "rig/bitfield.py by exact correspondence of histories with full tree dumps after every mutating call, the scan "
          "bound and max_value default regenerated from the source on every run, and the Lean specification predicates "
          "(proved equivalent to / used as hypotheses of the theorems) evaluated on the implementation's own trees, "
          "instances, keys, masks and positions.  Automatic lengths: the model chooses the exact bit length of "
          "max_value, or - only for max_value >= 2^44 and only where the implementation itself shows it - one bit more "
          "(CPython's int(log(v, 2)) + 1 rounds up for e.g. 2^k - 1, k >= 48); auto_length_covers proves that either choice "
          "covers max_value, so every theorem holds for both, and a NARROWER implementation length is a correspondence "
          "mismatch and a too-narrow / value-too-wide / readback / not-orthogonal violation.  Only validated, not proved: that the hand-written model equals the "
          "code (differential correspondence), and completeness for non-nested scopes (false: known finding)."),
    design="3/C08",
    note=("Completeness: the theorem has the hypothesis SCAN_SLACK = 1 (the constant the translator reads from "
          "_assign_field's range(0, length - width + 1); 0 on an unrepaired tree, where the clause is false: "
          "fixes/c08-assign-scan-bound.diff) and nestedB (two fields can be present together only if one's node is an "
          "ancestor of the other's).  First-fit placement is NOT complete when fields of different branches can be "
          "present together (children keyed on different parent fields): fragmentation, and for some hierarchies "
          "(5-cycle of scopes) no layout exists at all although every co-present set fits - finding "
          "complete-floating-cross-scope.  'Two different complete assignments' means two instances whose dicts differ "
          "as mappings; for arbitrary dicts (not instances) the exact extra condition is that every key names a field "
          "present under that dict ({zz: 1} vs {} differ on no field) - it is part of the proved instance invariant.  "
          "add_field is proved for arbitrary instance values (more general than the code).  Auto length: exact bit length "
          "demanded of the implementation below 2^44 (probed: the float formula is exact there; first deviation at "
          "2^48 - 1); from 2^44 on the implementation's length must be the exact bit length or one more (the harness "
          "observes the implementation's own length for that max_value on a scratch bit field and passes 'spare' marks to "
          "the model's assign op; Reachable has a constructor for this model-only marking); the completeness oracle is "
          "not applied when an automatically sized field has max_value >= 2^44 (its width is then the implementation's "
          "choice).  Explicit start positions "
          "are non-negative (documented 0-based index).  A RecursionError of _Tree.add_field (instance values selecting "
          "fields of two children of one node) is modelled as an error and ends the history.  "
          "Explicit definitions: assign_keeps_starts proves that assign_fields never moves a field that has a start "
          "position; the oracle startsKeptB on the implementation's trees before / after every assign_fields reports a moved "
          "explicit start as explicit-start-moved when assign_fields returned (with the overlap and too-narrow oracles this "
          "is 'overlapping explicit definitions are rejected'); after a raising assign_fields it is a mismatch only.  "
          "Completeness is judged on what the ACCEPTED values require: the oracle evaluates floatingFitsB on the "
          "implementation's pre-assign tree with max_value replaced by the largest value of any __call__ that returned (1 "
          "for none); on the unchanged code the two trees are equal (validation first, recording after - the model's "
          "call leaves the state untouched on error); a rejected call that leaves a trace in max_value is a correspondence "
          "mismatch and, where the inflated width no longer fits, a complete-floating violation.  "
          "Masks of partially specified instances (get_mask needs no values) are judged by the mask_exact oracle as "
          "well as compared with the model; keys only exist for complete instances.  "
          "HARDENING (what the streams do, and what is left out on purpose): every call may use other argument kinds "
          "(values / lengths / positions / the bit-field length as bool or IntEnum members; tags as None, str, list, tuple, "
          "set, frozenset, generator, iterator, dict view, incl. the tags '', '%s', '{}', 't 0'), other calling conventions "
          "(positional / mixed / keyword for add_field, getters and the constructor, BitField() default length), a "
          "subclass of BitField as root (derived instances must be of that class and share tree and length: compared as "
          "part of the correspondence, not a property violation), the caller editing the tag container it passed and the "
          "tag set it was handed back (and keeping those sets until the end), two bit fields alive and used alternately "
          "(twins differing in one aspect, both orders), rig.bitfield re-executed at the start of every case so a replay "
          "carries its whole history, every implementation call under a CPU limit (did-not-return), and scale cases (300 "
          "neighbouring fields, 257 sibling scopes, a 100-deep chain, 600 instances, 500-bit fields in 1100 bits).  Left "
          "out: numpy integers (rig never passes them to BitField; np.int64 << start wraps beyond 63 bits - outside the "
          "documented int domain); identifiers other than str (they are keyword names of __call__); bytes kinds, "
          "generators handed back, external faults, machine configuration (bitfield.py has none; failed add_field / "
          "__call__ / assign_fields followed by continued use is the ordinary error stream); the internal-only parameters "
          "_fields, _field_values, assigned_bits stay at their defaults; tag and field together (documented error); the "
          "keyword dict of __call__ is copied by the language; hierarchies deeper than ~100 (building a 373-deep chain "
          "already takes 2 CPU-minutes - cubic - so Python's recursion limit near depth 1000 is out of practical reach); "
          "nothing in bitfield.py is counted in 8 or 16 bits."),
    technique="Lean 4 theorems over a hand-written model + differential correspondence on histories + Lean spec predicates as oracle")

THEOREMS = ["max_value_default", "inv_init", "inv_addField", "inv_call", "inv_assignFields", "reachable_inv",
            "assign_disjoint", "enabled_disjoint", "scope_unique", "wide_enough", "auto_length_covers", "assign_keeps_starts", "startsKeptB_getElem", "call_rejects_wide",
            "reject_explicit_overflow", "reject_explicit", "valuesFit_of_le_max", "readback", "mask_exact",
            "mask_exact_tag", "orthogonal",
            # deepening round
            "inv2_init", "reachable_inv2", "tree_structure", "tag_closed", "tag_closed_getField",
            "all_fixed_after_assign", "getMask_ok_after_assign", "reachableI_reachable", "reachableI_instOK",
            "values_fit", "instOKB_iff", "valuesFitB_iff", "readback_instance", "instances_differ_on_common",
            "orthogonal_instances", "complete_floating_chains", "compatibleB_iff", "pairwiseB_iff",
            "nested_of_nestedB", "complete_floating"]

RULE = ("histories of 6-40 operations generated against the running implementation (mostly valid: names a-h, values 0-3 "
        "that open sibling scopes, lengths None/1-5, explicit positions incl. the top bit, tags, assign_fields in the middle "
        "and at the end, then completion of instances so that keys exist) plus an error stream (duplicate names, overlaps, "
        "overflow, zero/negative lengths, negative/too large values, unknown fields/tags); bit-field lengths 1-64 chosen "
        "tight for the hierarchy in half of the cases; plus a wide stream: bit fields of 64-160 bits (and the exact-fit / "
        "one-bit-short re-runs) with 2-5 automatically sized neighbouring fields (and one in a child scope) whose largest "
        "values are 2^k - 1, 2^k, 2^k + 1 for k in 0..100 biased to 30..70, several complete instances, and fixed "
        "boundary cases k in {44,47,48,49,50,52,53,63,64,65,80,100}; plus a deep stream: hierarchies 2-4 levels deep (a "
        "selector per level, scopes for both selector values, sibling scopes re-using names), in every scope fields with "
        "every mix of {start_at given or not} x {length given or not}, explicit positions placed directly next to (0-3 "
        "bits from) whatever is already positioned anywhere in the tree - parents, children, grandchildren, siblings "
        "under other selector values - and every field with a given start and automatic length gets a value that makes "
        "it stop one short of, exactly at, or one past the next positioned field above it (assign_fields must raise or "
        "lay out without overlap); tags at depths 0, 1, 2+; every prefix of every selector chain (none, first, "
        "first+second, ...) is an instance on which get_mask / get_value (no tag, tag) / get_tags / "
        "get_location_and_length are called; for every instance of every history - complete or partially specified - "
        "get_mask() and get_mask(tag) are read back and judged by the Lean mask_exact oracle on the implementation's own "
        "tree; plus an order stream: 2-4 fields (one optionally in a child scope), each one of "
        "the four combinations {start_at given or not} x {length given or not}, given starts on boundary bits (0, 1, the top, "
        "just below it) or next to / one bit into a neighbour, values that make automatic lengths stop short of, touch or "
        "run into the next explicit start above, the same plan in EVERY definition order (all permutations up to 3 fields; "
        "for 4: first, last, three random, positioned-before-unpositioned and the reverse), values given in one or two "
        "calls; after every assign_fields the Lean predicate startsKeptB compares the implementation's trees before and "
        "after (an explicitly positioned field keeps its start); plus a reject stream: nothing positioned, nested scopes, "
        "automatic-length fields, calls REJECTED by a later keyword (negative value, value too large for a fixed-length "
        "field, unavailable / unknown field) whose EARLIER keywords carry values (100 ... 2^19) larger than anything "
        "accepted, each history re-run on the bit field exactly tight (or +-1) for the values accepted before the first "
        "assign_fields; in 40 % of the histories every call draws its "
        "argument kinds and calling convention (recorded in the op), 30 % build the bit field another way (keyword / "
        "default / IntEnum length, subclass); one history in ten is also run interleaved op by op with a twin (one "
        "length / value / tag / position / op / bit-field length changed) or the previous history on a second live bit "
        "field (both checked against their own model run); 3 (quick) or 5 scale cases per run; rig.bitfield is "
        "re-executed before every case; every implementation call runs under a CPU limit of 5 s; keys, masks and "
        "positions are read back at the end of each history, before the next one starts; a case is non-trivial when it has >= 2 scopes, a successful "
        "assign_fields and >= 1 complete key checked by the oracle; distinct = distinct canonical JSON of the history")

IDENTS = list("abcdefgh")
TAGS = ["t0", "t1", "t2"]
MAXV = 2 ** 40


# --------------------------------------------------------------------------
# implementation side
# --------------------------------------------------------------------------
def _i(x):
    """ints of every kind (bool, IntEnum member) are compared as plain ints"""
    return None if x is None else int(x)


def dump_tree(tree, path=()):
    out = []
    for ident, f in tree.fields.items():
        out.append({"path": [[[i, _i(v)] for i, v in k] for k in path], "ident": ident,
                    "length": _i(f.length), "start": _i(f.start_at),
                    "tags": sorted(f.tags), "max": _i(f.max_value)})
    for key, child in tree.children.items():
        out.extend(dump_tree(child, path + (tuple(key),)))
    return out


def fields_in_order(tree):
    """the _Field objects in the order of dump_tree"""
    out = list(tree.fields.values())
    for child in tree.children.values():
        out.extend(fields_in_order(child))
    return out


_ENUMS = {}
_HANGS = [0]


def cpu_limit():
    """every model function is a total Lean definition (terminates); a call of the implementation normally takes well
    under 50 ms (the scale cases, run first: < 1 s): one still running after 5 s of CPU time has not returned (1 s after 6
    hangs, 0.2 s after 20; after 60 the run stops generating)"""
    from harness import common
    return common.cpu_limit(5 if _HANGS[0] < 6 else 1 if _HANGS[0] < 20 else 0.2)


def as_kind(v, kind):
    """the same integer as a bool / an IntEnum member"""
    if v is None or kind in (None, "int"):
        return v
    if kind == "bool":
        return bool(v) if v in (0, 1) else v
    if kind == "enum":
        if v not in _ENUMS:
            import enum
            _ENUMS[v] = enum.IntEnum("E%d" % len(_ENUMS), {"M": v}).M
        return _ENUMS[v]
    raise KeyError(kind)


def tags_as(tags, kind):
    """the tags argument of add_field in every documented form"""
    tags = list(tags)
    if kind in (None, "list"):
        return tags
    if kind == "none":
        return None
    if kind == "str":
        return " ".join(tags)
    if kind == "tuple":
        return tuple(tags)
    if kind == "set":
        return set(tags)
    if kind == "frozenset":
        return frozenset(tags)
    if kind == "gen":
        return (t for t in tags)
    if kind == "iter":
        return iter(tags)
    if kind == "keys":
        return dict.fromkeys(tags).keys()
    raise KeyError(kind)


def decorate(rng, op):
    """argument kinds / calling conventions of one call (recorded in the op: a replay reproduces them)"""
    kind = op["op"]
    k = {}
    if kind == "add":
        tags = op["tags"]
        plain = all(t and not any(c.isspace() for c in t) for t in tags)
        kinds = ["list", "tuple", "set", "frozenset", "gen", "iter", "keys"]
        if plain:
            kinds += ["str", "str"]
        if not tags:
            kinds += ["none", "none", "none"]
        k["tags"] = rng.choice(kinds)
        k["conv"] = rng.choice(["kw", "kw", "pos", "mixed"])
        for a in ("length", "start"):
            v = op[a]
            if v is not None and rng.random() < 0.3:
                k[a] = "bool" if v in (0, 1) and rng.random() < 0.5 else "enum"
        k["edit"] = rng.random() < 0.6
    elif kind == "call":
        k["v"] = [("bool" if v in (0, 1) and rng.random() < 0.5 else "enum") if rng.random() < 0.3 else "int"
                  for _, v in op["kw"]]
    elif kind in ("value", "mask"):
        k["conv"] = rng.choice(["kw", "pos", "pos1"])
    elif kind == "tags":
        k["edit"] = rng.random() < 0.7
        k["conv"] = rng.choice(["kw", "pos"])
    elif kind == "loc":
        k["conv"] = rng.choice(["kw", "pos"])
    return k


_CODE = {}


def reload_rig():
    """start of a case: a freshly loaded rig.bitfield (no module- / class-level state of earlier cases)"""
    import sys
    m = sys.modules.get("rig.bitfield")
    if m is None:
        import rig.bitfield as m
    f = m.__file__
    if f not in _CODE:
        with open(f) as fh:
            _CODE[f] = compile(fh.read(), f, "exec")
    exec(_CODE[f], m.__dict__)      # what importlib.reload does, with the source compiled once (0.3 ms)


def err_name(e):
    from rig import bitfield
    if isinstance(e, bitfield.UnavailableFieldError):
        return "UnavailableFieldError"
    if isinstance(e, bitfield.UnknownTagError):
        return "UnknownTagError"
    if isinstance(e, ValueError):
        return "ValueError"
    if isinstance(e, RecursionError):
        return "RecursionError"
    return "Other:" + type(e).__name__


SPARE_FROM = 2 ** 44      # = Rig.C08.SPARE_FROM of the model
_PROBE = {}


def probe_len(max_value):
    """the automatic length the *implementation* gives a field whose largest value is max_value (observed on a scratch
    bit field; a deterministic function of max_value); None if it cannot be observed"""
    if max_value not in _PROBE:
        from rig.bitfield import BitField
        from harness import common
        try:
            with cpu_limit():
                b = BitField(max(1, max_value).bit_length() + 8)
                b.add_field("p")
                b(p=max_value)
                b.assign_fields()
                _PROBE[max_value] = _i(b.get_location_and_length("p")[1])
        except (ValueError, LookupError, ArithmeticError, OverflowError, TypeError):
            _PROBE[max_value] = None
        except common.ImplHang:
            _HANGS[0] += 1
            _PROBE[max_value] = None
    return _PROBE[max_value]


def spare_hints(dump):
    """max_values >= SPARE_FROM of automatically sized fields for which the implementation's floating-point length is
    one bit above the exact bit length (allowed: wider is fine); anything else is left to the exact rule of the model"""
    out = set()
    for e in dump:
        m = e["max"]
        if e["length"] is None and m >= SPARE_FROM and probe_len(m) == m.bit_length() + 1:
            out.add(m)
    return sorted(out)


class Runner(object):
    """Runs a history on the real BitField; instance i = i-th successfully created instance.
    `root`: how the bit field is constructed ({"sub": subclass of BitField, "ctor": "pos" | "kw" | "default"})."""

    def __init__(self, length, root=None, decor=None):
        from rig.bitfield import BitField
        self.length = length
        self.rootopts = dict(root or {})
        cls = BitField
        if self.rootopts.get("sub"):
            class SubBitField(BitField):
                """a user's subclass: derived instances must be of this class and share the tree"""
                flavour = "sub"

                def flavoured(self):
                    return (self.flavour, self.length)
            cls = SubBitField
        ctor = self.rootopts.get("ctor", "pos")
        if ctor == "default" and length == 32:
            self.root = cls()
        elif ctor == "kw":
            self.root = cls(length=as_kind(length, self.rootopts.get("lkind")))
        else:
            self.root = cls(as_kind(length, self.rootopts.get("lkind")))
        self.cls = cls
        self.decor = decor        # rng: choose argument kinds / calling conventions while generating
        self.insts = [self.root]
        self.results = []
        self.ops = []
        self.dead = False         # after a RecursionError the tree is garbage
        self.hung = None          # (op index, where) of a call that did not return
        self.pre_assign = []      # (op index, dump before assign_fields [max_value as recorded by the implementation])
        self.pre_accepted = {}    # op index -> the same dump with max = largest value of any ACCEPTED __call__ (or 1)
        self.accepted = {}        # id(_Field) -> largest value given to it by a call that returned
        self.kept = []            # (tag set handed back earlier, what it held then)
        self.partner = None       # the other history of an interleaved pair

    def case(self):
        c = {"length": self.length, "ops": self.ops}
        if self.rootopts:
            c["root"] = self.rootopts
        if self.partner is not None:
            c["pair"] = self.partner
        return c

    def dump(self):
        return dump_tree(self.root.fields)

    def dump_accepted(self, dump=None):
        """the tree with max = what the values of the calls that RETURNED require (1 = the default of a new field):
        the requirement side of the completeness clause; equals dump() whenever a rejected call leaves no trace"""
        dump = self.dump() if dump is None else dump
        objs = fields_in_order(self.root.fields)
        assert len(objs) == len(dump)
        return [dict(e, max=self.accepted.get(id(f), 1)) for e, f in zip(dump, objs)]

    def do(self, op):
        from harness import common
        assert not self.dead
        op = dict(op)
        self.ops.append(op)
        kind = op["op"]
        if self.decor is not None and "k" not in op:
            op["k"] = decorate(self.decor, op)
        k = op.get("k") or {}
        inst = self.insts[op["inst"]] if "inst" in op else None
        mutating = kind in ("add", "call", "assign")
        if kind == "assign":
            pre = self.dump()
            self.pre_assign.append((len(self.ops) - 1, pre))
            self.pre_accepted[len(self.ops) - 1] = self.dump_accepted(pre)
            hints = spare_hints(pre)
            op.pop("spare", None)
            if hints:
                op["spare"] = hints          # model-only: where the float length has a spare bit (see RULE)
        passed_tags = None
        try:
            with cpu_limit():
                if kind == "add":
                    passed_tags = tags_as(op["tags"], k.get("tags"))
                    length = as_kind(op["length"], k.get("length"))
                    start = as_kind(op["start"], k.get("start"))
                    conv = k.get("conv", "kw")
                    if conv == "pos":
                        inst.add_field(op["ident"], length, start, passed_tags)
                    elif conv == "mixed":
                        inst.add_field(op["ident"], length, tags=passed_tags, start_at=start)
                    else:
                        inst.add_field(op["ident"], length=length, start_at=start, tags=passed_tags)
                    r = {"ok": None}
                elif kind == "call":
                    vk = k.get("v") or []
                    kw = dict((i, as_kind(v, vk[n] if n < len(vk) else None)) for n, (i, v) in enumerate(op["kw"]))
                    new = inst(**kw)
                    kw.clear()                       # the caller's dict is the caller's
                    self.insts.append(new)
                    for i, v in new.field_values.items():
                        fobj = self.root.fields.get_field(i, new.field_values)
                        self.accepted[id(fobj)] = max(self.accepted.get(id(fobj), 1), int(v))
                    r = {"ok": [[i, _i(v)] for i, v in new.field_values.items()]}
                    if type(new) is not self.cls or new.fields is not self.root.fields or new.length != self.length:
                        r["derived"] = [type(new).__name__, new.fields is self.root.fields, _i(new.length)]
                elif kind == "assign":
                    self.root.assign_fields()
                    r = {"ok": None}
                elif kind in ("value", "mask"):
                    f = inst.get_value if kind == "value" else inst.get_mask
                    conv = k.get("conv", "kw")
                    if conv == "pos":
                        r = {"ok": _i(f(op["tag"], op["field"]))}
                    elif conv == "pos1":
                        r = {"ok": _i(f(op["tag"], field=op["field"]))}
                    else:
                        r = {"ok": _i(f(tag=op["tag"], field=op["field"]))}
                elif kind == "tags":
                    got = inst.get_tags(op["field"]) if k.get("conv") == "pos" else inst.get_tags(field=op["field"])
                    first = sorted(got)
                    if k.get("edit"):
                        # the caller edits the set it was handed back and asks again
                        got.add("__edited__")
                        if first:
                            got.discard(first[0])
                        again = sorted(inst.get_tags(op["field"]))
                        r = {"ok": first} if again == first else {"ok": again, "changed_by_callers_edit": first}
                    else:
                        r = {"ok": first}
                    self.kept.append((got, set(got)))
                elif kind == "loc":
                    got = (inst.get_location_and_length(op["field"]) if k.get("conv") == "pos"
                           else inst.get_location_and_length(field=op["field"]))
                    r = {"ok": [_i(x) for x in got]}
                elif kind == "attr":
                    r = {"ok": _i(getattr(inst, op["field"]))}
                else:
                    raise KeyError(kind)
        except (ValueError, LookupError, RecursionError) as e:
            r = {"err": err_name(e)}
            if r["err"] == "RecursionError":
                self.dead = True
        except (TypeError, AssertionError, ArithmeticError, OverflowError) as e:
            r = {"err": err_name(e)}
        except common.ImplHang as e:
            _HANGS[0] += 1
            r = {"err": "DidNotReturn"}
            self.hung = (len(self.ops) - 1, str(e))
            self.dead = True
        if kind == "add" and k.get("edit") and passed_tags is not None:
            # the caller edits the container it passed (the field's tags are the field's)
            if isinstance(passed_tags, list):
                passed_tags.append("__edited__")
                del passed_tags[:1]
            elif isinstance(passed_tags, set):
                passed_tags.add("__edited__")
        if mutating and not self.dead:
            r["state"] = self.dump()
        self.results.append(r)
        return r

    # helpers for the generator
    def enabled(self, i):
        b = self.insts[i]
        with cpu_limit():
            return [(ident, f) for ident, f in b.fields.enabled_fields(b.field_values)]

    def unvalued(self, i):
        b = self.insts[i]
        return [(ident, f) for ident, f in self.enabled(i) if ident not in b.field_values]


# --------------------------------------------------------------------------
# generator (drives the running implementation; the recorded ops are the case)
# --------------------------------------------------------------------------
USED_VALUES = {}      # ident -> values used so far in the current history


def pick_value(rng, f, bad=False, ident=None):
    """value for a field; 20 % of the time an *equal but distinct int object* of a value already
    used for that identifier in this history (scope keys compared by identity instead of equality
    only show with values outside CPython's small-int cache), and scope-selecting values above 256
    are drawn regularly"""
    prev = USED_VALUES.setdefault(ident, [])
    if not bad and prev and rng.random() < 0.2:
        return int(str(rng.choice(prev)))
    v = _pick_value(rng, f, bad)
    if not bad and f.length is None and rng.random() < 0.12:
        v = rng.choice([257, 300, 1000, 4096 + rng.randrange(3)])
    if not bad:
        prev.append(v)
    return v


def _pick_value(rng, f, bad=False):
    if bad:
        if f.length is not None and rng.random() < 0.6:
            return (1 << f.length) + rng.randrange(3)
        return -1 - rng.randrange(3)
    if f.length is not None:
        top = (1 << f.length) - 1
        r = rng.random()
        if r < 0.2:
            return top
        return rng.randrange(min(top, 3) + 1) if r < 0.8 else rng.randrange(top + 1)
    r = rng.random()
    if r < 0.75:
        return rng.randrange(3)
    if r < 0.9:
        k = rng.randrange(1, 7)
        return rng.choice([(1 << k) - 1, 1 << k, (1 << k) + 1])
    k = rng.randrange(7, 40)
    return rng.choice([(1 << k) - 1, 1 << k])


_NGEN = [0]
ODD_TAGS = ["", "%s", "{}", "t 0"]      # legal tags (any string in a collection); never given in the string form


def new_runner(rng, L):
    """a fresh bit field for a generated history: in 30 % built another way (keyword / default length / IntEnum length /
    a subclass of BitField), in 40 % with argument kinds and calling conventions varied per call"""
    reload_rig()
    root = None
    if rng.random() < 0.3:
        root = {"sub": rng.random() < 0.6, "ctor": rng.choice(["pos", "kw", "default"])}
        if rng.random() < 0.3:
            root["lkind"] = "enum"
    return Runner(L, root, rng if rng.random() < 0.4 else None)


def gen_history(rng, size, tight):
    USED_VALUES.clear()
    L = rng.choice([1, 2, 3, 4, 5, 6, 8, 8, 10, 12, 16, 16, 24, 32, 32, 64])
    run = new_runner(rng, L)
    errors = rng.random() < 0.5          # error stream enabled for this history
    explicit = rng.random() < 0.5        # explicit positions used in this history
    n_ops = rng.randrange(6, size)
    assigned_once = False
    for step in range(n_ops):
        if run.dead:
            break
        r = rng.random()
        ni = len(run.insts)
        # prefer recent instances and the root
        inst = rng.choice([0, ni - 1, ni - 1, max(0, ni - 2), rng.randrange(ni), rng.randrange(ni)])
        if r < 0.38:
            used = [e["ident"] for e in run.dump()]
            fresh = [i for i in IDENTS if i not in used]
            if fresh and rng.random() < (0.85 if errors else 0.97):
                ident = rng.choice(fresh[:2])
            else:
                ident = rng.choice(IDENTS[:max(2, len(used))])
            length = None if rng.random() < 0.45 else rng.choice([1, 1, 2, 2, 3, 4, 5, L, max(1, L // 2)])
            if errors and rng.random() < 0.06:
                length = rng.choice([0, -1, L + 1, 70])
            start = None
            if explicit and rng.random() < 0.45:
                w = length if (length or 0) > 0 else 1
                start = rng.choice([0, max(0, L - w), rng.randrange(L), rng.randrange(L)])
                if errors and rng.random() < 0.1:
                    start = rng.choice([L, L + 1, max(0, L - w + 1)])
            tags = rng.sample(TAGS, rng.choice([0, 0, 0, 1, 1, 2]))
            if rng.random() < 0.1 and tags:
                tags = tags + [tags[0]]
            if rng.random() < 0.04:
                tags = tags + [rng.choice(ODD_TAGS)]
            run.do({"op": "add", "inst": inst, "ident": ident, "length": length, "start": start, "tags": tags})
        elif r < 0.68:
            cand = run.unvalued(inst)
            kw = []
            if cand:
                k = 1 if rng.random() < 0.7 else min(len(cand), 2)
                for ident, f in rng.sample(cand, k):
                    kw.append([ident, pick_value(rng, f, errors and rng.random() < 0.06, ident)])
            if errors and (not kw or rng.random() < 0.08):
                what = rng.random()
                if what < 0.4:
                    kw.append([rng.choice(IDENTS), rng.randrange(3)])       # maybe unknown / out of scope / duplicate
                elif what < 0.7 and run.insts[inst].field_values:
                    kw.append([rng.choice(list(run.insts[inst].field_values)), rng.randrange(3)])  # already has value
                else:
                    kw.append(["zz", 1])
            seen = set()
            kw = [p for p in kw if not (p[0] in seen or seen.add(p[0]))]
            run.do({"op": "call", "inst": inst, "kw": kw})
        elif r < 0.76:
            run.do({"op": "assign"})
            assigned_once = True
        else:
            en = [i for i, _ in run.enabled(inst)]
            fld = rng.choice(en) if en and rng.random() < 0.85 else rng.choice(IDENTS + ["zz"])
            g = rng.random()
            if g < 0.25:
                sel = rng.random()
                run.do({"op": "value", "inst": inst, "tag": rng.choice(TAGS + ["tx"] + (ODD_TAGS if rng.random() < 0.15 else [])) if sel < 0.3 else None,
                        "field": fld if 0.3 <= sel < 0.6 else None})
            elif g < 0.5:
                sel = rng.random()
                run.do({"op": "mask", "inst": inst, "tag": rng.choice(TAGS + ["tx"] + (ODD_TAGS if rng.random() < 0.15 else [])) if sel < 0.3 else None,
                        "field": fld if 0.3 <= sel < 0.6 else None})
            elif g < 0.7:
                run.do({"op": "tags", "inst": inst, "field": fld})
            elif g < 0.9:
                run.do({"op": "loc", "inst": inst, "field": fld})
            else:
                run.do({"op": "attr", "inst": inst, "field": fld})
    if run.dead:
        return seal(run)
    # tighten: restart with the smallest bit field that the hierarchy needs?  (done by the caller via `tight`)
    finish(rng, run)
    return seal(run)


def big_value(rng, k=None):
    """2^k - 1, 2^k, 2^k + 1 for k in 0..100, biased to 30..70"""
    if k is None:
        k = rng.randrange(30, 71) if rng.random() < 0.65 else rng.randrange(0, 101)
    return max(0, (1 << k) + rng.choice([-1, 0, 0, 1]))


def gen_deep_history(rng):
    """hierarchies 2-4 levels deep: a selector per level, scopes for several selector values, in every scope fields
    with every mix of {start_at given or not} x {length given or not}, explicit positions chosen next to what is
    already positioned anywhere in the tree (parents, children, grandchildren, siblings under other selector values);
    fields with a given start and automatic length then get values that make them reach one short of / exactly to /
    one past the next positioned field above them; every prefix of every selector chain is an instance that is queried
    (mask / value / tags / location, with no tag and with tags living at different depths)"""
    USED_VALUES.clear()
    L = rng.choice([12, 16, 16, 20, 24, 32])
    run = new_runner(rng, L)
    depth = rng.choice([2, 2, 3, 3, 4])
    sel_explicit = rng.random() < 0.5
    grow = []                  # (instance, identifier, start) of fields with a given start and automatic length
    prefixes = [0]

    def positioned():
        return [(e["start"], e["start"] + (e["length"] or 1)) for e in run.dump() if e["start"] is not None]

    def add_data(inst, level, k):
        mode = rng.choice(["ff", "fl", "sf", "sf", "sl", "sl"])
        ident = "d%d%s" % (level, "xyz"[k])          # sibling scopes re-use the names
        length = None if mode[1] == "f" else rng.choice([1, 2, 3, 4])
        start = None
        if mode[0] == "s":
            pos = positioned()
            w = length or 1
            cands = [0] + [e + rng.choice([0, 0, 1, 2, 3]) for _, e in pos] + [s0 - w for s0, _ in pos]
            cands = [c for c in cands if 0 <= c and c + w <= L - (depth + 1 if sel_explicit else 0)] or [0]
            start = rng.choice(cands)
        tags = ["t%d" % min(level, 2)] if rng.random() < 0.35 else []
        r = run.do({"op": "add", "inst": inst, "ident": ident, "length": length, "start": start, "tags": tags})
        if "ok" in r and mode == "sf":
            grow.append((inst, ident, start))

    frontier = [0]
    for level in range(depth + 1):
        nxt = []
        for inst in frontier:
            for k in range(rng.randrange(1, 3)):
                if not run.dead:
                    add_data(inst, level, k)
            if level < depth and not run.dead:
                sel = "s%d" % level
                r = run.do({"op": "add", "inst": inst, "ident": sel, "length": 1 if rng.random() < 0.8 else None,
                            "start": (L - 1 - level) if sel_explicit else None,
                            "tags": ["t%d" % min(level, 2)] if rng.random() < 0.15 else []})
                if "ok" in r:
                    for v in rng.sample([0, 1], rng.choice([1, 2, 2])):
                        if "ok" in run.do({"op": "call", "inst": inst, "kw": [[sel, v]]}):
                            nxt.append(len(run.insts) - 1)
            if run.dead:
                return seal(run)
        prefixes += nxt
        rng.shuffle(nxt)
        frontier = nxt[:3 if level == 0 else 2]
    if rng.random() < 0.15:
        run.do({"op": "assign"})
    # values: automatic lengths that stop short of, touch, or run into the next positioned field above
    walls = sorted(s0 for s0, _ in positioned())
    for inst, ident, start in grow:
        if run.dead:
            return seal(run)
        above = [q for q in walls if q > start]
        ln = (above[0] - start + rng.choice([-1, 0, 0, 1, 1])) if above else rng.randrange(1, 5)
        if ln >= 1:
            val = rng.choice([1 << (ln - 1), (1 << ln) - 1])
            run.do({"op": "call", "inst": inst, "kw": [[ident, val]]})
    if run.dead:
        return seal(run)
    run.do({"op": "assign"})
    # every prefix of every selector chain is queried
    rng.shuffle(prefixes)
    for i in prefixes[:8]:
        if run.dead:
            break
        en = [x for x, _ in run.enabled(i)]
        t = rng.choice(TAGS)
        run.do({"op": "mask", "inst": i, "tag": None, "field": None})
        run.do({"op": "mask", "inst": i, "tag": t, "field": None})
        run.do({"op": "value", "inst": i, "tag": rng.choice([None, t]), "field": None})
        if en:
            f = rng.choice(en)
            run.do({"op": "tags", "inst": i, "field": f})
            run.do({"op": rng.choice(["loc", "mask", "value"]), "inst": i, "tag": None, "field": f}
                   if rng.random() < 0.5 else {"op": "loc", "inst": i, "field": f})
    if not run.dead:
        finish(rng, run)
    return seal(run)


def accepted_tight_length(acc):
    """the smallest bit field in which every root-to-leaf chain of the (nested) tree fits with the accepted widths"""
    def width(e):
        return e["length"] if e["length"] is not None else max(1, e["max"]).bit_length()
    best = 0
    for e in acc:
        p = e["path"]
        best = max(best, sum(width(x) for x in acc if x["path"] == p[:len(x["path"])]))
    return best


def gen_reject_history(rng):
    """nothing positioned explicitly, nested scopes, several automatic-length fields; besides accepted calls, calls that
    are REJECTED by a LATER keyword (negative value, value too large for a fixed-length field, unavailable / unknown
    field) while EARLIER keywords carry values larger than anything accepted for automatic-length fields; the caller
    then re-runs the history on the bit field that is exactly tight for the accepted values"""
    USED_VALUES.clear()
    run = new_runner(rng, 64)
    autos, fixed = [], []
    for nm in list("abcd")[:rng.randrange(2, 5)]:
        ln = None if rng.random() < 0.7 else rng.choice([1, 2, 3])
        if "ok" in run.do({"op": "add", "inst": 0, "ident": nm, "length": ln, "start": None,
                           "tags": rng.sample(TAGS, rng.choice([0, 0, 1]))}):
            (autos if ln is None else fixed).append(nm)
    scopes = [(0, list(autos), list(fixed))]
    if rng.random() < 0.5 and (autos or fixed):
        sel = rng.choice(autos + fixed)
        for v in rng.sample([0, 1], rng.choice([1, 2])):
            if "ok" not in run.do({"op": "call", "inst": 0, "kw": [[sel, v]]}):
                continue
            i = len(run.insts) - 1
            a2, f2 = [], []
            for nm in ["x", "y"][:rng.randrange(1, 3)]:
                ln = None if rng.random() < 0.7 else rng.choice([1, 2])
                if "ok" in run.do({"op": "add", "inst": i, "ident": nm, "length": ln, "start": None, "tags": []}):
                    (a2 if ln is None else f2).append(nm)
            scopes.append((i, [n for n in autos if n != sel] + a2, [n for n in fixed if n != sel] + f2))

    def small(nm, fx):
        return rng.randrange(2 if nm in fx else 16)
    for _ in range(rng.randrange(3, 9)):
        if run.dead:
            break
        inst, au, fx = rng.choice(scopes)
        pool = au + fx
        if rng.random() < 0.45:                      # an accepted call
            kw = [[nm, small(nm, fx)] for nm in rng.sample(pool, rng.randrange(1, len(pool) + 1))] if pool else []
        else:                                        # big values first, then the keyword that gets the call rejected
            big = [[nm, rng.choice([100, 200, 255, 1 << rng.randrange(5, 20)])]
                   for nm in rng.sample(au, rng.randrange(1, len(au) + 1))] if au else []
            rest = [nm for nm in pool if nm not in [b[0] for b in big]]
            why = rng.choice(["negative", "too-large", "unknown", "unknown", "negative"])
            if why == "too-large" and [n for n in rest if n in fx]:
                bad = [rng.choice([n for n in rest if n in fx]), 8 + rng.randrange(3)]
            elif why == "negative" and rest:
                bad = [rng.choice(rest), -1 - rng.randrange(3)]
            else:
                bad = [rng.choice(["zz", "nosuch", "x", "y"]), rng.randrange(3)]
            if bad[0] in [b[0] for b in big]:
                bad = ["zz", 1]
            ok_part = [[nm, small(nm, fx)] for nm in rest if nm != bad[0] and rng.random() < 0.3]
            kw = big + ok_part + [bad]
        run.do({"op": "call", "inst": inst, "kw": kw})
    if not run.dead:
        finish(rng, run)
    return seal(run)


def order_plans(rng):
    """a small set of fields at the root (optionally one in a child scope), each one of the four combinations
    {start_at given or not} x {length given or not}; given starts sit on boundary bits (0, 1, the top, just below the
    top) or next to / one bit into a neighbour; values make automatic lengths stop short of, touch or run into the next
    explicit start above; returned with the definition orders to try (all permutations for <= 3 fields)"""
    import itertools
    L = rng.choice([8, 8, 12, 16, 32])
    n = rng.choice([2, 2, 3, 3, 4])
    specs = []
    for j in range(n):
        mode = rng.choice(["sf", "sf", "sl", "sl", "fl", "ff"])
        length = None if mode[1] == "f" else rng.choice([1, 2, 3, 4])
        w = length or 1
        start = None
        if mode[0] == "s":
            cands = [0, 0, 1, L - w, L - 1 - w, L - w]
            for (_, s0, l0, _t) in specs:
                if s0 is not None:
                    e0 = s0 + (l0 or 1)
                    cands += [e0, e0, e0 - 1, e0 + 1, s0 - w, s0 - w + 1, s0 + rng.choice([2, 3])]
            cands = [c for c in cands if 0 <= c and c + w <= L] or [0]
            start = rng.choice(cands)
        specs.append(("abcd"[j], start, length, rng.sample(TAGS, rng.choice([0, 0, 1]))))
    starts = sorted(s0 for (_, s0, _, _) in specs if s0 is not None)
    values = {}
    for (nm, s0, l0, _t) in specs:
        if l0 is not None:
            values[nm] = rng.choice([0, 1, (1 << l0) - 1])
        elif s0 is not None:
            above = [q for q in starts if q > s0]
            ln = (above[0] - s0 + rng.choice([-1, 0, 1, 1, 2])) if above and rng.random() < 0.85 else rng.choice([1, 2, 5, 8])
            ln = max(1, ln)
            values[nm] = rng.choice([1 << (ln - 1), (1 << ln) - 1]) if ln > 1 else rng.randrange(2)
        else:
            values[nm] = rng.choice([0, 1, 3, 7, 255])
    scoped = rng.random() < 0.3      # the last field lives in the scope s=1 of a floating 1-bit selector
    orders = list(itertools.permutations(range(n)))
    if len(orders) > 6:
        orders = [orders[0], orders[-1]] + rng.sample(orders[1:-1], 3)
        # positioned fields before unpositioned ones, and the other way round
        by_pos = sorted(range(n), key=lambda j: specs[j][1] is None)
        orders += [tuple(by_pos), tuple(reversed(by_pos))]
    return L, specs, values, scoped, orders


def run_order_plan(rng, L, specs, values, scoped, order, two_calls):
    run = new_runner(rng, L)
    insts = {False: 0}
    if scoped:
        run.do({"op": "add", "inst": 0, "ident": "s", "length": 1, "start": None, "tags": []})
        if "ok" in run.do({"op": "call", "inst": 0, "kw": [["s", 1]]}):
            insts[True] = len(run.insts) - 1
    added = []
    for j in order:
        nm, s0, l0, tags = specs[j]
        inner = scoped and j == len(specs) - 1 and True in insts
        if "ok" in run.do({"op": "add", "inst": insts[inner], "ident": nm, "length": l0, "start": s0, "tags": tags}):
            added.append((nm, inner))
    base = insts.get(True, 0) if scoped else 0
    kw = [[nm, values[nm]] for nm, inner in added if not inner or base != 0]
    if two_calls and len(kw) > 1:            # the values arrive in two instances
        run.do({"op": "call", "inst": base, "kw": kw[:1]})
        run.do({"op": "call", "inst": base, "kw": kw[1:]})
    elif kw:
        run.do({"op": "call", "inst": base, "kw": kw})
    if not run.dead:
        finish(rng, run)
    return seal(run)


def gen_wide_history(rng):
    """bit fields of 64-160 bits with automatically sized neighbours whose largest values are 2^k, 2^k +- 1"""
    USED_VALUES.clear()
    L = rng.choice([64, 64, 96, 128, 128, 160])
    run = new_runner(rng, L)
    names = list("abcd")[:rng.randrange(2, 5)]
    scale = {}
    selector = rng.random() < 0.5
    kx = rng.randrange(30, 71) if rng.random() < 0.6 else rng.randrange(0, 60)
    kx = min(kx, L // 3)
    budget = L - 2 - ((kx + 4) if selector else 0)
    for nm in names:
        k = rng.randrange(30, 71) if rng.random() < 0.65 else rng.randrange(0, 101)
        if k + 2 > budget and rng.random() < 0.85:
            k = max(0, min(k, budget - 2))
        budget -= min(budget, k + 2)
        scale[nm] = k
        fixed = rng.random() < 0.15
        run.do({"op": "add", "inst": 0, "ident": nm, "length": (k + 1) if fixed else None, "start": None,
                "tags": rng.sample(TAGS, rng.choice([0, 0, 1]))})
    if selector:
        run.do({"op": "add", "inst": 0, "ident": "s", "length": None if rng.random() < 0.5 else 1, "start": None,
                "tags": []})

    def val(nm):
        r = rng.random()
        if r < 0.45:
            return big_value(rng, scale[nm])
        if r < 0.6:
            return big_value(rng, rng.randrange(0, scale[nm] + 1))
        return rng.randrange(4)
    roots = []
    for _ in range(rng.randrange(2, 6)):
        kw = [[nm, val(nm)] for nm in names]
        if selector:
            kw.append(["s", rng.randrange(2)])
        rng.shuffle(kw)
        r = run.do({"op": "call", "inst": 0, "kw": kw})
        if "ok" in r:
            roots.append((len(run.insts) - 1, dict(kw)))
    if selector and roots:
        for i, kw in roots[:2]:
            if run.dead:
                break
            r = run.do({"op": "add", "inst": i, "ident": "x", "length": None, "start": None, "tags": []})
            if "ok" in r:
                run.do({"op": "call", "inst": i, "kw": [["x", big_value(rng, kx)]]})
    if run.dead:
        return seal(run)
    if rng.random() < 0.25:
        run.do({"op": "assign"})
        if not run.dead and roots and rng.random() < 0.7:
            # values after the layout: accepted iff they fit the (possibly one bit wider) implementation length
            kw = [[nm, big_value(rng, scale[nm])] for nm in names]
            if selector:
                kw.append(["s", rng.randrange(2)])
            run.do({"op": "call", "inst": 0, "kw": kw})
    if not run.dead:
        finish(rng, run)
    return seal(run)


def finish(rng, run):
    """layout, then complete some instances so that keys exist, then read everything back"""
    run.do({"op": "assign"})
    if "err" in run.results[-1]:
        return
    targets = list(range(len(run.insts)))
    rng.shuffle(targets)
    done = 0
    for i in targets[:4]:
        cur = i
        for _ in range(6):
            cand = run.unvalued(cur)
            if not cand:
                break
            kw = [[ident, pick_value(rng, f)] for ident, f in cand]
            r = run.do({"op": "call", "inst": cur, "kw": kw})
            if "err" in r:
                cur = None
                break
            cur = len(run.insts) - 1
        if cur is None or run.unvalued(cur):
            continue
        done += 1
        run.do({"op": "value", "inst": cur, "tag": None, "field": None})
        run.do({"op": "mask", "inst": cur, "tag": None, "field": None})
        t = rng.choice(TAGS)
        run.do({"op": "value", "inst": cur, "tag": t, "field": None})
        run.do({"op": "mask", "inst": cur, "tag": t, "field": None})
        en = run.enabled(cur)
        if en:
            f = rng.choice(en)[0]
            run.do({"op": "loc", "inst": cur, "field": f})
            run.do({"op": "value", "inst": cur, "tag": None, "field": f})
            run.do({"op": "mask", "inst": cur, "tag": None, "field": f})
    # a late assign_fields after new scopes may have appeared is a no-op unless fields were added
    if rng.random() < 0.3:
        run.do({"op": "assign"})


def tighten(run):
    """the same history on the smallest bit field that the final layout of `run` used (fills the top bit)"""
    top = 0
    for e in run.dump():
        if e["length"] is not None and e["start"] is not None:
            top = max(top, e["start"] + e["length"])
    return top


def replay_ops(length, ops, root=None, fresh=True):
    if fresh:
        reload_rig()
    run = Runner(length, root)
    for op in ops:
        if run.dead:
            break
        if "inst" in op and op["inst"] >= len(run.insts):
            continue            # (retargeted histories: an earlier call failed) - the op is not part of the case
        run.do(op)
    return seal(run)


def usable(run, op):
    return not run.dead and not ("inst" in op and op["inst"] >= len(run.insts))


def run_pair(case_a, case_b, first):
    """two bit fields used alternately in one process (op by op; `first` says whose op comes first): each must behave
    exactly as on its own - the model of each history knows nothing of the other"""
    reload_rig()
    ra = Runner(case_a["length"], case_a.get("root"))
    rb = Runner(case_b["length"], case_b.get("root"))
    qa, qb = list(case_a["ops"]), list(case_b["ops"])
    turn = first
    while qa or qb:
        q, r = (qa, ra) if (turn == 0 and qa) or not qb else (qb, rb)
        op = q.pop(0)
        if usable(r, op):
            r.do(op)
        turn = 1 - turn
    seal(ra)
    seal(rb)
    strip = lambda c: dict((k, v) for k, v in c.items() if k != "pair")
    ra.partner = {"with": strip(case_b), "first": first}
    rb.partner = {"with": strip(case_a), "first": 1 - first}
    return ra, rb


def twin_of(rng, case):
    """the same history with ONE aspect changed (a length, a value, a tag, the bit-field length, one op dropped)"""
    import copy
    c = copy.deepcopy(dict((k, v) for k, v in case.items() if k != "pair"))
    ops = c["ops"]
    adds = [o for o in ops if o["op"] == "add"]
    calls = [o for o in ops if o["op"] == "call" and o["kw"]]
    what = rng.choice(["L", "len", "val", "tag", "drop", "start"])
    if what == "len" and adds:
        o = rng.choice(adds)
        o["length"] = rng.choice([1, 2, 3]) if o["length"] is None else (None if rng.random() < 0.5 else o["length"] + 1)
        o.get("k", {}).pop("length", None)
    elif what == "val" and calls:
        o = rng.choice(calls)
        n = rng.randrange(len(o["kw"]))
        o["kw"][n][1] = o["kw"][n][1] + 1 if rng.random() < 0.5 else (0 if o["kw"][n][1] else 1)
        o.get("k", {}).pop("v", None)
    elif what == "tag" and adds:
        o = rng.choice(adds)
        o["tags"] = [] if o["tags"] else [rng.choice(TAGS)]
        o.get("k", {}).pop("tags", None)
    elif what == "drop" and len(ops) > 2:
        del ops[rng.randrange(len(ops))]
    elif what == "start" and adds:
        o = rng.choice(adds)
        o["start"] = None if o["start"] is not None else rng.randrange(c["length"])
        o.get("k", {}).pop("start", None)
    else:
        c["length"] = max(1, c["length"] + rng.choice([-1, 1]))
        if c.get("root", {}).get("ctor") == "default":
            c["root"]["ctor"] = "pos"
    return c, what


def scale_cases(rng, which):
    """far beyond the usual size, a handful per run: hundreds of fields / scopes / instances, deep hierarchies, long
    fields; nothing but the documented exceptions may come out"""
    def add(inst, ident, length=None, start=None, tags=()):
        return {"op": "add", "inst": inst, "ident": ident, "length": length, "start": start, "tags": list(tags)}
    A = {"op": "assign"}
    V = lambda i: {"op": "value", "inst": i, "tag": None, "field": None}
    M = lambda i, t=None: {"op": "mask", "inst": i, "tag": t, "field": None}
    if which == "flat":              # 300 neighbouring fields, some automatic, filling the bit field to its last bit
        n = 300
        ops = [add(0, "f%d" % i, rng.choice([1, 1, 2, None]), None, ["t0"] if i % 7 == 0 else []) for i in range(n)]
        ops.append({"op": "call", "inst": 0, "kw": [["f%d" % i, rng.randrange(2)] for i in range(0, n, 3)]})
        ops += [A, V(1), M(1), M(1, "t0")]
        L = sum((o["length"] or 1) for o in ops if o["op"] == "add")
        return L, ops
    if which == "fan":               # 257 sibling scopes under one 9-bit selector, each with its own fields
        ops = [add(0, "sel", 9)]
        for v in range(257):
            ops.append({"op": "call", "inst": 0, "kw": [["sel", v]]})
            ops.append(add(v + 1, "x", rng.choice([1, 2, 3, None]), None, ["t1"] if v % 5 == 0 else []))
            if v % 3 == 0:
                ops.append(add(v + 1, "y%d" % (v % 4), 2))
        ops.append(A)
        nxt = 258
        for v in (0, 128, 256):
            ops.append({"op": "call", "inst": v + 1, "kw": [["x", 1]] + ([["y%d" % (v % 4), 2]] if v % 3 == 0 else [])})
            ops += [V(nxt), M(nxt), M(nxt, "t1")]
            nxt += 1
        return 16, ops
    if which == "deep":              # a chain of 100 nested scopes (every recursive method goes 100 deep)
        d = 100
        ops = []
        for i in range(d):
            ops.append(add(i, "f%d" % i, rng.choice([1, 1, None]), None, ["t2"] if i == d - 1 else []))
            ops.append({"op": "call", "inst": i, "kw": [["f%d" % i, rng.randrange(2)]]})
        ops += [A, V(d), M(d), M(d, "t2"), {"op": "tags", "inst": d, "field": "f0"}, V(d // 2), A]
        return d + rng.choice([0, 3]), ops
    if which == "insts":             # 600 instances of one bit field, values kept and read after the layout
        ops = [add(0, "a"), add(0, "b"), add(0, "c", 3, 0)]
        for i in range(600):
            ops.append({"op": "call", "inst": 0, "kw": [["a", i], ["b", (i * 7919) % 1021], ["c", i % 8]]})
        ops.append(A)
        for i in (1, 2, 300, 599, 600):
            ops += [V(i), M(i)]
        return 32, ops
    if which == "long":              # fields of hundreds of bits in a bit field of 1100 bits
        ops = [add(0, "a", 500), add(0, "b"), add(0, "c", 64, 1000), add(0, "d"),
               {"op": "call", "inst": 0, "kw": [["a", (1 << 500) - 1], ["b", 1 << 400], ["c", (1 << 64) - 1], ["d", 0]]},
               {"op": "call", "inst": 0, "kw": [["a", 1 << 499], ["b", 5], ["c", 1 << 63], ["d", 1]]},
               A, V(1), M(1), V(2), M(2), {"op": "loc", "inst": 1, "field": "b"}]
        return 1100, ops
    raise KeyError(which)


# --------------------------------------------------------------------------
# evaluation: model correspondence + Lean oracles on the implementation's outputs
# --------------------------------------------------------------------------
def complete_instances(run):
    """[(index, fv, key, mask, locs, per-tag outputs)] for instances with every enabled field valued and a key"""
    out = []
    if run.dead:
        return out
    seen = set()
    for i, b in enumerate(run.insts):
        if run.unvalued(i):
            continue
        fvkey = json.dumps(sorted((k, _i(v)) for k, v in b.field_values.items()))
        if fvkey in seen:
            continue
        seen.add(fvkey)
        try:
            key, mask = _i(b.get_value()), _i(b.get_mask())
            locs = []
            for ident, f in run.enabled(i):
                s, l = b.get_location_and_length(ident)
                locs.append({"ident": ident, "start": _i(s), "len": _i(l), "value": _i(b.field_values[ident])})
        except ValueError:
            continue
        tagged = []
        for t in TAGS:
            try:
                tk, tm = _i(b.get_value(tag=t)), _i(b.get_mask(tag=t))
            except LookupError:
                continue
            tl = [l for l in locs if t in b.get_tags(l["ident"])]
            tagged.append((t, tk, tm, tl))
        out.append((i, [[k, _i(v)] for k, v in b.field_values.items()], key, mask, locs, tagged))
        if len(out) >= 6:
            break
    return out


def seal(run):
    """end of a history (still in its own freshly loaded module): read every key, mask and position back and keep the
    final tree and the instances' values - evaluated later against the Lean oracle, in batches"""
    from harness import common
    try:
        with cpu_limit():
            run.comp = complete_instances(run)
    except common.ImplHang as e:
        _HANGS[0] += 1
        run.comp = []
        if run.hung is None:
            run.hung = (len(run.ops), "reading keys and masks back: " + str(e))
    run.final = run.dump() if not run.dead else []
    run.fvs = []
    if not run.dead:
        seen_fv = set()
        for i, b in enumerate(run.insts):
            fvk = json.dumps(sorted((k, _i(v)) for k, v in b.field_values.items()))
            if fvk in seen_fv or len(seen_fv) >= 10:
                continue
            seen_fv.add(fvk)
            run.fvs.append((i, [[k, _i(v)] for k, v in b.field_values.items()]))
    # get_mask() needs no values: the mask of every instance - also partially specified ones - with and without tag
    run.masks = []
    if not run.dead:
        from rig import bitfield
        done = set()
        for i, b in enumerate(run.insts):
            fv = [[k, _i(v)] for k, v in b.field_values.items()]
            fvk = json.dumps(sorted(fv))
            if fvk in done or len(done) >= 12:
                continue
            done.add(fvk)
            for t in [None] + TAGS:
                try:
                    with cpu_limit():
                        m = _i(b.get_mask(tag=t))
                except (ValueError, LookupError):
                    continue
                except common.ImplHang as e:
                    _HANGS[0] += 1
                    if run.hung is None:
                        run.hung = (len(run.ops), "reading masks back: " + str(e))
                    break
                run.masks.append((i, fv, t, m))
    run.kept_changed = [sorted(snap) for got, snap in run.kept if got != snap]
    return run


def eval_runs(ctx, runs):
    reqs, idx = [], []

    def ask(what, run_i, info, **req):
        req["suite"] = "c08"
        reqs.append(req)
        idx.append((what, run_i, info))

    for ri, run in enumerate(runs):
        ask("history", ri, None, op="history", length=run.length, ops=run.ops)
        last = None
        for oi, (op, r) in enumerate(zip(run.ops, run.results)):
            st = r.get("state")
            if getattr(run, "sparse", False) and op["op"] != "assign" and oi % 40 and oi != len(run.ops) - 1:
                continue            # scale cases: the invariant on every 40th tree and around assign_fields
            if st is not None and st != last:
                ask("invariant", ri, (oi, op["op"], "ok" in r), op="invariant", length=run.length, entries=st)
                last = st
        for oi, pre in run.pre_assign:
            post = run.results[oi].get("state") if oi < len(run.results) else None
            if post is not None and any(e["start"] is not None for e in pre):
                ask("starts", ri, (oi, "ok" in run.results[oi]), op="starts_kept", pre=pre, post=post)
        for oi, pre in run.pre_assign:
            # completeness is judged on what the ACCEPTED values require (a rejected call gave the field nothing)
            acc = run.pre_accepted.get(oi, pre)
            if acc != pre:
                ctx.tag("max_value-differs-from-accepted-values")
            if (len(pre) <= 11 and all(e["start"] is None for e in pre)
                    and all(e["length"] is not None or max(e["max"], a["max"]) < SPARE_FROM for e, a in zip(pre, acc))):
                ask("floating", ri, oi, op="floating_fits", length=run.length, entries=acc)
        if not hasattr(run, "comp"):
            seal(run)
        comp, final = run.comp, run.final
        for (i, fv, key, mask, locs, tagged) in comp:
            ask("key", ri, (i, None), op="key_oracle", entries=final, fv=fv, key=key, mask=mask, tag=None, locs=locs)
            for (t, tk, tm, tl) in tagged:
                ask("key", ri, (i, t), op="key_oracle", entries=final, fv=fv, key=tk, mask=tm, tag=t, locs=tl)
        for a in range(len(comp)):
            for b in range(a + 1, len(comp)):
                if dict(map(tuple, comp[a][1])) != dict(map(tuple, comp[b][1])):
                    ask("orth", ri, (comp[a][0], comp[b][0]), op="orthogonal", key=comp[a][2], mask=comp[a][3],
                        key2=comp[b][2], mask2=comp[b][3])
        run.n_complete = len(comp)
        # the instance invariant (values_fit, inst_ok) on every instance the history created, complete or not
        for i, fv in run.fvs:
            ask("inst", ri, i, op="instance", entries=final, fv=fv)
        for (i, fv, t, m) in run.masks:
            ask("pmask", ri, (i, t, len(fv)), op="key_oracle", entries=final, fv=fv, key=0, mask=m, tag=t, locs=[])

    replies = ctx.lean(reqs)
    for (tag, ri, info), rep in zip(idx, replies):
        run = runs[ri]
        case = run.case()
        if isinstance(rep, dict) and "proto_error" in rep:
            ctx.mismatch("c08.protocol", "driver: %r" % (rep,), case)
            continue
        if tag == "history":
            for oi, (op, ri_, mo) in enumerate(zip(run.ops, run.results, rep)):
                if ri_ != mo:
                    d = "op %d %r: impl=%s model=%s" % (oi, op, json.dumps(ri_)[:600], json.dumps(mo)[:600])
                    ctx.mismatch("c08.history." + op["op"], d, case)
                    break
            if len(rep) != len(run.results):
                ctx.mismatch("c08.history.len", "reply count differs", case)
            ctx.traces += 1
        elif tag == "invariant":
            oi, kind, ok = info
            where = "after op %d (%s)" % (oi, kind)
            if not rep["disjoint"]:
                ctx.violation("overlap", "two fields that can be present together overlap %s" % where, case)
            if not rep["in_range"]:
                ctx.violation("out-of-range", "a field lies outside the bit field / is empty %s" % where, case)
            if not rep["wide"]:
                ctx.violation("too-narrow", "a field is narrower than a value given to it %s" % where, case)
            if not rep["tag_closed"]:
                ctx.violation("tag-not-closed", "a tagged field's required parent lacks the tag %s" % where, case)
            if kind == "assign" and ok and not rep["all_fixed"]:
                ctx.violation("not-all-assigned", "assign_fields returned but a field has no position/length", case)
            if not rep["unique"]:
                ctx.tag("scope-uniqueness-broken")
                ctx.mismatch("c08.unique", "identifier not unique among co-presentable fields %s" % where, case)
        elif tag == "floating":
            oi = info
            ok = "ok" in run.results[oi]
            ctx.tag("floating_%s_%s" % ("fits" if rep["fits"] else "nofit", "ok" if ok else "raise"))
            if rep["fits"] and not ok:
                key = "complete-floating" if rep["nested"] else "complete-floating-cross-scope"
                ctx.violation(key, "nothing is explicitly positioned and every set of co-present fields fits in %d bits, "
                              "but assign_fields (op %d) raised %s" % (run.length, oi, run.results[oi].get("err")), case)
        elif tag == "key":
            i, t = info
            if not rep["readback"]:
                ctx.violation("readback", "a field's value cannot be read back from the key at its reported position "
                              "(instance %d, tag %r)" % (i, t), case)
            if not rep["mask_exact"] or not rep["mask_is_locs"]:
                ctx.violation("mask", "mask is not the union of the present fields' bits (instance %d, tag %r)" % (i, t), case)
        elif tag == "starts":
            oi, ok = info
            if rep is not True:
                if ok:
                    ctx.violation("explicit-start-moved", "assign_fields (op %d) returned, but a field defined with an explicit "
                                  "start_at is no longer at that position: overlapping explicit definitions must be rejected, "
                                  "not relocated" % oi, case)
                else:
                    ctx.tag("explicit-start-moved-by-raising-assign")
                    ctx.mismatch("c08.starts", "assign_fields (op %d) raised and left an explicitly positioned field at "
                                 "another position" % oi, case)
        elif tag == "pmask":
            i, t, nv = info
            ctx.tag("mask_of_instance_with_%s_values" % (nv if nv < 4 else "4+"))
            if not rep["mask_exact"]:
                ctx.violation("mask", "get_mask(tag=%r) of instance %d (%d values given) is not the union of the bits of the "
                              "fields present in it" % (t, i, nv), case)
        elif tag == "inst":
            if not rep["values_fit"]:
                ctx.violation("value-too-wide", "instance %d holds a value that does not fit the length of its field" % info,
                              case)
            if not rep["inst_ok"]:
                ctx.tag("instance-invariant-broken")
                ctx.mismatch("c08.inst_ok", "instance %d holds a value above max_value / for a field not present in it"
                             % info, case)
        elif tag == "orth":
            if rep is not True:
                ctx.violation("not-orthogonal", "two different complete assignments (instances %d, %d) produce key/mask "
                              "pairs that match each other" % info, case)

    for run in runs:
        if run.hung is not None:
            ctx.violation("did-not-return", "op %d of the history: the implementation was %s (the model terminates on "
                          "every input)" % run.hung, run.case())
        changed = run.kept_changed
        if changed:
            ctx.tag("kept-tag-set-changed")
            ctx.mismatch("c08.kept", "a tag set handed back by get_tags changed after later calls (it held %r)"
                         % (changed[0],), run.case())
        kinds = [o.get("k") or {} for o in run.ops]
        for o, k in zip(run.ops, kinds):
            if o["op"] == "add" and k:
                ctx.tag("tags_as_%s" % k.get("tags"), "add_%s" % k.get("conv"))
                if k.get("edit"):
                    ctx.tag("caller-edits-passed-tags")
                for a in ("length", "start"):
                    if a in k:
                        ctx.tag("%s_as_%s" % (a, k[a]))
            elif o["op"] == "call" and k:
                for vk in k.get("v", []):
                    if vk != "int":
                        ctx.tag("value_as_%s" % vk)
            elif o["op"] in ("value", "mask", "loc") and k:
                ctx.tag("getter_%s" % k.get("conv"))
            elif o["op"] == "tags" and k.get("edit"):
                ctx.tag("caller-edits-returned-tags")
        if run.rootopts:
            ctx.tag("root_%s%s" % (run.rootopts.get("ctor", "pos"), "_subclass" if run.rootopts.get("sub") else ""))
            if run.rootopts.get("lkind"):
                ctx.tag("bitfield_length_as_%s" % run.rootopts["lkind"])
        if run.partner is not None:
            ctx.tag("pair_%s" % run.partner.get("kind", "other"))
        for o, r in zip(run.ops, run.results):
            if o["op"] == "call" and "err" in r and len(o["kw"]) > 1 and any(
                    isinstance(v, int) and v >= 100 for _, v in o["kw"][:-1]):
                ctx.tag("rejected_call_with_large_earlier_value_%s" % r["err"])
        if getattr(run, "scale", None):
            ctx.tag("scale_%s" % run.scale)
        if any("" in e["tags"] for e in run.final):
            ctx.tag("empty-string-tag")
        st = run.final
        scopes = len({json.dumps(e["path"]) for e in st})
        assigned_ok = any(o["op"] == "assign" and "ok" in r for o, r in zip(run.ops, run.results))
        if getattr(run, "tight_for_accepted", None) is not None:
            ctx.tag("tight_for_accepted_%+d_assign_%s" % (run.tight_for_accepted, "ok" if assigned_ok else "raises"))
        if getattr(run, "deep", False):
            ctx.tag("deep_assign_%s" % ("ok" if assigned_ok else "raises"))
        if getattr(run, "order_stream", False):
            ctx.tag("order_assign_%s" % ("ok" if assigned_ok else "raises"))
            if any(e["start"] == 0 and e["length"] is None for oi, pre in run.pre_assign[:1] for e in pre):
                ctx.tag("order_auto_length_at_bit_0")
        for o, r in zip(run.ops, run.results):
            ctx.tag("%s_%s" % (o["op"], "ok" if "ok" in r else r["err"]))
        if any(o.get("spare") for o in run.ops):
            ctx.tag("assign_with_spare_bit")
        if run.length > 64:
            ctx.tag("length_over_64")
        if any(e["max"] >= SPARE_FROM for e in st):
            ctx.tag("max_value_over_2^44")
        depth = max([len(e["path"]) for e in st] + [0])
        ctx.tag("depth_%d" % min(depth, 4), "scopes_%s" % (scopes if scopes < 4 else "4+"))
        if any(e["length"] is not None and e["start"] is not None and e["start"] + e["length"] == run.length for e in st):
            ctx.tag("top-bit-used")
        if any(len(k) > 1 for e in st for k in e["path"]):
            ctx.tag("multi-ident-child-key")
        ctx.case(run.case(),
                 scopes >= 2 and assigned_ok and getattr(run, "n_complete", 0) >= 1)


def fixed_cases():
    """hand-written histories: the known corner cases"""
    def add(inst, ident, length=None, start=None, tags=()):
        return {"op": "add", "inst": inst, "ident": ident, "length": length, "start": start, "tags": list(tags)}

    def call(inst, **kw):
        return {"op": "call", "inst": inst, "kw": [[k, v] for k, v in kw.items()]}
    A = {"op": "assign"}
    out = [
        (8, [add(0, "a", 8), A]),                                            # F5: a field filling the bit field
        (8, [add(0, "a", 4), add(0, "b", 4), A]),                            # F5: two halves
        (1, [add(0, "a"), A, call(0, a=1), {"op": "value", "inst": 1, "tag": None, "field": None}]),
        (6, [add(0, "a"), add(0, "c"), call(0, a=0), add(1, "b"), call(0, c=0), add(2, "d"),
             call(0, a=1), add(3, "e", 3), A]),                              # cross-scope fragmentation
        (5, [add(0, "a"), add(0, "b"), add(0, "c"), call(0, a=0, b=0), add(1, "v"), call(0, b=0, c=0), add(2, "w"),
             call(0, c=0, a=1), add(3, "x"), call(0, a=1, b=1), add(4, "y"), call(0, c=1), add(5, "z"), A]),  # 5-cycle
        (32, [add(0, "a"), add(0, "c"), call(0, a=0), add(1, "b"), call(0, a=0, c=0, b=1), add(2, "d")]),   # recursion
        (8, [add(0, "a", 2, 0), add(0, "b", None, 1), add(0, "c", None, 2), call(0, c=7), A]),
        (8, [add(0, "a", None, 0, ["t0"]), call(0, a=0), add(1, "b", 2, 6, ["t1"]), call(0, a=1), add(2, "b", 3, 5), A,
             call(1, b=3), {"op": "value", "inst": 3, "tag": None, "field": None},
             {"op": "mask", "inst": 3, "tag": "t1", "field": None}]),
    ]
    for k in (44, 47, 48, 49, 50, 52, 53, 63, 64, 65, 80, 100):
        for d in (-1, 0, 1):
            v = (1 << k) + d
            out.append((k + 12, [add(0, "t"), add(0, "u"), call(0, t=v, u=3), call(0, t=0, u=2), call(0, t=v, u=2), A,
                                 {"op": "value", "inst": 1, "tag": None, "field": None},
                                 {"op": "loc", "inst": 1, "field": "t"}]))
    return out


def run(ctx):
    ctx.extra["rule"] = RULE
    ctx.assumptions += [
        "explicit start positions are non-negative integers (documented 0-based index)",
        "automatic lengths: exact bit length of max_value required below 2^44; from 2^44 on the exact bit length or one bit "
        "more is accepted (double-precision log2 of the implementation; never fewer)",
        "field identifiers are distinct from BitField attribute names; tag and field are not both given to a getter",
        "the history ends at a RecursionError of _Tree.add_field (the tree is left half-built by the code)",
        "integers are given as int, bool or IntEnum members (no numpy integers); identifiers are str; tags are strings",
    ]
    # hypothesis of the completeness theorems: the repaired scan bound (constant regenerated from the source)
    consts = ctx.lean([{"suite": "c08", "op": "consts"}])[0]
    ctx.tag("scan_slack_%s" % consts.get("scan_slack"))
    if consts.get("scan_slack") != 1:
        ctx.tag("complete_floating-hypothesis-unmet")
    n = ctx.scale(1500, 40000)
    if ctx.extended:
        n *= 4
    rng = ctx.rng
    runs = [replay_ops(L, ops) for L, ops in fixed_cases()]
    # scale: a handful of cases far beyond the usual size
    for which in (["flat", "fan", "deep", "insts", "long"] if not ctx.quick or ctx.extended
                  else rng.sample(["flat", "fan", "deep", "insts", "long"], 3)):
        L, ops = scale_cases(rng, which)
        big = replay_ops(L, ops)
        big.scale, big.sparse = which, True
        runs.append(big)
    prev_case = [None]

    def pairs_for(run_):
        """one history in ten is also run interleaved, op by op, with a twin (one aspect changed) or with the previous
        history, on two bit fields alive at the same time; both orders occur"""
        if run_.dead or rng.random() >= 0.1:
            prev_case[0] = run_.case()
            return []
        mine = dict((k, v) for k, v in run_.case().items() if k != "pair")
        if prev_case[0] is None or rng.random() < 0.6:
            other, what = twin_of(rng, mine)
            kind = "twin_" + what
        else:
            other, kind = dict((k, v) for k, v in prev_case[0].items() if k != "pair"), "other"
        ra, rb = run_pair(mine, other, rng.randrange(2))
        ra.partner["kind"] = rb.partner["kind"] = kind
        return [ra, rb]
    # wide bit fields with automatically sized fields around powers of two (float log2 of the implementation)
    n_wide = ctx.scale(400, 8000) * (4 if ctx.extended else 1)
    made_w = 0
    while made_w < n_wide and _HANGS[0] < 60:
        run_ = gen_wide_history(rng)
        runs.append(run_)
        made_w += 1
        extra = pairs_for(run_)
        runs += extra
        made_w += len(extra)
        if not run_.dead and rng.random() < 0.5:
            top = tighten(run_)
            L2 = top if rng.random() < 0.7 else top - 1
            if 1 <= L2 != run_.length:
                runs.append(replay_ops(L2, retarget(run_.ops, run_.length, L2), run_.rootopts))
                made_w += 1
        if len(runs) >= 1500:
            eval_runs(ctx, runs)
            runs = []
    ctx.tag("wide_histories_%d" % made_w)
    # hierarchies 2-4 levels deep, explicit / automatic positions and lengths side by side, every selector prefix queried
    n_deep = ctx.scale(500, 10000) * (4 if ctx.extended else 1)
    made_d = 0
    while made_d < n_deep and _HANGS[0] < 60:
        run_ = gen_deep_history(rng)
        run_.deep = True
        runs.append(run_)
        made_d += 1
        extra = pairs_for(run_)
        runs += extra
        made_d += len(extra)
        if not run_.dead and rng.random() < 0.3:
            top = tighten(run_)
            if 1 <= top != run_.length:
                runs.append(replay_ops(top, retarget(run_.ops, run_.length, top), run_.rootopts))
                made_d += 1
        if len(runs) >= 1500:
            eval_runs(ctx, runs)
            runs = []
    ctx.tag("deep_histories_%d" % made_d)
    # rejected calls that carry large values before the offending keyword, on bit fields exactly tight for what was accepted
    n_rej = ctx.scale(300, 6000) * (4 if ctx.extended else 1)
    made_r = 0
    while made_r < n_rej and _HANGS[0] < 60:
        run_ = gen_reject_history(rng)
        runs.append(run_)
        made_r += 1
        if not run_.dead and run_.pre_assign:
            # tight for what had been accepted when assign_fields was first called
            tight = accepted_tight_length(run_.pre_accepted[run_.pre_assign[0][0]])
            for L2 in ([tight] if rng.random() < 0.8 else [tight + 1, max(1, tight - 1)]):
                if L2 >= 1:
                    again = replay_ops(L2, run_.ops, run_.rootopts)
                    again.tight_for_accepted = L2 - tight
                    runs.append(again)
                    made_r += 1
        if len(runs) >= 1500:
            eval_runs(ctx, runs)
            runs = []
    ctx.tag("reject_histories_%d" % made_r)
    # the four start/length combinations on boundary bits, in every definition order
    n_plans = ctx.scale(160, 2500) * (4 if ctx.extended else 1)
    made_o = 0
    for _ in range(n_plans):
        if _HANGS[0] >= 60:
            break
        L, specs, values, scoped, orders = order_plans(rng)
        two = rng.random() < 0.3
        for order in orders:
            run_ = run_order_plan(rng, L, specs, values, scoped, order, two)
            run_.order_stream = True
            runs.append(run_)
            made_o += 1
        if len(runs) >= 1500:
            eval_runs(ctx, runs)
            runs = []
    ctx.tag("order_histories_%d" % made_o)
    batch = 2500
    made = 0
    while made < n and _HANGS[0] < 60:
        while len(runs) < batch and made < n and _HANGS[0] < 60:
            size = rng.choice([10, 16, 24, 40])
            run_ = gen_history(rng, size, False)
            runs.append(run_)
            made += 1
            extra = pairs_for(run_)
            runs += extra
            made += len(extra)
            # the same history on the smallest bit field its layout needs, and one bit less
            if not run_.dead and rng.random() < 0.5:
                top = tighten(run_)
                if 0 < top <= 64 and made < n:
                    for L2 in ([top] if rng.random() < 0.6 else [top - 1]):
                        if L2 >= 1 and L2 != run_.length:
                            core = [o for o in run_.ops]
                            runs.append(replay_ops(L2, retarget(core, run_.length, L2), run_.rootopts))
                            made += 1
        eval_runs(ctx, runs)
        runs = []
    if runs:
        eval_runs(ctx, runs)
    if _HANGS[0] >= 60:
        ctx.tag("stopped-generating-after-60-calls-that-did-not-return")
    elif not ctx.quick:
        exhaustive_small(ctx)


def retarget(ops, L, L2):
    """same history for a bit field of another length: explicit positions at the top follow the top"""
    out = []
    for o in ops:
        o = dict(o)
        if o["op"] == "add" and o["start"] is not None and o["start"] >= L2:
            o["start"] = max(0, o["start"] - (L - L2)) if L > L2 else o["start"]
        out.append(o)
    return out


def exhaustive_small(ctx):
    """every hierarchy of <= 3 floating fields below one 1-bit selector (two scopes) with widths 1-3, in every bit field
    length 1-7: the layout either fits by the Lean predicate and succeeds, or does not fit"""
    import itertools
    runs = []
    for widths0 in itertools.product([0, 1, 2, 3], repeat=2):
        for widths1 in itertools.product([0, 1, 2], repeat=2):
            for rootw in (1, 2):
                for L in range(1, 8):
                    ops = [{"op": "add", "inst": 0, "ident": "a", "length": rootw, "start": None, "tags": []},
                           {"op": "call", "inst": 0, "kw": [["a", 0]]}, {"op": "call", "inst": 0, "kw": [["a", 1]]}]
                    for k, w in enumerate(widths0):
                        if w:
                            ops.append({"op": "add", "inst": 1, "ident": "bc"[k], "length": w, "start": None, "tags": []})
                    for k, w in enumerate(widths1):
                        if w:
                            ops.append({"op": "add", "inst": 2, "ident": "bd"[k], "length": w, "start": None, "tags": []})
                    ops.append({"op": "assign"})
                    runs.append(replay_ops(L, ops))
    ctx.tag("exhaustive_small_%d" % len(runs))
    eval_runs(ctx, runs)


def replay(ctx, payload):
    ctx.extra["rule"] = RULE
    c = payload["case"]
    if "pair" in c:
        mine = dict((k, v) for k, v in c.items() if k != "pair")
        eval_runs(ctx, list(run_pair(mine, c["pair"]["with"], c["pair"]["first"])))
    else:
        run_ = replay_ops(c["length"], c["ops"], c.get("root"))
        run_.sparse = len(c["ops"]) > 150
        eval_runs(ctx, [run_])
THEOREMS += ['assignField_core', 'gen_assign_field', 'scan_find', 'firstFit_eq']   # translator tie: generated function bodies = model (Props/C08Gen.lean)
