"""C08 - bit-field keys are collision-free.

Correspondence of rig/bitfield.py with the Lean model RigModel/Model/C08.lean on
operation histories (add_field / __call__ / assign_fields / getters, errors as an
enum, the *whole field tree* compared after every mutating call), and the Lean
specification predicates (the ones the theorems are about) evaluated on the
implementation's own trees, keys, masks and reported positions."""
import json

CLAIM = dict(
    text=("Machine-checked proof (Lean 4) over ALL operation histories of a BitField (any hierarchy depth, sibling scopes "
          "re-using names, fixed/automatic positions and lengths, tags, any interleaving of add_field / __call__ / "
          "assign_fields with arbitrary instance values, any bit-field length).  Three invariants are established by the "
          "empty bit field and preserved by every operation, including an assign_fields that raises half-way: (1) of the "
          "field tree: co-presentable fields have distinct names and, once positioned, disjoint non-empty ranges inside the "
          "bit field; every length covers the largest value given; (2) of its structure: every child key is a non-empty "
          "tuple naming fields of the parent node, and every field required by a tagged field (and present with it) carries "
          "the tag (tag_closed); (3) of the instances the code creates: every value names a field present in the instance "
          "and is <= that field's max_value, hence fits the field's length once known (values_fit).  From them: any two "
          "fields present in one instance are disjoint and in range; __call__ rejects values wider than a known length; "
          "explicit definitions that overflow or overlap a co-presentable positioned field are rejected; after a successful "
          "assign_fields every field has a position and a length (all_fixed_after_assign); for every instance every present "
          "field's value is read back from get_value() at the position get_location_and_length reports "
          "(readback_instance, no side condition); get_mask() / get_mask(tag) have exactly the bits of the present "
          "(tagged) fields, and a tagged field's required fields are found by get_field with the tag; two instances "
          "whose value dicts differ at all differ on a field present in both, and if both have keys their key/mask pairs "
          "never match each other (orthogonal_instances, no side condition); completeness: with the repaired scan "
          "bound (SCAN_SLACK = 1), nothing positioned explicitly, nested scopes and every co-present set of widths within "
          "the length, assign_fields succeeds (complete_floating; also for the weaker per-chain condition).  Tied to "
          "rig/bitfield.py by exact correspondence of histories with full tree dumps after every mutating call, the scan "
          "bound and max_value default regenerated from the source on every run, and the Lean specification predicates "
          "(proved equivalent to / used as hypotheses of the theorems) evaluated on the implementation's own trees, "
          "instances, keys, masks and positions.  Automatic lengths: the model chooses the exact bit length of "
          "max_value, or - only for max_value >= 2^44 and only where the implementation itself shows it - one bit more "
          "(CPython's int(log(v, 2)) + 1 rounds up for e.g. 2^k - 1, k >= 48); auto_length_covers proves that either choice "
          "covers max_value, so every theorem holds for both, and a NARROWER implementation length is a correspondence "
          "mismatch and a too-narrow / value-too-wide / readback / not-orthogonal violation.  Only validated, not proved: that the hand-written model equals the "
          "code (differential correspondence), and completeness for non-nested scopes (false: known finding)."),
    design="3/C08",
    note=("Completeness: the theorem has the hypothesis SCAN_SLACK = 1 (the constant the translator reads from "
          "_assign_field's range(0, length - width + 1); 0 on an unrepaired tree, where the clause is false: "
          "fixes/c08-assign-scan-bound.diff) and nestedB (two fields can be present together only if one's node is an "
          "ancestor of the other's).  First-fit placement is NOT complete when fields of different branches can be "
          "present together (children keyed on different parent fields): fragmentation, and for some hierarchies "
          "(5-cycle of scopes) no layout exists at all although every co-present set fits - finding "
          "complete-floating-cross-scope.  'Two different complete assignments' means two instances whose dicts differ "
          "as mappings; for arbitrary dicts (not instances) the exact extra condition is that every key names a field "
          "present under that dict ({zz: 1} vs {} differ on no field) - it is part of the proved instance invariant.  "
          "add_field is proved for arbitrary instance values (more general than the code).  Auto length: exact bit length "
          "demanded of the implementation below 2^44 (probed: the float formula is exact there; first deviation at "
          "2^48 - 1); from 2^44 on the implementation's length must be the exact bit length or one more (the harness "
          "observes the implementation's own length for that max_value on a scratch bit field and passes 'spare' marks to "
          "the model's assign op; Reachable has a constructor for this model-only marking); the completeness oracle is "
          "not applied when an automatically sized field has max_value >= 2^44 (its width is then the implementation's "
          "choice).  Explicit start positions "
          "are non-negative (documented 0-based index).  A RecursionError of _Tree.add_field (instance values selecting "
          "fields of two children of one node) is modelled as an error and ends the history."),
    technique="Lean 4 theorems over a hand-written model + differential correspondence on histories + Lean spec predicates as oracle")

THEOREMS = ["max_value_default", "inv_init", "inv_addField", "inv_call", "inv_assignFields", "reachable_inv",
            "assign_disjoint", "enabled_disjoint", "scope_unique", "wide_enough", "auto_length_covers", "call_rejects_wide",
            "reject_explicit_overflow", "reject_explicit", "valuesFit_of_le_max", "readback", "mask_exact",
            "mask_exact_tag", "orthogonal",
            # deepening round
            "inv2_init", "reachable_inv2", "tree_structure", "tag_closed", "tag_closed_getField",
            "all_fixed_after_assign", "getMask_ok_after_assign", "reachableI_reachable", "reachableI_instOK",
            "values_fit", "instOKB_iff", "valuesFitB_iff", "readback_instance", "instances_differ_on_common",
            "orthogonal_instances", "complete_floating_chains", "compatibleB_iff", "pairwiseB_iff",
            "nested_of_nestedB", "complete_floating"]

RULE = ("histories of 6-40 operations generated against the running implementation (mostly valid: names a-h, values 0-3 "
        "that open sibling scopes, lengths None/1-5, explicit positions incl. the top bit, tags, assign_fields in the middle "
        "and at the end, then completion of instances so that keys exist) plus an error stream (duplicate names, overlaps, "
        "overflow, zero/negative lengths, negative/too large values, unknown fields/tags); bit-field lengths 1-64 chosen "
        "tight for the hierarchy in half of the cases; plus a wide stream: bit fields of 64-160 bits (and the exact-fit / "
        "one-bit-short re-runs) with 2-5 automatically sized neighbouring fields (and one in a child scope) whose largest "
        "values are 2^k - 1, 2^k, 2^k + 1 for k in 0..100 biased to 30..70, several complete instances, and fixed "
        "boundary cases k in {44,47,48,49,50,52,53,63,64,65,80,100}; a case is non-trivial when it has >= 2 scopes, a successful "
        "assign_fields and >= 1 complete key checked by the oracle; distinct = distinct canonical JSON of the history")

IDENTS = list("abcdefgh")
TAGS = ["t0", "t1", "t2"]
MAXV = 2 ** 40


# --------------------------------------------------------------------------
# implementation side
# --------------------------------------------------------------------------
def dump_tree(tree, path=()):
    out = []
    for ident, f in tree.fields.items():
        out.append({"path": [list(map(list, k)) for k in path], "ident": ident,
                    "length": f.length, "start": f.start_at,
                    "tags": sorted(f.tags), "max": f.max_value})
    for key, child in tree.children.items():
        out.extend(dump_tree(child, path + (tuple(key),)))
    return out


def err_name(e):
    from rig import bitfield
    if isinstance(e, bitfield.UnavailableFieldError):
        return "UnavailableFieldError"
    if isinstance(e, bitfield.UnknownTagError):
        return "UnknownTagError"
    if isinstance(e, ValueError):
        return "ValueError"
    if isinstance(e, RecursionError):
        return "RecursionError"
    return "Other:" + type(e).__name__


SPARE_FROM = 2 ** 44      # = Rig.C08.SPARE_FROM of the model
_PROBE = {}


def probe_len(max_value):
    """the automatic length the *implementation* gives a field whose largest value is max_value (observed on a scratch
    bit field; a deterministic function of max_value); None if it cannot be observed"""
    if max_value not in _PROBE:
        from rig.bitfield import BitField
        try:
            b = BitField(max(1, max_value).bit_length() + 8)
            b.add_field("p")
            b(p=max_value)
            b.assign_fields()
            _PROBE[max_value] = b.get_location_and_length("p")[1]
        except (ValueError, LookupError, ArithmeticError, OverflowError, TypeError):
            _PROBE[max_value] = None
    return _PROBE[max_value]


def spare_hints(dump):
    """max_values >= SPARE_FROM of automatically sized fields for which the implementation's floating-point length is
    one bit above the exact bit length (allowed: wider is fine); anything else is left to the exact rule of the model"""
    out = set()
    for e in dump:
        m = e["max"]
        if e["length"] is None and m >= SPARE_FROM and probe_len(m) == m.bit_length() + 1:
            out.add(m)
    return sorted(out)


class Runner(object):
    """Runs a history on the real BitField; instance i = i-th successfully created instance."""

    def __init__(self, length):
        from rig.bitfield import BitField
        self.length = length
        self.root = BitField(length)
        self.insts = [self.root]
        self.results = []
        self.ops = []
        self.dead = False         # after a RecursionError the tree is garbage
        self.pre_assign = []      # (op index, dump before assign_fields)

    def dump(self):
        return dump_tree(self.root.fields)

    def do(self, op):
        assert not self.dead
        op = dict(op)
        self.ops.append(op)
        kind = op["op"]
        inst = self.insts[op["inst"]] if "inst" in op else None
        mutating = kind in ("add", "call", "assign")
        if kind == "assign":
            pre = self.dump()
            self.pre_assign.append((len(self.ops) - 1, pre))
            hints = spare_hints(pre)
            op.pop("spare", None)
            if hints:
                op["spare"] = hints          # model-only: where the float length has a spare bit (see RULE)
        try:
            if kind == "add":
                inst.add_field(op["ident"], length=op["length"], start_at=op["start"],
                               tags=list(op["tags"]))
                r = {"ok": None}
            elif kind == "call":
                new = inst(**dict((k, v) for k, v in op["kw"]))
                self.insts.append(new)
                r = {"ok": [[k, v] for k, v in new.field_values.items()]}
            elif kind == "assign":
                self.root.assign_fields()
                r = {"ok": None}
            elif kind == "value":
                r = {"ok": inst.get_value(tag=op["tag"], field=op["field"])}
            elif kind == "mask":
                r = {"ok": inst.get_mask(tag=op["tag"], field=op["field"])}
            elif kind == "tags":
                r = {"ok": sorted(inst.get_tags(op["field"]))}
            elif kind == "loc":
                r = {"ok": list(inst.get_location_and_length(op["field"]))}
            elif kind == "attr":
                r = {"ok": getattr(inst, op["field"])}
            else:
                raise KeyError(kind)
        except (ValueError, LookupError, RecursionError) as e:
            r = {"err": err_name(e)}
            if r["err"] == "RecursionError":
                self.dead = True
        except (TypeError, AssertionError, ArithmeticError, OverflowError) as e:
            r = {"err": err_name(e)}
        if mutating and not self.dead:
            r["state"] = self.dump()
        self.results.append(r)
        return r

    # helpers for the generator
    def enabled(self, i):
        b = self.insts[i]
        return [(ident, f) for ident, f in b.fields.enabled_fields(b.field_values)]

    def unvalued(self, i):
        b = self.insts[i]
        return [(ident, f) for ident, f in self.enabled(i) if ident not in b.field_values]


# --------------------------------------------------------------------------
# generator (drives the running implementation; the recorded ops are the case)
# --------------------------------------------------------------------------
USED_VALUES = {}      # ident -> values used so far in the current history


def pick_value(rng, f, bad=False, ident=None):
    """value for a field; 20 % of the time an *equal but distinct int object* of a value already
    used for that identifier in this history (scope keys compared by identity instead of equality
    only show with values outside CPython's small-int cache), and scope-selecting values above 256
    are drawn regularly"""
    prev = USED_VALUES.setdefault(ident, [])
    if not bad and prev and rng.random() < 0.2:
        return int(str(rng.choice(prev)))
    v = _pick_value(rng, f, bad)
    if not bad and f.length is None and rng.random() < 0.12:
        v = rng.choice([257, 300, 1000, 4096 + rng.randrange(3)])
    if not bad:
        prev.append(v)
    return v


def _pick_value(rng, f, bad=False):
    if bad:
        if f.length is not None and rng.random() < 0.6:
            return (1 << f.length) + rng.randrange(3)
        return -1 - rng.randrange(3)
    if f.length is not None:
        top = (1 << f.length) - 1
        r = rng.random()
        if r < 0.2:
            return top
        return rng.randrange(min(top, 3) + 1) if r < 0.8 else rng.randrange(top + 1)
    r = rng.random()
    if r < 0.75:
        return rng.randrange(3)
    if r < 0.9:
        k = rng.randrange(1, 7)
        return rng.choice([(1 << k) - 1, 1 << k, (1 << k) + 1])
    k = rng.randrange(7, 40)
    return rng.choice([(1 << k) - 1, 1 << k])


def gen_history(rng, size, tight):
    USED_VALUES.clear()
    L = rng.choice([1, 2, 3, 4, 5, 6, 8, 8, 10, 12, 16, 16, 24, 32, 32, 64])
    run = Runner(L)
    errors = rng.random() < 0.5          # error stream enabled for this history
    explicit = rng.random() < 0.5        # explicit positions used in this history
    n_ops = rng.randrange(6, size)
    assigned_once = False
    for step in range(n_ops):
        if run.dead:
            break
        r = rng.random()
        ni = len(run.insts)
        # prefer recent instances and the root
        inst = rng.choice([0, ni - 1, ni - 1, max(0, ni - 2), rng.randrange(ni), rng.randrange(ni)])
        if r < 0.38:
            used = [e["ident"] for e in run.dump()]
            fresh = [i for i in IDENTS if i not in used]
            if fresh and rng.random() < (0.85 if errors else 0.97):
                ident = rng.choice(fresh[:2])
            else:
                ident = rng.choice(IDENTS[:max(2, len(used))])
            length = None if rng.random() < 0.45 else rng.choice([1, 1, 2, 2, 3, 4, 5, L, max(1, L // 2)])
            if errors and rng.random() < 0.06:
                length = rng.choice([0, -1, L + 1, 70])
            start = None
            if explicit and rng.random() < 0.45:
                w = length if (length or 0) > 0 else 1
                start = rng.choice([0, max(0, L - w), rng.randrange(L), rng.randrange(L)])
                if errors and rng.random() < 0.1:
                    start = rng.choice([L, L + 1, max(0, L - w + 1)])
            tags = rng.sample(TAGS, rng.choice([0, 0, 0, 1, 1, 2]))
            if rng.random() < 0.1 and tags:
                tags = tags + [tags[0]]
            run.do({"op": "add", "inst": inst, "ident": ident, "length": length, "start": start, "tags": tags})
        elif r < 0.68:
            cand = run.unvalued(inst)
            kw = []
            if cand:
                k = 1 if rng.random() < 0.7 else min(len(cand), 2)
                for ident, f in rng.sample(cand, k):
                    kw.append([ident, pick_value(rng, f, errors and rng.random() < 0.06, ident)])
            if errors and (not kw or rng.random() < 0.08):
                what = rng.random()
                if what < 0.4:
                    kw.append([rng.choice(IDENTS), rng.randrange(3)])       # maybe unknown / out of scope / duplicate
                elif what < 0.7 and run.insts[inst].field_values:
                    kw.append([rng.choice(list(run.insts[inst].field_values)), rng.randrange(3)])  # already has value
                else:
                    kw.append(["zz", 1])
            seen = set()
            kw = [p for p in kw if not (p[0] in seen or seen.add(p[0]))]
            run.do({"op": "call", "inst": inst, "kw": kw})
        elif r < 0.76:
            run.do({"op": "assign"})
            assigned_once = True
        else:
            en = [i for i, _ in run.enabled(inst)]
            fld = rng.choice(en) if en and rng.random() < 0.85 else rng.choice(IDENTS + ["zz"])
            g = rng.random()
            if g < 0.25:
                sel = rng.random()
                run.do({"op": "value", "inst": inst, "tag": rng.choice(TAGS + ["tx"]) if sel < 0.3 else None,
                        "field": fld if 0.3 <= sel < 0.6 else None})
            elif g < 0.5:
                sel = rng.random()
                run.do({"op": "mask", "inst": inst, "tag": rng.choice(TAGS + ["tx"]) if sel < 0.3 else None,
                        "field": fld if 0.3 <= sel < 0.6 else None})
            elif g < 0.7:
                run.do({"op": "tags", "inst": inst, "field": fld})
            elif g < 0.9:
                run.do({"op": "loc", "inst": inst, "field": fld})
            else:
                run.do({"op": "attr", "inst": inst, "field": fld})
    if run.dead:
        return run
    # tighten: restart with the smallest bit field that the hierarchy needs?  (done by the caller via `tight`)
    finish(rng, run)
    return run


def big_value(rng, k=None):
    """2^k - 1, 2^k, 2^k + 1 for k in 0..100, biased to 30..70"""
    if k is None:
        k = rng.randrange(30, 71) if rng.random() < 0.65 else rng.randrange(0, 101)
    return max(0, (1 << k) + rng.choice([-1, 0, 0, 1]))


def gen_wide_history(rng):
    """bit fields of 64-160 bits with automatically sized neighbours whose largest values are 2^k, 2^k +- 1"""
    USED_VALUES.clear()
    L = rng.choice([64, 64, 96, 128, 128, 160])
    run = Runner(L)
    names = list("abcd")[:rng.randrange(2, 5)]
    scale = {}
    selector = rng.random() < 0.5
    kx = rng.randrange(30, 71) if rng.random() < 0.6 else rng.randrange(0, 60)
    kx = min(kx, L // 3)
    budget = L - 2 - ((kx + 4) if selector else 0)
    for nm in names:
        k = rng.randrange(30, 71) if rng.random() < 0.65 else rng.randrange(0, 101)
        if k + 2 > budget and rng.random() < 0.85:
            k = max(0, min(k, budget - 2))
        budget -= min(budget, k + 2)
        scale[nm] = k
        fixed = rng.random() < 0.15
        run.do({"op": "add", "inst": 0, "ident": nm, "length": (k + 1) if fixed else None, "start": None,
                "tags": rng.sample(TAGS, rng.choice([0, 0, 1]))})
    if selector:
        run.do({"op": "add", "inst": 0, "ident": "s", "length": None if rng.random() < 0.5 else 1, "start": None,
                "tags": []})

    def val(nm):
        r = rng.random()
        if r < 0.45:
            return big_value(rng, scale[nm])
        if r < 0.6:
            return big_value(rng, rng.randrange(0, scale[nm] + 1))
        return rng.randrange(4)
    roots = []
    for _ in range(rng.randrange(2, 6)):
        kw = [[nm, val(nm)] for nm in names]
        if selector:
            kw.append(["s", rng.randrange(2)])
        rng.shuffle(kw)
        r = run.do({"op": "call", "inst": 0, "kw": kw})
        if "ok" in r:
            roots.append((len(run.insts) - 1, dict(kw)))
    if selector and roots:
        for i, kw in roots[:2]:
            if run.dead:
                break
            r = run.do({"op": "add", "inst": i, "ident": "x", "length": None, "start": None, "tags": []})
            if "ok" in r:
                run.do({"op": "call", "inst": i, "kw": [["x", big_value(rng, kx)]]})
    if run.dead:
        return run
    if rng.random() < 0.25:
        run.do({"op": "assign"})
        if not run.dead and roots and rng.random() < 0.7:
            # values after the layout: accepted iff they fit the (possibly one bit wider) implementation length
            kw = [[nm, big_value(rng, scale[nm])] for nm in names]
            if selector:
                kw.append(["s", rng.randrange(2)])
            run.do({"op": "call", "inst": 0, "kw": kw})
    finish(rng, run)
    return run


def finish(rng, run):
    """layout, then complete some instances so that keys exist, then read everything back"""
    run.do({"op": "assign"})
    if "err" in run.results[-1]:
        return
    targets = list(range(len(run.insts)))
    rng.shuffle(targets)
    done = 0
    for i in targets[:4]:
        cur = i
        for _ in range(6):
            cand = run.unvalued(cur)
            if not cand:
                break
            kw = [[ident, pick_value(rng, f)] for ident, f in cand]
            r = run.do({"op": "call", "inst": cur, "kw": kw})
            if "err" in r:
                cur = None
                break
            cur = len(run.insts) - 1
        if cur is None or run.unvalued(cur):
            continue
        done += 1
        run.do({"op": "value", "inst": cur, "tag": None, "field": None})
        run.do({"op": "mask", "inst": cur, "tag": None, "field": None})
        t = rng.choice(TAGS)
        run.do({"op": "value", "inst": cur, "tag": t, "field": None})
        run.do({"op": "mask", "inst": cur, "tag": t, "field": None})
        en = run.enabled(cur)
        if en:
            f = rng.choice(en)[0]
            run.do({"op": "loc", "inst": cur, "field": f})
            run.do({"op": "value", "inst": cur, "tag": None, "field": f})
            run.do({"op": "mask", "inst": cur, "tag": None, "field": f})
    # a late assign_fields after new scopes may have appeared is a no-op unless fields were added
    if rng.random() < 0.3:
        run.do({"op": "assign"})


def tighten(run):
    """the same history on the smallest bit field that the final layout of `run` used (fills the top bit)"""
    top = 0
    for e in run.dump():
        if e["length"] is not None and e["start"] is not None:
            top = max(top, e["start"] + e["length"])
    return top


def replay_ops(length, ops):
    run = Runner(length)
    for op in ops:
        if run.dead:
            break
        if "inst" in op and op["inst"] >= len(run.insts):
            continue            # (retargeted histories: an earlier call failed) - the op is not part of the case
        run.do(op)
    return run


# --------------------------------------------------------------------------
# evaluation: model correspondence + Lean oracles on the implementation's outputs
# --------------------------------------------------------------------------
def complete_instances(run):
    """[(index, fv, key, mask, locs, per-tag outputs)] for instances with every enabled field valued and a key"""
    out = []
    if run.dead:
        return out
    seen = set()
    for i, b in enumerate(run.insts):
        if run.unvalued(i):
            continue
        fvkey = json.dumps(sorted(b.field_values.items()))
        if fvkey in seen:
            continue
        seen.add(fvkey)
        try:
            key, mask = b.get_value(), b.get_mask()
            locs = []
            for ident, f in run.enabled(i):
                s, l = b.get_location_and_length(ident)
                locs.append({"ident": ident, "start": s, "len": l, "value": b.field_values[ident]})
        except ValueError:
            continue
        tagged = []
        for t in TAGS:
            try:
                tk, tm = b.get_value(tag=t), b.get_mask(tag=t)
            except LookupError:
                continue
            tl = [l for l in locs if t in b.get_tags(l["ident"])]
            tagged.append((t, tk, tm, tl))
        out.append((i, [[k, v] for k, v in b.field_values.items()], key, mask, locs, tagged))
        if len(out) >= 6:
            break
    return out


def eval_runs(ctx, runs):
    reqs, idx = [], []

    def ask(what, run_i, info, **req):
        req["suite"] = "c08"
        reqs.append(req)
        idx.append((what, run_i, info))

    for ri, run in enumerate(runs):
        ask("history", ri, None, op="history", length=run.length, ops=run.ops)
        last = None
        for oi, (op, r) in enumerate(zip(run.ops, run.results)):
            st = r.get("state")
            if st is not None and st != last:
                ask("invariant", ri, (oi, op["op"], "ok" in r), op="invariant", length=run.length, entries=st)
                last = st
        for oi, pre in run.pre_assign:
            if (len(pre) <= 11 and all(e["start"] is None for e in pre)
                    and all(e["length"] is not None or e["max"] < SPARE_FROM for e in pre)):
                ask("floating", ri, oi, op="floating_fits", length=run.length, entries=pre)
        comp = complete_instances(run)
        final = run.dump() if not run.dead else []
        for (i, fv, key, mask, locs, tagged) in comp:
            ask("key", ri, (i, None), op="key_oracle", entries=final, fv=fv, key=key, mask=mask, tag=None, locs=locs)
            for (t, tk, tm, tl) in tagged:
                ask("key", ri, (i, t), op="key_oracle", entries=final, fv=fv, key=tk, mask=tm, tag=t, locs=tl)
        for a in range(len(comp)):
            for b in range(a + 1, len(comp)):
                if dict(map(tuple, comp[a][1])) != dict(map(tuple, comp[b][1])):
                    ask("orth", ri, (comp[a][0], comp[b][0]), op="orthogonal", key=comp[a][2], mask=comp[a][3],
                        key2=comp[b][2], mask2=comp[b][3])
        run.n_complete = len(comp)
        # the instance invariant (values_fit, inst_ok) on every instance the history created, complete or not
        if not run.dead:
            seen_fv = set()
            for i, b in enumerate(run.insts):
                fvk = json.dumps(sorted(b.field_values.items()))
                if fvk in seen_fv or len(seen_fv) >= 10:
                    continue
                seen_fv.add(fvk)
                ask("inst", ri, i, op="instance", entries=final, fv=[[k, v] for k, v in b.field_values.items()])

    replies = ctx.lean(reqs)
    for (tag, ri, info), rep in zip(idx, replies):
        run = runs[ri]
        case = {"length": run.length, "ops": run.ops}
        if isinstance(rep, dict) and "proto_error" in rep:
            ctx.mismatch("c08.protocol", "driver: %r" % (rep,), case)
            continue
        if tag == "history":
            for oi, (op, ri_, mo) in enumerate(zip(run.ops, run.results, rep)):
                if ri_ != mo:
                    d = "op %d %r: impl=%s model=%s" % (oi, op, json.dumps(ri_)[:600], json.dumps(mo)[:600])
                    ctx.mismatch("c08.history." + op["op"], d, case)
                    break
            if len(rep) != len(run.results):
                ctx.mismatch("c08.history.len", "reply count differs", case)
            ctx.traces += 1
        elif tag == "invariant":
            oi, kind, ok = info
            where = "after op %d (%s)" % (oi, kind)
            if not rep["disjoint"]:
                ctx.violation("overlap", "two fields that can be present together overlap %s" % where, case)
            if not rep["in_range"]:
                ctx.violation("out-of-range", "a field lies outside the bit field / is empty %s" % where, case)
            if not rep["wide"]:
                ctx.violation("too-narrow", "a field is narrower than a value given to it %s" % where, case)
            if not rep["tag_closed"]:
                ctx.violation("tag-not-closed", "a tagged field's required parent lacks the tag %s" % where, case)
            if kind == "assign" and ok and not rep["all_fixed"]:
                ctx.violation("not-all-assigned", "assign_fields returned but a field has no position/length", case)
            if not rep["unique"]:
                ctx.tag("scope-uniqueness-broken")
                ctx.mismatch("c08.unique", "identifier not unique among co-presentable fields %s" % where, case)
        elif tag == "floating":
            oi = info
            ok = "ok" in run.results[oi]
            ctx.tag("floating_%s_%s" % ("fits" if rep["fits"] else "nofit", "ok" if ok else "raise"))
            if rep["fits"] and not ok:
                key = "complete-floating" if rep["nested"] else "complete-floating-cross-scope"
                ctx.violation(key, "nothing is explicitly positioned and every set of co-present fields fits in %d bits, "
                              "but assign_fields (op %d) raised %s" % (run.length, oi, run.results[oi].get("err")), case)
        elif tag == "key":
            i, t = info
            if not rep["readback"]:
                ctx.violation("readback", "a field's value cannot be read back from the key at its reported position "
                              "(instance %d, tag %r)" % (i, t), case)
            if not rep["mask_exact"] or not rep["mask_is_locs"]:
                ctx.violation("mask", "mask is not the union of the present fields' bits (instance %d, tag %r)" % (i, t), case)
        elif tag == "inst":
            if not rep["values_fit"]:
                ctx.violation("value-too-wide", "instance %d holds a value that does not fit the length of its field" % info,
                              case)
            if not rep["inst_ok"]:
                ctx.tag("instance-invariant-broken")
                ctx.mismatch("c08.inst_ok", "instance %d holds a value above max_value / for a field not present in it"
                             % info, case)
        elif tag == "orth":
            if rep is not True:
                ctx.violation("not-orthogonal", "two different complete assignments (instances %d, %d) produce key/mask "
                              "pairs that match each other" % info, case)

    for run in runs:
        st = run.dump() if not run.dead else []
        scopes = len({json.dumps(e["path"]) for e in st})
        assigned_ok = any(o["op"] == "assign" and "ok" in r for o, r in zip(run.ops, run.results))
        for o, r in zip(run.ops, run.results):
            ctx.tag("%s_%s" % (o["op"], "ok" if "ok" in r else r["err"]))
        if any(o.get("spare") for o in run.ops):
            ctx.tag("assign_with_spare_bit")
        if run.length > 64:
            ctx.tag("length_over_64")
        if any(e["max"] >= SPARE_FROM for e in st):
            ctx.tag("max_value_over_2^44")
        depth = max([len(e["path"]) for e in st] + [0])
        ctx.tag("depth_%d" % min(depth, 4), "scopes_%s" % (scopes if scopes < 4 else "4+"))
        if any(e["length"] is not None and e["start"] is not None and e["start"] + e["length"] == run.length for e in st):
            ctx.tag("top-bit-used")
        if any(len(k) > 1 for e in st for k in e["path"]):
            ctx.tag("multi-ident-child-key")
        ctx.case({"length": run.length, "ops": run.ops},
                 scopes >= 2 and assigned_ok and getattr(run, "n_complete", 0) >= 1)


def fixed_cases():
    """hand-written histories: the known corner cases"""
    def add(inst, ident, length=None, start=None, tags=()):
        return {"op": "add", "inst": inst, "ident": ident, "length": length, "start": start, "tags": list(tags)}

    def call(inst, **kw):
        return {"op": "call", "inst": inst, "kw": [[k, v] for k, v in kw.items()]}
    A = {"op": "assign"}
    out = [
        (8, [add(0, "a", 8), A]),                                            # F5: a field filling the bit field
        (8, [add(0, "a", 4), add(0, "b", 4), A]),                            # F5: two halves
        (1, [add(0, "a"), A, call(0, a=1), {"op": "value", "inst": 1, "tag": None, "field": None}]),
        (6, [add(0, "a"), add(0, "c"), call(0, a=0), add(1, "b"), call(0, c=0), add(2, "d"),
             call(0, a=1), add(3, "e", 3), A]),                              # cross-scope fragmentation
        (5, [add(0, "a"), add(0, "b"), add(0, "c"), call(0, a=0, b=0), add(1, "v"), call(0, b=0, c=0), add(2, "w"),
             call(0, c=0, a=1), add(3, "x"), call(0, a=1, b=1), add(4, "y"), call(0, c=1), add(5, "z"), A]),  # 5-cycle
        (32, [add(0, "a"), add(0, "c"), call(0, a=0), add(1, "b"), call(0, a=0, c=0, b=1), add(2, "d")]),   # recursion
        (8, [add(0, "a", 2, 0), add(0, "b", None, 1), add(0, "c", None, 2), call(0, c=7), A]),
        (8, [add(0, "a", None, 0, ["t0"]), call(0, a=0), add(1, "b", 2, 6, ["t1"]), call(0, a=1), add(2, "b", 3, 5), A,
             call(1, b=3), {"op": "value", "inst": 3, "tag": None, "field": None},
             {"op": "mask", "inst": 3, "tag": "t1", "field": None}]),
    ]
    for k in (44, 47, 48, 49, 50, 52, 53, 63, 64, 65, 80, 100):
        for d in (-1, 0, 1):
            v = (1 << k) + d
            out.append((k + 12, [add(0, "t"), add(0, "u"), call(0, t=v, u=3), call(0, t=0, u=2), call(0, t=v, u=2), A,
                                 {"op": "value", "inst": 1, "tag": None, "field": None},
                                 {"op": "loc", "inst": 1, "field": "t"}]))
    return out


def run(ctx):
    ctx.extra["rule"] = RULE
    ctx.assumptions += [
        "explicit start positions are non-negative integers (documented 0-based index)",
        "automatic lengths: exact bit length of max_value required below 2^44; from 2^44 on the exact bit length or one bit "
        "more is accepted (double-precision log2 of the implementation; never fewer)",
        "field identifiers are distinct from BitField attribute names; tag and field are not both given to a getter",
        "the history ends at a RecursionError of _Tree.add_field (the tree is left half-built by the code)",
    ]
    # hypothesis of the completeness theorems: the repaired scan bound (constant regenerated from the source)
    consts = ctx.lean([{"suite": "c08", "op": "consts"}])[0]
    ctx.tag("scan_slack_%s" % consts.get("scan_slack"))
    if consts.get("scan_slack") != 1:
        ctx.tag("complete_floating-hypothesis-unmet")
    n = ctx.scale(1500, 40000)
    if ctx.extended:
        n *= 4
    rng = ctx.rng
    runs = [replay_ops(L, ops) for L, ops in fixed_cases()]
    # wide bit fields with automatically sized fields around powers of two (float log2 of the implementation)
    n_wide = ctx.scale(400, 8000) * (4 if ctx.extended else 1)
    made_w = 0
    while made_w < n_wide:
        run_ = gen_wide_history(rng)
        runs.append(run_)
        made_w += 1
        if not run_.dead and rng.random() < 0.5:
            top = tighten(run_)
            L2 = top if rng.random() < 0.7 else top - 1
            if 1 <= L2 != run_.length:
                runs.append(replay_ops(L2, retarget(run_.ops, run_.length, L2)))
                made_w += 1
        if len(runs) >= 1500:
            eval_runs(ctx, runs)
            runs = []
    ctx.tag("wide_histories_%d" % made_w)
    batch = 2500
    made = 0
    while made < n:
        while len(runs) < batch and made < n:
            size = rng.choice([10, 16, 24, 40])
            run_ = gen_history(rng, size, False)
            runs.append(run_)
            made += 1
            # the same history on the smallest bit field its layout needs, and one bit less
            if not run_.dead and rng.random() < 0.5:
                top = tighten(run_)
                if 0 < top <= 64 and made < n:
                    for L2 in ([top] if rng.random() < 0.6 else [top - 1]):
                        if L2 >= 1 and L2 != run_.length:
                            core = [o for o in run_.ops]
                            runs.append(replay_ops(L2, retarget(core, run_.length, L2)))
                            made += 1
        eval_runs(ctx, runs)
        runs = []
    if not ctx.quick:
        exhaustive_small(ctx)


def retarget(ops, L, L2):
    """same history for a bit field of another length: explicit positions at the top follow the top"""
    out = []
    for o in ops:
        o = dict(o)
        if o["op"] == "add" and o["start"] is not None and o["start"] >= L2:
            o["start"] = max(0, o["start"] - (L - L2)) if L > L2 else o["start"]
        out.append(o)
    return out


def exhaustive_small(ctx):
    """every hierarchy of <= 3 floating fields below one 1-bit selector (two scopes) with widths 1-3, in every bit field
    length 1-7: the layout either fits by the Lean predicate and succeeds, or does not fit"""
    import itertools
    runs = []
    for widths0 in itertools.product([0, 1, 2, 3], repeat=2):
        for widths1 in itertools.product([0, 1, 2], repeat=2):
            for rootw in (1, 2):
                for L in range(1, 8):
                    ops = [{"op": "add", "inst": 0, "ident": "a", "length": rootw, "start": None, "tags": []},
                           {"op": "call", "inst": 0, "kw": [["a", 0]]}, {"op": "call", "inst": 0, "kw": [["a", 1]]}]
                    for k, w in enumerate(widths0):
                        if w:
                            ops.append({"op": "add", "inst": 1, "ident": "bc"[k], "length": w, "start": None, "tags": []})
                    for k, w in enumerate(widths1):
                        if w:
                            ops.append({"op": "add", "inst": 2, "ident": "bd"[k], "length": w, "start": None, "tags": []})
                    ops.append({"op": "assign"})
                    runs.append(replay_ops(L, ops))
    ctx.tag("exhaustive_small_%d" % len(runs))
    eval_runs(ctx, runs)


def replay(ctx, payload):
    ctx.extra["rule"] = RULE
    c = payload["case"]
    eval_runs(ctx, [replay_ops(c["length"], c["ops"])])
