"""C19 - SpiNN-5 board geometry: correspondence of rig/geometry.py
(spinn5_local_eth_coord, spinn5_chip_coord, spinn5_eth_coords, spinn5_fpga_link,
standard_system_dimensions) and rig/links.py (link vectors) with the Lean model
RigModel/Model/C19.lean, and the Lean specification predicates (independent
description of the 48-chip board and of the Ethernet lattice) evaluated on the
implementation's own outputs."""

CLAIM = dict(
    text=("Machine-checked proof (Lean 4): the 12x12 offset table, the FPGA link table and the link vectors are "
          "regenerated from the source on every run and proved (decide, kernel) against a hand-written description of "
          "the 48-chip board {0<=x,y<=7, x-y<=4, y-x<=3} and the Ethernet lattice {(0,0),(4,8),(8,4)}+12Z^2; lifted by "
          "mod-12 arithmetic to ALL chip coordinates, ALL root chips and ALL widths/heights: the plane tiling is exact "
          "(each chip on exactly one board), local_eth_coord/chip_coord return that board's Ethernet chip and the offset "
          "from it (torus statement with uniqueness for multiples of 12; reduced mod w,h for ragged sizes), eth_coords "
          "lists without repetition exactly the lattice points inside the machine for every root (although the source "
          "never reduces root_y), fpga_link is defined iff the neighbour lies on another board, with 48 pairwise distinct "
          "numbers covering {0,1,2}x{0..15}, and standard_system_dimensions returns 12*(k/h, h) with h the largest divisor "
          "of k=n/3 with h*h<=k.  Tied to the code by exact correspondence of all five functions (all 144 cells x 6 links "
          "exhaustively for several roots, random and ragged sizes, whole boards, board counts) and the Lean "
          "specification predicates evaluated on the implementation's outputs."),
    design="3/C19",
    note=("int(sqrt(k)) is modelled by the integer square root (equal for k < 2^52). Widths/heights <= 0 and negative "
          "board counts are modelled (ZeroDivisionError / empty list / ValueError) but outside the property."),
    technique="Lean 4 theorems over a hand-written model + translator for the tables + differential correspondence + Lean spec as oracle")


THEOREMS = ["table_shape", "table_cells", "board_has_48_chips", "links_documented", "eth_triple_documented",
            "tile_unique", "tile_cover", "chip_coord_is_offset",
            "local_eth_spec", "spec_local_unique", "spec_local_e_iff", "local_eth_torus", "local_eth_torus_unique", "local_eth_no_wrap",
            "eth_coords_mem", "eth_coords_nodup", "spec_eth_coords_iff", "eth_coords_spec", "eth_coords_root_mod12", "eth_coords_one_per_board",
            "local_eth_mem_eth_coords",
            "fpga_table_edges", "fpga_table_numbering", "fpga_link_spec", "fpga_link_iff_leaves_board",
            "fpga_link_on_board", "fpga_link_distinct", "fpga_board_spec",
            "std_dims_spec", "std_dims_squarest", "std_dims_errors"]
THEOREMS += ['gen_chip_coord', 'gen_local_eth_coord', 'gen_fpga_link']   # translator tie: generated function bodies = model (Props/C19Gen.lean)

RULE = ("(a) every cell of the 12x12 table x 6 links (+ invalid link numbers) for root (0,0) and random roots on 12x12 "
        "and larger machines; (b) random (w, h, root, x, y) with w,h multiples of 12, ragged, 1 and a few 0, x,y inside, "
        "on the border, outside and negative; (c) eth_coords for random/ragged/zero sizes and arbitrary (also negative, "
        "large) roots; (d) whole boards: 48 chips x 6 links of a random board of a random machine; (e) board counts "
        "0..N and random large ones incl. non-multiples of 3 and negatives.  Non-trivial: root not a multiple of 12 or a "
        "wrap-around (local/chip), ragged size or root != 0 (eth_coords), a defined FPGA link, a composite number of "
        "triads (dimensions); distinct = distinct canonical JSON of the input")

BOARD = [(x, y) for x in range(8) for y in range(8) if x - y <= 4 and y - x <= 3]   # hand-written, 48 chips
LATTICE = [(0, 0), (4, 8), (8, 4)]


def _exc(e):
    return {"err": type(e).__name__}


def impl(case):
    """run the implementation on one case; canonical JSON result"""
    from rig import geometry as g
    from rig.links import Links
    fn = case["fn"]
    try:
        if fn == "local_eth":
            r = g.spinn5_local_eth_coord(case["x"], case["y"], case["w"], case["h"], case["rx"], case["ry"])
            return {"ok": [int(r[0]), int(r[1])]}
        if fn == "chip_coord":
            r = g.spinn5_chip_coord(case["x"], case["y"], case["rx"], case["ry"])
            return {"ok": [int(r[0]), int(r[1])]}
        if fn == "fpga_link":
            l = case["link"]
            if case.get("enum", True) and 0 <= l <= 5:
                l = Links(l)
            r = g.spinn5_fpga_link(case["x"], case["y"], l, case["rx"], case["ry"])
            return {"ok": None if r is None else [int(r[0]), int(r[1])]}
        if fn == "eth_coords":
            return {"ok": [[int(a), int(b)] for a, b in
                           g.spinn5_eth_coords(case["width"], case["height"], case["rx"], case["ry"])]}
        if fn == "std_dims":
            r = g.standard_system_dimensions(case["n"])
            return {"ok": [int(r[0]), int(r[1])]}
        if fn == "link_vec":
            v = Links(case["link"]).to_vector()
            return {"ok": [int(v[0]), int(v[1])]}
        if fn == "fpga_board":
            out = []
            for bx, by in BOARD:
                for l in range(6):
                    r = g.spinn5_fpga_link(case["ex"] + bx, case["ey"] + by, Links(l), case["rx"], case["ry"])
                    out.append(None if r is None else [int(r[0]), int(r[1])])
            return {"ok": out}
        raise AssertionError("unknown fn " + fn)
    except AssertionError:
        raise
    except Exception as e:      # any exception of the implementation is an outcome, not a harness failure
        return _exc(e)


def requests(case, out):
    """[(kind, request)] for the Lean driver: model evaluation and spec predicates on the implementation's output"""
    fn = case["fn"]
    a = {k: v for k, v in case.items() if k not in ("fn", "enum")}
    rq = []
    if fn in ("local_eth", "chip_coord", "fpga_link", "eth_coords", "std_dims"):
        rq.append(("model", dict(a, suite="c19", op=fn)))
    ok = "ok" in out
    if fn == "local_eth" and ok and case["w"] > 0 and case["h"] > 0:
        # judged on its own: some chip b of the hand-written board makes SpecLocal true (the on-board
        # coordinate reported by spinn5_chip_coord is judged in its own case)
        rq.append(("spec", dict(a, suite="c19", op="spec_local_e", e=out["ok"])))
    elif fn == "chip_coord" and ok:
        # only the on-board coordinate is judged here: b is a board chip and c - b an Ethernet chip
        # (e is set to what SpecLocal demands for this b on a huge machine)
        big = 12 * 10 ** 6
        e = [(case["x"] - out["ok"][0]) % big, (case["y"] - out["ok"][1]) % big]
        rq.append(("spec", dict(a, suite="c19", op="spec_local", w=big, h=big, e=e, b=out["ok"])))
    elif fn == "fpga_link" and ok:
        rq.append(("spec", dict(a, suite="c19", op="spec_fpga", out=out["ok"])))
    elif fn == "eth_coords" and ok:
        rq.append(("spec", dict(a, suite="c19", op="spec_eth_coords", out=out["ok"])))
    elif fn == "std_dims" and ok and case["n"] >= 0 and case["n"] % 3 == 0:
        if out["ok"][0] >= 0 and out["ok"][1] >= 0:
            rq.append(("spec", dict(suite="c19", op="spec_std_dims", n=case["n"], w=out["ok"][0], h=out["ok"][1])))
        else:
            rq.append(("specfalse", None))
    elif fn == "link_vec":
        rq.append(("model", dict(suite="c19", op="link_vec", link=case["link"])))
        rq.append(("spec", dict(suite="c19", op="spec_link_vec", link=case["link"], out=out.get("ok"))))
    elif fn == "fpga_board" and ok:
        rq.append(("spec", dict(suite="c19", op="spec_fpga_board", out=out["ok"])))
        i = 0
        for bx, by in BOARD:
            for l in range(6):
                rq.append(("item", dict(suite="c19", op="fpga_link", x=case["ex"] + bx, y=case["ey"] + by,
                                        link=l, rx=case["rx"], ry=case["ry"])))
                rq.append(("itemspec", dict(suite="c19", op="spec_fpga", x=case["ex"] + bx, y=case["ey"] + by,
                                            link=l, rx=case["rx"], ry=case["ry"], out=out["ok"][i])))
                i += 1
    return rq


KEYS = {"local_eth": "local-eth-not-board-ethernet-chip", "chip_coord": "chip-coord-not-offset-from-ethernet-chip",
        "fpga_link": "fpga-link-not-iff-leaves-board", "eth_coords": "eth-coords-not-lattice-points-in-machine",
        "std_dims": "std-dims-not-squarest-triads", "link_vec": "link-vector-not-documented-direction",
        "fpga_board": "fpga-board-numbers-not-distinct-or-incomplete"}


def in_domain(c):
    """inputs on which the property demands an answer"""
    fn = c["fn"]
    if fn == "local_eth":
        return c["w"] > 0 and c["h"] > 0
    if fn == "std_dims":
        return c["n"] >= 0 and c["n"] % 3 == 0
    if fn == "link_vec":
        return 0 <= c["link"] <= 5
    if fn == "eth_coords":
        return c["width"] >= 0 and c["height"] >= 0
    return True


def nontrivial(c, out):
    fn = c["fn"]
    if "ok" not in out:
        return False
    if fn in ("local_eth", "chip_coord"):
        wrap = False
        if fn == "local_eth" and c["w"] > 0 and c["h"] > 0:
            wrap = not (0 <= c["x"] < c["w"] and 0 <= c["y"] < c["h"]) or out["ok"][0] > c["x"] or out["ok"][1] > c["y"]
        return c["rx"] % 12 != 0 or c["ry"] % 12 != 0 or wrap
    if fn == "fpga_link":
        return out["ok"] is not None
    if fn == "eth_coords":
        return len(out["ok"]) > 0 and (c["width"] % 12 != 0 or c["height"] % 12 != 0 or c["rx"] != 0 or c["ry"] != 0)
    if fn == "std_dims":
        k = c["n"] // 3
        return c["n"] % 3 == 0 and k >= 4 and any(k % d == 0 for d in range(2, int(k ** 0.5) + 1))
    if fn == "fpga_board":
        return True
    return False


def eval_cases(ctx, cases):
    reqs, idx = [], []
    outs = []
    for ci, c in enumerate(cases):
        out = impl(c)
        outs.append(out)
        for kind, r in requests(c, out):
            if r is None:
                idx.append((ci, kind, None))
            else:
                idx.append((ci, kind, len(reqs)))
                reqs.append(r)
    reps = ctx.lean(reqs)
    per = [[] for _ in cases]
    for ci, kind, ri in idx:
        per[ci].append((kind, None if ri is None else reps[ri], None if ri is None else reqs[ri]))
    for c, out, rs in zip(cases, outs, per):
        fn = c["fn"]
        ctx.traces += 1
        ctx.tag(fn + ("" if "ok" in out else ":" + out["err"]))
        if "err" in out and in_domain(c):
            ctx.violation("exception-on-valid-input",
                          "%s raised %s on an input for which the property demands an answer" % (fn, out["err"]), c)
        item_i = 0
        for kind, rep, rq in rs:
            if isinstance(rep, dict) and "proto_error" in rep:
                raise RuntimeError("driver protocol error %r on %r" % (rep, rq))
            if kind == "model":
                want = out
                if fn == "eth_coords":
                    # the order of the generator is not part of the property (only the set, without
                    # repetition - which the oracle checks on the implementation's list): compare sorted
                    want = sorted(out["ok"]) if "ok" in out else out
                    rep = sorted(rep)
                if fn == "link_vec":
                    want = out.get("ok")
                if rep != want:
                    ctx.mismatch("c19." + fn, "impl=%r model=%r" % (want, rep), c)
            elif kind == "item":
                if rep != {"ok": out["ok"][item_i]}:
                    ctx.mismatch("c19.fpga_link", "board item %d impl=%r model=%r" % (item_i, out["ok"][item_i], rep), c)
            elif kind == "itemspec":
                if rep is not True:
                    ctx.violation(KEYS["fpga_link"],
                                  "spinn5_fpga_link(%d,%d,link=%d,root=(%d,%d)) = %r: an FPGA link must be reported exactly "
                                  "when the link leaves the board" % (rq["x"], rq["y"], rq["link"], rq["rx"], rq["ry"], rq["out"]),
                                  {"fn": "fpga_link", "x": rq["x"], "y": rq["y"], "link": rq["link"],
                                   "rx": rq["rx"], "ry": rq["ry"]})
                item_i += 1
            elif kind in ("spec", "specfalse"):
                if rep is not True:
                    ctx.violation(KEYS[fn], "Lean specification %s is false on the implementation's output %r of %r" % (
                        (rq or {}).get("op", "spec_std_dims"), out, c), c)
        ctx.case(c, nontrivial(c, out))


# ----------------------------------------------------------------------------- generators

def rnd_root(rng):
    r = rng.random()
    if r < 0.15:
        return 0, 0
    if r < 0.3:
        return rng.choice(LATTICE)[0] + 12 * rng.randrange(3), rng.randrange(12)
    if r < 0.9:
        return rng.randrange(0, 48), rng.randrange(0, 48)
    return rng.randrange(-40, 300), rng.randrange(-40, 300)


def rnd_size(rng):
    r = rng.random()
    if r < 0.6:
        return 12 * rng.randrange(1, 9)
    if r < 0.7:
        return 8
    if r < 0.97:
        return rng.randrange(1, 100)
    return 0


def rnd_coord(rng, w):
    r = rng.random()
    if w <= 0 or r < 0.05:
        return rng.randrange(-30, 130)
    if r < 0.15:
        return rng.choice([0, w - 1])
    if r < 0.2:
        return rng.choice([-1, w, w + 1])
    return rng.randrange(w)


def exhaustive_cells(ctx, roots, sizes):
    cases = []
    for (rx, ry) in roots:
        for (w, h) in sizes:
            for j in range(12):
                for i in range(12):
                    # place the cell somewhere in the machine
                    x = (i + rx) % 12 + 12 * ctx.rng.randrange(max(w // 12, 1))
                    y = (j + ry) % 12 + 12 * ctx.rng.randrange(max(h // 12, 1))
                    base = {"x": x, "y": y, "rx": rx, "ry": ry}
                    cases.append(dict(base, fn="local_eth", w=w, h=h))
                    cases.append(dict(base, fn="chip_coord"))
                    for l in range(6):
                        cases.append(dict(base, fn="fpga_link", link=l, enum=(i + j + l) % 3 != 0))
                    cases.append(dict(base, fn="fpga_link", link=ctx.rng.choice([-1, 6, 7, 100])))
    return cases


def random_cells(ctx, n):
    rng = ctx.rng
    cases = []
    for _ in range(n):
        w, h = rnd_size(rng), rnd_size(rng)
        rx, ry = rnd_root(rng)
        x, y = rnd_coord(rng, w), rnd_coord(rng, h)
        base = {"x": x, "y": y, "rx": rx, "ry": ry}
        cases.append(dict(base, fn="local_eth", w=w, h=h))
        cases.append(dict(base, fn="chip_coord"))
        cases.append(dict(base, fn="fpga_link", link=rng.randrange(6), enum=rng.random() < 0.7))
    return cases


def eth_cases(ctx, n, maxsize):
    rng = ctx.rng
    cases = []
    for _ in range(n):
        r = rng.random()
        if r < 0.4:
            width, height = 12 * rng.randrange(0, maxsize // 12 + 1), 12 * rng.randrange(0, maxsize // 12 + 1)
        elif r < 0.5:
            width, height = 8, 8
        else:
            width, height = rng.randrange(0, maxsize + 1), rng.randrange(0, maxsize + 1)
        rx, ry = rnd_root(rng)
        if rng.random() < 0.1:
            rx, ry = -rx, -ry - 13
        cases.append({"fn": "eth_coords", "width": width, "height": height, "rx": rx, "ry": ry})
    return cases


def board_cases(ctx, n):
    rng = ctx.rng
    cases = []
    for _ in range(n):
        rx, ry = rnd_root(rng)
        lx, ly = rng.choice(LATTICE)
        cases.append({"fn": "fpga_board", "rx": rx, "ry": ry,
                      "ex": rx + lx + 12 * rng.randrange(-2, 8), "ey": ry + ly + 12 * rng.randrange(-2, 8)})
    return cases


def dims_cases(ctx, upto, nrandom):
    rng = ctx.rng
    cases = [{"fn": "std_dims", "n": n} for n in range(0, upto + 1)]
    cases += [{"fn": "std_dims", "n": n} for n in (-1, -2, -3, -6, -9)]
    for _ in range(nrandom):
        r = rng.random()
        if r < 0.4:
            a, b = rng.randrange(1, 60), rng.randrange(1, 60)
            cases.append({"fn": "std_dims", "n": 3 * a * b})
        elif r < 0.6:
            a = rng.randrange(1, 400)
            cases.append({"fn": "std_dims", "n": 3 * a * a + rng.choice([0, 0, 3, -3])})
        elif r < 0.9:
            cases.append({"fn": "std_dims", "n": 3 * rng.randrange(1, 200000)})
        else:
            cases.append({"fn": "std_dims", "n": rng.randrange(2, 100000)})
    return cases


def link_cases(ctx):
    return [{"fn": "link_vec", "link": l} for l in range(6)]


def corpus_cases():
    """corpus/C19/*.json: {"cases": [...]} or a replay file {"case": {...}}; run first"""
    import glob
    import json
    import os
    d = os.path.join(os.path.dirname(os.path.dirname(os.path.abspath(__file__))), "corpus", "C19")
    out = []
    for f in sorted(glob.glob(os.path.join(d, "*.json"))):
        j = json.load(open(f))
        out += j.get("cases", []) + ([j["case"]] if "case" in j else [])
    return out


def run(ctx):
    ctx.extra["rule"] = RULE
    ctx.assumptions += [
        "int(sqrt(k)) equals the integer square root (true for k < 2^52; board counts generated are < 10^6)",
        "coordinates, sizes and roots are Python ints (unbounded); numpy is used only to index the 12x12 table",
        "the property is claimed for widths/heights >= 1 (local Ethernet chip), >= 0 (Ethernet list) and board "
        "counts that are non-negative multiples of 3; other inputs are compared with the model only"]
    rng = ctx.rng
    big = ctx.extended
    roots = [(0, 0)] + [rnd_root(rng) for _ in range(ctx.scale(3, 24) * (4 if big else 1))]
    sizes = [(12, 12), (12 * rng.randrange(2, 6), 12 * rng.randrange(2, 6))]
    if not ctx.quick:
        sizes += [(24, 12), (rng.randrange(13, 60), rng.randrange(13, 60))]
    cases = corpus_cases() + link_cases(ctx)
    cases += exhaustive_cells(ctx, roots, sizes)
    cases += random_cells(ctx, ctx.scale(2000, 40000) * (4 if big else 1))
    cases += eth_cases(ctx, ctx.scale(300, 3000) * (4 if big else 1), ctx.scale(60, 96))
    cases += board_cases(ctx, ctx.scale(20, 300) * (4 if big else 1))
    cases += dims_cases(ctx, ctx.scale(400, 3000), ctx.scale(300, 5000) * (4 if big else 1))
    if not ctx.quick:
        # every width and height up to 48 (ragged and exact) with a few roots each
        for width in range(0, 49):
            for height in range(0, 49):
                for _ in range(2):
                    cases.append({"fn": "eth_coords", "width": width, "height": height,
                                  "rx": rng.randrange(24), "ry": rng.randrange(24)})
    ctx.exhaustive = True   # the finite part (144 cells x 6 links, 48 board chips x 6 links) is enumerated completely
    for i in range(0, len(cases), 4000):
        eval_cases(ctx, cases[i:i + 4000])
    # report the smallest failing input of each class (conclude() keeps the first per key)
    ctx.concrete.sort(key=lambda t: sum(abs(v) for v in t[2].values() if isinstance(v, int) and not isinstance(v, bool)))


def replay(ctx, payload):
    ctx.extra["rule"] = RULE
    eval_cases(ctx, [payload["case"]])
THEOREMS += ['gen_eth_coords', 'gen_std_dims']   # translator tie, second round (Props/C19Gen.lean)
