"""C19 - SpiNN-5 board geometry: correspondence of rig/geometry.py
(spinn5_local_eth_coord, spinn5_chip_coord, spinn5_eth_coords, spinn5_fpga_link,
standard_system_dimensions) and rig/links.py (link vectors) with the Lean model
RigModel/Model/C19.lean, and the Lean specification predicates (independent
description of the 48-chip board and of the Ethernet lattice) evaluated on the
implementation's own outputs."""

CLAIM = dict(
    text=("Machine-checked proof (Lean 4): the 12x12 offset table, the FPGA link table and the link vectors are "
          "regenerated from the source on every run and proved (decide, kernel) against a hand-written description of "
          "the 48-chip board {0<=x,y<=7, x-y<=4, y-x<=3} and the Ethernet lattice {(0,0),(4,8),(8,4)}+12Z^2; lifted by "
          "mod-12 arithmetic to ALL chip coordinates, ALL root chips and ALL widths/heights: the plane tiling is exact "
          "(each chip on exactly one board), local_eth_coord/chip_coord return that board's Ethernet chip and the offset "
          "from it (torus statement with uniqueness for multiples of 12; reduced mod w,h for ragged sizes), eth_coords "
          "lists without repetition exactly the lattice points inside the machine for every root (although the source "
          "never reduces root_y), fpga_link is defined iff the neighbour lies on another board, with 48 pairwise distinct "
          "numbers covering {0,1,2}x{0..15}, and standard_system_dimensions returns 12*(k/h, h) with h the largest divisor "
          "of k=n/3 with h*h<=k.  Tied to the code by exact correspondence of all five functions (all 144 cells x 6 links "
          "exhaustively for several roots, random and ragged sizes, whole boards, board counts) and the Lean "
          "specification predicates evaluated on the implementation's outputs."),
    design="3/C19",
    note=("int(sqrt(k)) is modelled by the integer square root (equal for k < 2^52 and for the exact squares generated "
          "above it; board counts beyond what a double holds exactly - e.g. 3a(a-1) with a > 2^54, where the source's "
          "float sqrt starts the divisor search in the wrong place - are NOT generated). Widths/heights <= 0 and negative "
          "board counts are modelled (ZeroDivisionError / empty list / ValueError) but outside the property. "
          "Hardening checklist: (1) kinds - every integer argument also as bool (0/1) and as a member of the IntEnum "
          "Links (0..5), link as Links / int / bool, big ints around 2^31..2^100 for coordinates, roots, w, h and board "
          "counts; numpy ints are not generated (rig itself passes Python ints: struct-unpacked sizes and root_chip); "
          "no parameter is a collection, byte string, hashable identifier or rig object; None is not a legal value of "
          "root_x/root_y. (2) optional parameters: root_x, root_y of all four spinn5_* functions take non-default "
          "values, are passed positionally, by keyword, all-keyword, and are omitted (one or both) when 0; "
          "standard_system_dimensions has none. (3) scale: 1xN, Nx1, 2xN, Nx12 machines with N in the thousands, "
          "65,537 and 257 wide/high, a 360^2 (600^2) machine, 3*257 / 3*65,537 boards; nothing is recursive. "
          "(4) every call runs inside a history that starts with a fresh load of rig.links and rig.geometry; repeated "
          "calls, twins in both orders; there are no objects/classes to alternate other than the generators. "
          "(5) arguments are ints and results are tuples, so the caller has nothing to edit in place; every result is "
          "kept and re-checked at the end of its history; the generators of spinn5_eth_coords are consumed lazily, "
          "two alternately, between other calls, one abandoned. (6) nothing in scope talks to anything that can fail; "
          "calls that raise (w = 0, board count not a multiple of 3) are followed by normal calls in histories. "
          "(7) there is no environment / configuration. (8) every call under common.cpu_limit; all model functions are "
          "total, so not returning on an in-domain input is the finding did-not-return."),
    technique="Lean 4 theorems over a hand-written model + translator for the tables + differential correspondence + Lean spec as oracle")


THEOREMS = ["table_shape", "table_cells", "board_has_48_chips", "links_documented", "eth_triple_documented",
            "tile_unique", "tile_cover", "chip_coord_is_offset",
            "local_eth_spec", "spec_local_unique", "spec_local_e_iff", "local_eth_torus", "local_eth_torus_unique", "local_eth_no_wrap",
            "eth_coords_mem", "eth_coords_nodup", "spec_eth_coords_iff", "eth_coords_spec", "eth_coords_root_mod12", "eth_coords_one_per_board",
            "local_eth_mem_eth_coords",
            "fpga_table_edges", "fpga_table_numbering", "fpga_link_spec", "fpga_link_iff_leaves_board",
            "fpga_link_on_board", "fpga_link_distinct", "fpga_board_spec",
            "std_dims_spec", "std_dims_squarest", "std_dims_errors", "spec_std_dims_fast_iff"]
THEOREMS += ['gen_chip_coord', 'gen_local_eth_coord', 'gen_fpga_link']   # translator tie: generated function bodies = model (Props/C19Gen.lean)

RULE = ("Every call is compared with the Lean model and judged by the Lean predicate of its function on the "
        "implementation's own output; calls run in histories (fresh load of rig.links/rig.geometry, then up to 32 "
        "consecutive calls; kept results re-checked at the end).  Streams: (a) corpus; every cell of the 12x12 table x "
        "6 links (+ invalid link numbers) for root (0,0) and random roots on 12x12 and larger machines; (b) random "
        "(w, h, root, x, y) with w,h multiples of 12, ragged, 1 and a few 0, x,y inside, on the border, outside and "
        "negative; (c) eth_coords for random/ragged/zero sizes and arbitrary (also negative, large) roots; (d) whole "
        "boards: 48 chips x 6 links of a random board of a random machine; (e) board counts 0..N and random large ones "
        "incl. non-multiples of 3 and negatives; half of (b), (c), (e) 'dressed': arguments as bool / Links members, "
        "roots by keyword / all by keyword / omitted when 0 (tags kind:*, conv:*); (f) big integers 2^31..2^100 "
        "(tag bigint; board counts judged by SpecStdDimsFast = SpecStdDims, theorem spec_std_dims_fast_iff); (g) scale: "
        "1xN, Nx1, 2xN, 65,537- and 257-wide machines, 3*65,537 boards; (h) histories: same call three times, twins "
        "(one aspect changed, or the same chip through another function) in both orders, a raising call followed by "
        "normal ones, generators of spinn5_eth_coords opened / advanced / finished alternately between other calls and "
        "one abandoned (tags history, eth_open, eth_pull, eth_finish).  A finding is reported with the single call when "
        "that fails on its own, else with the history up to it.  Non-trivial: root not a multiple of 12 or a "
        "wrap-around (local/chip), ragged size or root != 0 (eth_coords), a defined FPGA link, a composite number of "
        "triads (dimensions); distinct = distinct canonical JSON of the input")

BOARD = [(x, y) for x in range(8) for y in range(8) if x - y <= 4 and y - x <= 3]   # hand-written, 48 chips
LATTICE = [(0, 0), (4, 8), (8, 4)]
BIG = [2 ** 31, 2 ** 32, 2 ** 53 + 1, 2 ** 63, 2 ** 64, 2 ** 100]

# documented parameter order of every function in scope (positional AND keyword conventions are exercised)
PARAMS = {"local_eth": (("x", "x"), ("y", "y"), ("w", "w"), ("h", "h"), ("rx", "root_x"), ("ry", "root_y")),
          "chip_coord": (("x", "x"), ("y", "y"), ("rx", "root_x"), ("ry", "root_y")),
          "fpga_link": (("x", "x"), ("y", "y"), ("link", "link"), ("rx", "root_x"), ("ry", "root_y")),
          "eth_coords": (("width", "width"), ("height", "height"), ("rx", "root_x"), ("ry", "root_y")),
          "std_dims": (("n", "num_boards"),)}
META = ("fn", "enum", "kinds", "conv", "id", "k", "slow")     # fields of a case that are not arguments
_HANGS = {}        # function -> number of calls that did not return in this run


def _exc(e):
    return {"err": type(e).__name__}


def _present(case, name, Links):
    """the argument in the kind the case asks for: plain int, bool (0/1), member of the IntEnum Links (0..5)"""
    v = case[name]
    kind = (case.get("kinds") or {}).get(name)
    if name == "link" and kind is None and case.get("enum", True) and 0 <= v <= 5:
        kind = "enum"
    if kind == "bool" and v in (0, 1):
        return bool(v)
    if kind == "enum" and 0 <= v <= 5:
        return Links(v)
    return v


def _call(f, case, Links, tags):
    """call with the calling convention the case asks for"""
    fn = case["fn"] if case["fn"] not in ("eth_open",) else "eth_coords"
    conv = case.get("conv", "pos")
    params = PARAMS[fn]
    if conv == "kwall":
        tags.append("conv:kwall")
        return f(**{pn: _present(case, cn, Links) for cn, pn in params})
    req = [(cn, pn) for cn, pn in params if cn not in ("rx", "ry")]
    args = [_present(case, cn, Links) for cn, pn in req]
    if len(params) == len(req):
        tags.append("conv:pos")
        return f(*args)
    rx, ry = _present(case, "rx", Links), _present(case, "ry", Links)
    if conv == "kw":
        tags.append("conv:kw")
        return f(*args, root_x=rx, root_y=ry)
    if conv == "default" and (case["rx"] == 0 or case["ry"] == 0):
        if case["rx"] == 0 and case["ry"] == 0:
            tags.append("conv:default-both")
            return f(*args)
        if case["ry"] == 0:
            tags.append("conv:default-root_y")
            return f(*args, rx)
        tags.append("conv:default-root_x")
        return f(*args, root_y=ry)
    tags.append("conv:pos")
    return f(*args, rx, ry)


def _pair(r):
    return [int(r[0]), int(r[1])]


def _canon(fn, raw):
    """canonical JSON of a kept raw result (also used to re-check kept results at the end of a history)"""
    if fn in ("local_eth", "chip_coord", "std_dims", "link_vec"):
        return _pair(raw)
    if fn == "fpga_link":
        return None if raw is None else _pair(raw)
    if fn in ("eth_coords", "eth_finish"):
        return [_pair(p) for p in raw]
    if fn == "fpga_board":
        return [None if r is None else _pair(r) for r in raw]
    raise AssertionError(fn)


def impl_raw(case, state, tags):
    """run the implementation on one call of a history; returns the raw result (kept by the caller)"""
    from rig import geometry as g
    from rig.links import Links
    fn = case["fn"]
    if fn == "local_eth":
        return _call(g.spinn5_local_eth_coord, case, Links, tags)
    if fn == "chip_coord":
        return _call(g.spinn5_chip_coord, case, Links, tags)
    if fn == "fpga_link":
        return _call(g.spinn5_fpga_link, case, Links, tags)
    if fn == "eth_coords":
        return list(_call(g.spinn5_eth_coords, case, Links, tags))
    if fn == "std_dims":
        return _call(g.standard_system_dimensions, case, Links, tags)
    if fn == "link_vec":
        return Links(case["link"]).to_vector()
    if fn == "fpga_board":
        return [g.spinn5_fpga_link(case["ex"] + bx, case["ey"] + by, Links(l), case["rx"], case["ry"])
                for bx, by in BOARD for l in range(6)]
    # the generator returned by spinn5_eth_coords consumed lazily: opened, advanced a few items at a time
    # between other calls, finished (judged like a plain call) or abandoned
    if fn == "eth_open":
        state[case["id"]] = [_call(g.spinn5_eth_coords, case, Links, tags), []]
        return None
    if fn == "eth_pull":
        it, got = state[case["id"]]
        for _ in range(case["k"]):
            try:
                got.append(next(it))
            except StopIteration:
                break
        return None
    if fn == "eth_finish":
        it, got = state[case["id"]]
        got.extend(it)
        return got
    raise AssertionError("unknown fn " + fn)


def reload_rig():
    """every history starts from freshly executed modules, so that a replay of the history reproduces
    whatever module-level state its calls build up"""
    import importlib
    import sys
    import rig.links
    import rig.geometry
    importlib.reload(sys.modules["rig.links"])
    importlib.reload(sys.modules["rig.geometry"])


def run_history(calls):
    """-> (outs, tags, changed): canonical outcome of every call; indices of kept results that changed later"""
    from harness import common
    reload_rig()
    outs, tags, kept, state = [], [], [], {}
    for i, c in enumerate(calls):
        try:
            # a call takes microseconds (the cases marked slow - scale, divisor search of huge board counts -
            # up to a few tenths of a second): 5 s of CPU time means it did not return; once a function has
            # done that 6 times the limit is 1 s, after 10 times 0.1 s for its calls not marked slow
            nh = _HANGS.get(c["fn"], 0)
            with common.cpu_limit(5 if nh < 6 else 1 if nh < 10 or c.get("slow") else 0.1):
                raw = impl_raw(c, state, tags)
            if c["fn"] in ("eth_open", "eth_pull"):
                outs.append({"ok": None})
            else:
                outs.append({"ok": _canon(c["fn"], raw)})
                kept.append((i, raw))
        except common.ImplHang as e:
            _HANGS[c["fn"]] = _HANGS.get(c["fn"], 0) + 1
            outs.append({"err": "DidNotReturn", "where": str(e)})
        except AssertionError:
            raise
        except (ImportError, SyntaxError):
            raise
        except Exception as e:      # any exception of the implementation is an outcome, not a harness failure
            outs.append(_exc(e))
    # (c) the caller keeps every result: it must still be what it was when it was returned
    changed = []
    for i, raw in kept:
        try:
            now = {"ok": _canon(calls[i]["fn"], raw)}
        except Exception as e:
            now = _exc(e)
        if now != outs[i]:
            changed.append((i, now))
    return outs, tags, changed


def args_of(case):
    return {k: v for k, v in case.items() if k not in META}


def requests(case, out):
    """[(kind, request)] for the Lean driver: model evaluation and spec predicates on the implementation's output"""
    fn = case["fn"]
    if fn in ("eth_open", "eth_pull"):
        return []
    if fn == "eth_finish":
        fn = "eth_coords"
    a = args_of(case)
    rq = []
    if fn in ("local_eth", "chip_coord", "fpga_link", "eth_coords", "std_dims"):
        rq.append(("model", dict(a, suite="c19", op=fn)))
    ok = "ok" in out
    if fn == "local_eth" and ok and case["w"] > 0 and case["h"] > 0:
        # judged on its own: some chip b of the hand-written board makes SpecLocal true (the on-board
        # coordinate reported by spinn5_chip_coord is judged in its own case)
        rq.append(("spec", dict(a, suite="c19", op="spec_local_e", e=out["ok"])))
    elif fn == "chip_coord" and ok:
        # only the on-board coordinate is judged here: b is a board chip and c - b an Ethernet chip
        # (e is set to what SpecLocal demands for this b on a huge machine)
        big = 12 * 10 ** 6
        e = [(case["x"] - out["ok"][0]) % big, (case["y"] - out["ok"][1]) % big]
        rq.append(("spec", dict(a, suite="c19", op="spec_local", w=big, h=big, e=e, b=out["ok"])))
    elif fn == "fpga_link" and ok:
        rq.append(("spec", dict(a, suite="c19", op="spec_fpga", out=out["ok"])))
    elif fn == "eth_coords" and ok:
        rq.append(("spec", dict(a, suite="c19", op="spec_eth_coords", out=out["ok"])))
    elif fn == "std_dims" and ok and case["n"] >= 0 and case["n"] % 3 == 0:
        w, h = out["ok"]
        if w < 0 or h < 0:
            rq.append(("specfalse", None))
        elif case["n"] <= 30000:
            rq.append(("spec", dict(suite="c19", op="spec_std_dims", n=case["n"], w=w, h=h)))
        else:
            # huge counts: the equivalent predicate (theorem spec_std_dims_fast_iff) that scans only between
            # the reported height and the integer square root; skipped (model comparison only) when that
            # range is too long to scan
            import math
            if math.isqrt(case["n"] // 3) - h // 12 <= 3 * 10 ** 6:
                rq.append(("fast", None))
                rq.append(("spec", dict(suite="c19", op="spec_std_dims_fast", n=case["n"], w=w, h=h)))
            else:
                rq.append(("skip", None))
    elif fn == "link_vec":
        rq.append(("model", dict(suite="c19", op="link_vec", link=case["link"])))
        rq.append(("spec", dict(suite="c19", op="spec_link_vec", link=case["link"], out=out.get("ok"))))
    elif fn == "fpga_board" and ok:
        rq.append(("spec", dict(suite="c19", op="spec_fpga_board", out=out["ok"])))
        i = 0
        for bx, by in BOARD:
            for l in range(6):
                rq.append(("item", dict(suite="c19", op="fpga_link", x=case["ex"] + bx, y=case["ey"] + by,
                                        link=l, rx=case["rx"], ry=case["ry"])))
                rq.append(("itemspec", dict(suite="c19", op="spec_fpga", x=case["ex"] + bx, y=case["ey"] + by,
                                            link=l, rx=case["rx"], ry=case["ry"], out=out["ok"][i])))
                i += 1
    return rq


KEYS = {"local_eth": "local-eth-not-board-ethernet-chip", "chip_coord": "chip-coord-not-offset-from-ethernet-chip",
        "fpga_link": "fpga-link-not-iff-leaves-board", "eth_coords": "eth-coords-not-lattice-points-in-machine",
        "eth_finish": "eth-coords-not-lattice-points-in-machine",
        "std_dims": "std-dims-not-squarest-triads", "link_vec": "link-vector-not-documented-direction",
        "fpga_board": "fpga-board-numbers-not-distinct-or-incomplete"}


def in_domain(c):
    """inputs on which the property demands an answer"""
    fn = c["fn"]
    if fn == "local_eth":
        return c["w"] > 0 and c["h"] > 0
    if fn == "std_dims":
        return c["n"] >= 0 and c["n"] % 3 == 0
    if fn == "link_vec":
        return 0 <= c["link"] <= 5
    if fn in ("eth_coords", "eth_open", "eth_finish"):
        return c["width"] >= 0 and c["height"] >= 0
    return True


def nontrivial(c, out):
    fn = c["fn"]
    if "ok" not in out:
        return False
    if fn in ("local_eth", "chip_coord"):
        wrap = False
        if fn == "local_eth" and c["w"] > 0 and c["h"] > 0:
            wrap = not (0 <= c["x"] < c["w"] and 0 <= c["y"] < c["h"]) or out["ok"][0] > c["x"] or out["ok"][1] > c["y"]
        return c["rx"] % 12 != 0 or c["ry"] % 12 != 0 or wrap
    if fn == "fpga_link":
        return out["ok"] is not None
    if fn in ("eth_coords", "eth_finish"):
        return len(out["ok"]) > 0 and (c["width"] % 12 != 0 or c["height"] % 12 != 0 or c["rx"] != 0 or c["ry"] != 0)
    if fn == "std_dims":
        k = c["n"] // 3
        if k > 10 ** 7:
            return c["n"] % 3 == 0
        return c["n"] % 3 == 0 and k >= 4 and any(k % d == 0 for d in range(2, int(k ** 0.5) + 1))
    if fn == "fpga_board":
        return True
    return False


def size_of(case):
    """for preferring small failing inputs"""
    if case.get("fn") == "history":
        return (len(case["calls"]), size_of(case["calls"][-1])[1])
    return (1, sum(abs(v) for v in args_of(case).values() if isinstance(v, int)))


class _Rec(object):
    """stand-in for ctx used when a failing call is re-run on its own: records verdicts, counts nothing"""

    def __init__(self, ctx):
        self._ctx, self.concrete, self.mismatches, self.traces = ctx, [], [], 0

    def lean(self, reqs):
        return self._ctx.lean(reqs)

    def violation(self, key, what, case):
        self.concrete.append((key, what, case))

    def mismatch(self, suite, detail, case):
        self.mismatches.append((suite, detail, case))

    def tag(self, *a):
        pass

    def case(self, *a, **k):
        pass


def eval_histories(ctx, hists):
    """each history: list of calls made one after the other in freshly loaded modules.  Every call is compared
    with the model and judged by the Lean predicates on its own; what is reported as the failing input is the
    history up to and including the failing call (reduced to the single call by `finish` if that suffices)."""
    reqs, idx, results = [], [], []
    for hi, calls in enumerate(hists):
        outs, tags, changed = run_history(calls)
        results.append((outs, tags, changed))
        for ci, (c, out) in enumerate(zip(calls, outs)):
            for kind, r in requests(c, out):
                idx.append((hi, ci, kind, None if r is None else len(reqs)))
                if r is not None:
                    reqs.append(r)
    reps = ctx.lean(reqs)
    per = {}
    for hi, ci, kind, ri in idx:
        per.setdefault((hi, ci), []).append((kind, None if ri is None else reps[ri], None if ri is None else reqs[ri]))
    for hi, calls in enumerate(hists):
        outs, tags, changed = results[hi]
        ctx.tag(*tags)
        if len(calls) > 1:
            ctx.tag("history")
        for i, now in changed:
            ctx.violation("result-changed-after-return",
                          "the result of call %d (%r) was %r when returned and is %r after the later calls of the "
                          "history" % (i, calls[i], outs[i], now), {"fn": "history", "calls": calls})
        for ci, (c, out) in enumerate(zip(calls, outs)):
            fn = c["fn"]
            where = c if len(calls) == 1 else {"fn": "history", "calls": calls[:ci + 1]}
            ctx.traces += 1
            ctx.tag(fn + ("" if "ok" in out else ":" + out["err"]))
            for name, kind in sorted((c.get("kinds") or {}).items()):
                ctx.tag("kind:" + kind)
            if any(isinstance(v, int) and abs(v) >= 2 ** 31 for v in args_of(c).values()):
                ctx.tag("bigint")
            if c.get("x") == 255 and c.get("y") == 255 and fn in ("local_eth", "chip_coord", "fpga_link"):
                ctx.tag("chip-255-255")
            if (c.get("w"), c.get("h")) == (256, 256) or (c.get("width"), c.get("height")) == (256, 256):
                ctx.tag("machine-256x256")
            if out.get("err") == "DidNotReturn":
                # every function of the model is total (local_eth_spec, fpga_link_spec, std_dims_spec, ... state
                # that a result exists): where the property demands an answer, not returning is a failure
                if in_domain(c):
                    ctx.violation("did-not-return", "%s did not return: %s" % (fn, out.get("where")), where)
                else:
                    ctx.mismatch("c19." + fn, "implementation did not return (%s), the model does" % out.get("where"), where)
                ctx.case(c, False)
                continue
            if "err" in out and in_domain(c):
                ctx.violation("exception-on-valid-input",
                              "%s raised %s on an input for which the property demands an answer" % (fn, out["err"]), where)
            item_i = 0
            for kind, rep, rq in per.get((hi, ci), []):
                if isinstance(rep, dict) and "proto_error" in rep:
                    raise RuntimeError("driver protocol error %r on %r" % (rep, rq))
                if kind == "skip":
                    ctx.tag("std_dims:oracle-range-too-long")
                elif kind == "fast":
                    ctx.tag("std_dims:fast-oracle")
                elif kind == "model":
                    want = out
                    if fn in ("eth_coords", "eth_finish"):
                        # the order of the generator is not part of the property (only the set, without
                        # repetition - which the oracle checks on the implementation's list): compare sorted
                        want = sorted(out["ok"]) if "ok" in out else out
                        rep = sorted(rep)
                    if fn == "link_vec":
                        want = out.get("ok")
                    if rep != want:
                        ctx.mismatch("c19." + fn, "impl=%r model=%r" % (want, rep), where)
                elif kind == "item":
                    if rep != {"ok": out["ok"][item_i]}:
                        ctx.mismatch("c19.fpga_link", "board item %d impl=%r model=%r" % (item_i, out["ok"][item_i], rep), where)
                elif kind == "itemspec":
                    if rep is not True:
                        single = {"fn": "fpga_link", "x": rq["x"], "y": rq["y"], "link": rq["link"],
                                  "rx": rq["rx"], "ry": rq["ry"]}
                        ctx.violation(KEYS["fpga_link"],
                                      "spinn5_fpga_link(%d,%d,link=%d,root=(%d,%d)) = %r: an FPGA link must be reported exactly "
                                      "when the link leaves the board" % (rq["x"], rq["y"], rq["link"], rq["rx"], rq["ry"], rq["out"]),
                                      single if len(calls) == 1 else {"fn": "history", "calls": calls[:ci] + [single]})
                    item_i += 1
                elif kind in ("spec", "specfalse"):
                    if rep is not True:
                        ctx.violation(KEYS[fn], "Lean specification %s is false on the implementation's output %r of %r" % (
                            (rq or {}).get("op", "spec_std_dims"), out, c), where)
            ctx.case(c, nontrivial(c, out))


def finish(ctx):
    """keep, per class of finding, the smallest failing input; a history is reduced to its last call when that
    call fails in the same way on its own (in freshly loaded modules) - otherwise the history is the input"""
    best = {}
    for key, what, case in ctx.concrete:
        if key not in best or size_of(case) < size_of(best[key][1]):
            best[key] = (what, case)
    out = []
    for key, (what, case) in sorted(best.items()):
        if case.get("fn") == "history" and len(case["calls"]) == 1:
            case = case["calls"][0]
        if case.get("fn") == "history" and len(case["calls"]) > 1 and key != "result-changed-after-return":
            rec = _Rec(ctx)
            eval_histories(rec, [[case["calls"][-1]]])
            alone = [t for t in rec.concrete if t[0] == key]
            if alone:
                what, case = alone[0][1], alone[0][2]
            else:
                what += "  [only after the earlier calls of this history]"
                ctx.tag("finding-needs-history")
        out.append((key, what, case))
    ctx.concrete[:] = out


# ----------------------------------------------------------------------------- generators

def rnd_root(rng):
    r = rng.random()
    if r < 0.15:
        return 0, 0
    if r < 0.3:
        return rng.choice(LATTICE)[0] + 12 * rng.randrange(3), rng.randrange(12)
    if r < 0.9:
        return rng.randrange(0, 48), rng.randrange(0, 48)
    return rng.randrange(-40, 300), rng.randrange(-40, 300)


EDGE_XY = [0, 1, 11, 12, 127, 128, 254, 255]       # 255 = largest chip coordinate (8-bit); 127/128, 11/12 = triad/sign edges
EDGE_WH = [256, 255, 252, 253, 13, 12, 1]          # maximal (ragged: 256 = 21 triads + 4), just below, whole triads, minimal


def rnd_size(rng):
    if rng.random() < 0.1:
        return rng.choice(EDGE_WH)
    r = rng.random()
    if r < 0.6:
        return 12 * rng.randrange(1, 9)
    if r < 0.7:
        return 8
    if r < 0.97:
        return rng.randrange(1, 100)
    return 0


def rnd_coord(rng, w):
    if rng.random() < 0.1:
        ok = [v for v in EDGE_XY if v < w]
        if ok:
            return rng.choice(ok)
    r = rng.random()
    if w <= 0 or r < 0.05:
        return rng.randrange(-30, 130)
    if r < 0.15:
        return rng.choice([0, w - 1])
    if r < 0.2:
        return rng.choice([-1, w, w + 1])
    return rng.randrange(w)


def exhaustive_cells(ctx, roots, sizes):
    cases = []
    for (rx, ry) in roots:
        for (w, h) in sizes:
            for j in range(12):
                for i in range(12):
                    # place the cell somewhere in the machine
                    x = (i + rx) % 12 + 12 * ctx.rng.randrange(max(w // 12, 1))
                    y = (j + ry) % 12 + 12 * ctx.rng.randrange(max(h // 12, 1))
                    base = {"x": x, "y": y, "rx": rx, "ry": ry}
                    cases.append(dict(base, fn="local_eth", w=w, h=h))
                    cases.append(dict(base, fn="chip_coord"))
                    for l in range(6):
                        cases.append(dict(base, fn="fpga_link", link=l, enum=(i + j + l) % 3 != 0))
                    cases.append(dict(base, fn="fpga_link", link=ctx.rng.choice([-1, 6, 7, 100])))
    return cases


def random_cells(ctx, n):
    rng = ctx.rng
    cases = []
    for _ in range(n):
        w, h = rnd_size(rng), rnd_size(rng)
        rx, ry = rnd_root(rng)
        x, y = rnd_coord(rng, w), rnd_coord(rng, h)
        base = {"x": x, "y": y, "rx": rx, "ry": ry}
        cases.append(dict(base, fn="local_eth", w=w, h=h))
        cases.append(dict(base, fn="chip_coord"))
        cases.append(dict(base, fn="fpga_link", link=rng.randrange(6), enum=rng.random() < 0.7))
    return cases


def eth_cases(ctx, n, maxsize):
    rng = ctx.rng
    cases = []
    for _ in range(n):
        r = rng.random()
        if r < 0.4:
            width, height = 12 * rng.randrange(0, maxsize // 12 + 1), 12 * rng.randrange(0, maxsize // 12 + 1)
        elif r < 0.5:
            width, height = 8, 8
        else:
            width, height = rng.randrange(0, maxsize + 1), rng.randrange(0, maxsize + 1)
        rx, ry = rnd_root(rng)
        if rng.random() < 0.1:
            rx, ry = -rx, -ry - 13
        cases.append({"fn": "eth_coords", "width": width, "height": height, "rx": rx, "ry": ry})
    return cases


def board_cases(ctx, n):
    rng = ctx.rng
    cases = []
    for _ in range(n):
        rx, ry = rnd_root(rng)
        lx, ly = rng.choice(LATTICE)
        cases.append({"fn": "fpga_board", "rx": rx, "ry": ry,
                      "ex": rx + lx + 12 * rng.randrange(-2, 8), "ey": ry + ly + 12 * rng.randrange(-2, 8)})
    return cases


def dims_cases(ctx, upto, nrandom):
    rng = ctx.rng
    cases = [{"fn": "std_dims", "n": n} for n in range(0, upto + 1)]
    cases += [{"fn": "std_dims", "n": n} for n in (-1, -2, -3, -6, -9)]
    for _ in range(nrandom):
        r = rng.random()
        if r < 0.4:
            a, b = rng.randrange(1, 60), rng.randrange(1, 60)
            cases.append({"fn": "std_dims", "n": 3 * a * b})
        elif r < 0.6:
            a = rng.randrange(1, 400)
            cases.append({"fn": "std_dims", "n": 3 * a * a + rng.choice([0, 0, 3, -3])})
        elif r < 0.9:
            cases.append({"fn": "std_dims", "n": 3 * rng.randrange(1, 200000)})
        else:
            cases.append({"fn": "std_dims", "n": rng.randrange(2, 100000)})
    return cases


def link_cases(ctx):
    return [{"fn": "link_vec", "link": l} for l in range(6)]


def corpus_cases(histories=False):
    """corpus/C19/*.json: {"cases": [...]} or a replay file {"case": {...}}; run first (histories separately)"""
    import glob
    import json
    import os
    d = os.path.join(os.path.dirname(os.path.dirname(os.path.abspath(__file__))), "corpus", "C19")
    out = []
    for f in sorted(glob.glob(os.path.join(d, "*.json"))):
        j = json.load(open(f))
        out += j.get("cases", []) + ([j["case"]] if "case" in j else [])
    return [c for c in out if (c.get("fn") == "history") == histories]




# --- argument kinds, calling conventions, big integers, scale, histories (general streams)

def dress(rng, c):
    """the same call with its integer arguments presented in other legal kinds (bool for 0/1, members of the
    IntEnum Links for 0..5) and in another calling convention; what is compared and judged does not change"""
    c = dict(c)
    if c["fn"] not in PARAMS:
        return c
    kinds = {}
    for cn, pn in PARAMS[c["fn"]]:
        v = c[cn]
        r = rng.random()
        if v in (0, 1) and r < 0.35:
            kinds[cn] = "bool"
        elif 0 <= v <= 5 and r < 0.5 and cn != "link":
            kinds[cn] = "enum"
        elif cn == "link" and v in (0, 1) and r < 0.5:
            kinds[cn] = "bool"
    if kinds:
        c["kinds"] = kinds
    c["conv"] = rng.choice(["pos", "kw", "kwall", "default", "default"])
    return c


def big(rng):
    b = rng.choice(BIG) + rng.randrange(-13, 14)
    return -b if rng.random() < 0.25 else b


def bigint_cases(ctx, n):
    """unbounded quantities around 2**31 ... 2**100: coordinates, roots, widths and heights (multiples of 12 and
    ragged), board counts (only those whose triad count a double holds exactly, see CLAIM.note)"""
    rng = ctx.rng
    cases = []
    for _ in range(n):
        w = rng.choice([12, 24, 96, 8, 37, 12 * abs(big(rng)), abs(big(rng))])
        h = rng.choice([12, 36, 7, 12 * abs(big(rng)), abs(big(rng))])
        rx, ry = rng.choice([(0, 0), (big(rng), big(rng)), (rng.randrange(48), big(rng)), (big(rng), rng.randrange(48))])
        x = rng.choice([big(rng), rng.randrange(100), rx + rng.randrange(-20, 20)])
        y = rng.choice([big(rng), rng.randrange(100), ry + rng.randrange(-20, 20)])
        base = {"x": x, "y": y, "rx": rx, "ry": ry}
        cases.append(dict(base, fn="local_eth", w=w, h=h))
        cases.append(dict(base, fn="chip_coord"))
        cases.append(dict(base, fn="fpga_link", link=rng.randrange(6)))
        cases.append({"fn": "eth_coords", "width": rng.choice([12, 24, 8, 17]), "height": rng.choice([12, 36, 8, 5]),
                      "rx": big(rng), "ry": big(rng)})
    for j in (16, 26, 32, 50):
        cases.append({"fn": "std_dims", "n": 3 * 4 ** j})             # 2**32, 2**52, 2**64, 2**100 triads
    cases.append({"fn": "std_dims", "n": 3 * 2 ** 31})
    cases.append({"fn": "std_dims", "n": 2 ** 100})                  # not a multiple of 3
    cases.append({"fn": "std_dims", "n": -3 * 2 ** 64})
    for _ in range(max(n // 4, 4)):
        a = rng.randrange(2 ** 15, 2 ** 26)
        cases.append({"fn": "std_dims", "n": 3 * a * (a + rng.randrange(0, 40))})   # < 2**53, nearly square
    for c in cases:
        if c["fn"] == "std_dims":
            c["slow"] = True
    return cases


def scale_cases(ctx):
    """a handful far beyond the usual size: 1 x N, N x 1, 2 x N machines, 65,537 and 257 of what is counted"""
    rng = ctx.rng
    N = rng.choice([2999, 5000, 6001])
    cases = []
    for width, height in [(1, N), (N, 1), (2, N), (N, 12), (65537, 1), (1, 65537), (257, 257),
                          (ctx.scale(360, 600), ctx.scale(360, 600))]:
        rx, ry = rnd_root(rng)
        cases.append({"fn": "eth_coords", "width": width, "height": height, "rx": rx, "ry": ry, "slow": True})
        x, y = rng.randrange(width), rng.randrange(height)
        cases.append({"fn": "local_eth", "x": x, "y": y, "w": width, "h": height, "rx": rx, "ry": ry})
        cases.append({"fn": "fpga_link", "x": x, "y": y, "link": rng.randrange(6), "rx": rx, "ry": ry})
    for n in (3 * 257, 3 * 65537, 3 * 65536, 3 * 65535, 3 * 1000003):
        cases.append({"fn": "std_dims", "n": n, "slow": True})
    return cases


def boundary_cases(ctx, nroots, all_links):
    """boundary coordinates crossed with boundary machine sizes: x, y in EDGE_XY x w, h in EDGE_WH (x < w, y < h),
    roots in {0, 1, 11}^2 and random, for all four spinn5_* functions (both coordinates extreme at once included)"""
    rng = ctx.rng
    fixed = [(a, b) for a in (0, 1, 11) for b in (0, 1, 11)]
    cases = []
    i = 0
    for w in EDGE_WH:
        for h in EDGE_WH:
            roots = [fixed[(i + j) % 9] for j in range(nroots)] + [rnd_root(rng)]
            i += 1
            cases.append({"fn": "eth_coords", "width": w, "height": h, "rx": roots[0][0], "ry": roots[0][1], "slow": True})
            for x in EDGE_XY:
                for y in EDGE_XY:
                    if x < w and y < h:
                        i += 1
                        for rx, ry in [fixed[(i + j) % 9] for j in range(nroots)] + [rnd_root(rng)]:
                            base = {"x": x, "y": y, "rx": rx, "ry": ry}
                            cases.append(dict(base, fn="local_eth", w=w, h=h))
                            cases.append(dict(base, fn="chip_coord"))
                            for l in (range(6) if all_links else [rng.randrange(6)]):
                                cases.append(dict(base, fn="fpga_link", link=l))
    return cases


def border_ring_256(ctx, nroots):
    """every chip on the border of the maximal 256 x 256 machine (thorough)"""
    rng = ctx.rng
    ring = [(x, y) for x in range(256) for y in range(256) if x in (0, 255) or y in (0, 255)]
    cases = []
    for rx, ry in [(0, 0)] + [rnd_root(rng) for _ in range(nroots)]:
        for x, y in ring:
            base = {"x": x, "y": y, "rx": rx, "ry": ry}
            cases.append(dict(base, fn="local_eth", w=256, h=256))
            cases.append(dict(base, fn="chip_coord"))
            for l in range(6):
                cases.append(dict(base, fn="fpga_link", link=l))
    return cases


def twin(rng, c):
    """equal to c in all but one aspect"""
    t = dict(c)
    fn = c["fn"]
    if fn == "std_dims":
        t["n"] = c["n"] + rng.choice([3, -3, 1, 2 * c["n"]])
        return t
    fields = [k for k in args_of(c) if k != "id"]
    r = rng.random()
    if r < 0.25 and fn in ("local_eth", "chip_coord", "fpga_link"):
        # the same chip asked through another function
        fn2 = rng.choice([f for f in ("local_eth", "chip_coord", "fpga_link") if f != fn])
        t = {"fn": fn2, "x": c["x"], "y": c["y"], "rx": c["rx"], "ry": c["ry"]}
        if fn2 == "local_eth":
            t.update(w=c.get("w", 12 * rng.randrange(1, 5)), h=c.get("h", 12 * rng.randrange(1, 5)))
        if fn2 == "fpga_link":
            t["link"] = c.get("link", rng.randrange(6))
        return t
    f = rng.choice(fields)
    if f == "link":
        t[f] = (c[f] + rng.randrange(1, 6)) % 6
    elif f in ("w", "h", "width", "height"):
        t[f] = max(c[f] + rng.choice([-12, 12, 1, -1, 24, c[f]]), 1)
    else:
        t[f] = c[f] + rng.choice([1, -1, 4, 8, 12, -12])
    return t


def history_cases(ctx, n):
    """several calls in ONE process after a fresh load of the modules: the same call repeated, twins in both
    orders, a failing call (w = 0 / a board count that is not a multiple of 3) followed by normal ones, and the
    generators of spinn5_eth_coords consumed lazily - two of them alternately, between other calls, one abandoned"""
    rng = ctx.rng
    hists = []
    pool = random_cells(ctx, n) + eth_cases(ctx, max(n // 3, 4), 48) + dims_cases(ctx, 0, max(n // 3, 4))
    for _ in range(n):
        c = dress(rng, rng.choice(pool))
        r = rng.random()
        if r < 0.2:
            hists.append([c, dict(c), dict(c)])
        elif r < 0.6:
            t = dress(rng, twin(rng, c))
            hists.append(rng.choice([[c, t, c], [t, c, t], [c, t, t, c]]))
        elif r < 0.7:
            bad = rng.choice([{"fn": "local_eth", "x": 1, "y": 2, "w": 0, "h": 12, "rx": 0, "ry": 0},
                              {"fn": "local_eth", "x": 1, "y": 2, "w": 12, "h": 0, "rx": 3, "ry": 4},
                              {"fn": "std_dims", "n": rng.choice([2, 4, 5, -3, -1])}])
            hists.append([c, bad, c, dress(rng, twin(rng, c))])
        else:
            a, b, ab = [dict(rng.choice([p for p in pool if p["fn"] == "eth_coords"])) for _ in range(3)]
            if rng.random() < 0.5:
                b = twin(rng, a)
            other = [dress(rng, rng.choice(pool)) for _ in range(3)]
            h = [dict(dress(rng, a), fn="eth_open", id=0), dict(fn="eth_pull", id=0, k=rng.randrange(1, 4)),
                 dict(dress(rng, b), fn="eth_open", id=1), dict(fn="eth_pull", id=1, k=rng.randrange(0, 3)),
                 dict(dress(rng, ab), fn="eth_open", id=2), dict(fn="eth_pull", id=2, k=1),      # abandoned
                 other[0], dict(fn="eth_pull", id=0, k=rng.randrange(0, 5)), other[1],
                 dict(b, fn="eth_finish", id=1), other[2], dict(a, fn="eth_finish", id=0)]
            hists.append(h)
    return hists


def chunks(cases, n=32):
    """plain cases also run as histories (consecutive calls after one fresh load of the modules)"""
    return [cases[i:i + n] for i in range(0, len(cases), n)]


def run(ctx):
    ctx.extra["rule"] = RULE
    ctx.assumptions += [
        "int(sqrt(k)) equals the integer square root (true for k < 2^52 and for the exact squares generated above it)",
        "coordinates, sizes and roots are Python ints (unbounded); numpy is used only to index the 12x12 table",
        "the property is claimed for widths/heights >= 1 (local Ethernet chip), >= 0 (Ethernet list) and board "
        "counts that are non-negative multiples of 3; other inputs are compared with the model only"]
    rng = ctx.rng
    big_ = ctx.extended
    roots = [(0, 0)] + [rnd_root(rng) for _ in range(ctx.scale(3, 24) * (4 if big_ else 1))]
    sizes = [(12, 12), (12 * rng.randrange(2, 6), 12 * rng.randrange(2, 6))]
    if not ctx.quick:
        sizes += [(24, 12), (rng.randrange(13, 60), rng.randrange(13, 60))]
    cases = corpus_cases() + link_cases(ctx)
    cases += exhaustive_cells(ctx, roots, sizes)
    # half of the random cells / lists / board counts in other argument kinds and calling conventions
    rc = random_cells(ctx, ctx.scale(2000, 40000) * (4 if big_ else 1))
    rc += eth_cases(ctx, ctx.scale(300, 3000) * (4 if big_ else 1), ctx.scale(60, 96))
    rc += dims_cases(ctx, ctx.scale(400, 3000), ctx.scale(300, 5000) * (4 if big_ else 1))
    cases += [dress(rng, c) if i % 2 else c for i, c in enumerate(rc)]
    cases += board_cases(ctx, ctx.scale(20, 300) * (4 if big_ else 1))
    cases += [dress(rng, c) for c in bigint_cases(ctx, ctx.scale(60, 1000))]
    bc = boundary_cases(ctx, ctx.scale(1, 9), not ctx.quick)
    cases += [dress(rng, c) if i % 3 == 0 else c for i, c in enumerate(bc)]
    if not ctx.quick:
        cases += border_ring_256(ctx, 2)
    if not ctx.quick:
        # every width and height up to 48 (ragged and exact) with a few roots each
        for width in range(0, 49):
            for height in range(0, 49):
                for _ in range(2):
                    cases.append({"fn": "eth_coords", "width": width, "height": height,
                                  "rx": rng.randrange(24), "ry": rng.randrange(24)})
    hists = [h["calls"] if h.get("fn") == "history" else [h] for h in corpus_cases(True)]
    hists += chunks(cases) + [[c] for c in scale_cases(ctx)]
    hists += history_cases(ctx, ctx.scale(400, 6000) * (4 if big_ else 1))
    ctx.exhaustive = True   # the finite part (144 cells x 6 links, 48 board chips x 6 links) is enumerated completely
    batch, size = [], 0
    for h in hists:
        batch.append(h)
        size += len(h)
        if size >= 4000:
            eval_histories(ctx, batch)
            batch, size = [], 0
    eval_histories(ctx, batch)
    finish(ctx)


def replay(ctx, payload):
    ctx.extra["rule"] = RULE
    c = payload["case"]
    eval_histories(ctx, [c["calls"] if c.get("fn") == "history" else [c]])
    finish(ctx)


THEOREMS += ['gen_eth_coords', 'gen_std_dims']   # translator tie, second round (Props/C19Gen.lean)
