"""C02 - every placer returns a feasible, constraint-respecting placement or fails
with a documented error.

Correspondence of rig/place_and_route/place/{utils,sequential,rand,breadth_first,hilbert,rcm}.py
and sa/{algorithm,python_kernel}.py with the Lean model RigModel/Model/C02.lean (orders computed
by the wrappers, RNG draws and annealing proposals are recorded and handed to the model), and the
Lean specification `Feasible` (decidable form `checkPlacement`) evaluated on every placement any
placer returns - including the opaque C annealing kernel."""
import random as _random
from harness import c02_names
from harness import c02_variants
from harness import common

CLAIM = dict(
    text=("Machine-checked proof (Lean 4) over ALL vertex/resource dictionaries, machines (dead chips, resource "
          "exceptions), constraint lists, vertex orders, chip orders and RNG outcomes. SOUNDNESS: whatever the "
          "sequential placer (hence Hilbert, RCM, breadth-first for any order their order functions produce), the random "
          "placer and the annealer with the Python kernel return is Feasible (every vertex on exactly one working chip, "
          "demand + reservations <= capacity per chip and resource, location and same-chip constraints honoured) - "
          "proved through the same-chip merge, the constraint loop, the expansion of merged vertices and, for the "
          "annealer, a state invariant of _step/_get_candidate_swap/_swap/revert (free = capacity - load and >= 0 per "
          "chip and resource, fixed vertices unmoved, location->vertices lookup consistent) preserved for EVERY proposal "
          "(source vertex, destination chip, accept bit) and lifted over every proposal list, i.e. every RNG / "
          "temperature / cost outcome. ONLY DOCUMENTED ERRORS: under the documented domain the models of the sequential "
          "placer (default or permutation vertex order, every chip order), the random placer and the annealer (initial "
          "placement and every kernel run) fail only with InsufficientResourceError / InvalidConstraintError (the model's "
          "BadOracle marks an impossible sequence of RNG draws) - never KeyError/IndexError/ValueError. TERMINATION: the "
          "chip scan of the sequential placer never exceeds one round per vertex. COMPLETENESS under the unit-demand "
          "hypothesis: sequential placer (every vertex order / covering chip order), Hilbert placer (coverage "
          "discharged), random placer (every draw sequence), annealer (every shuffle, every proposal list). HILBERT: "
          "the model of hilbert.py's generator visits every point of the 2^L x 2^L square exactly once for EVERY "
          "level L, so hilbert_chip_order lists every chip of every w x h machine exactly once. The decidable oracle "
          "equals the specification. Tied to the code by exact correspondence (recorded vertex/chip orders, RNG draws, "
          "per-step annealing proposals replayed through the model of the Python kernel, hilbert() for levels 0..8 and "
          "the level/chip order for machine sizes up to 256, place/utils.py functions called directly) and by the Lean "
          "Feasible predicate run on every placement of every placer, both annealing kernels included; undocumented "
          "exceptions and failures under the unit-demand hypothesis are reported for every placer. TERMINATION OF THE "
          "ANNEALER (validated, not a theorem: float temperatures): every call runs under a CPU limit; problems with exactly "
          "0 / 1 / 2 movable vertices are annealed to their own end without a bounding callback; a call that does not return "
          "is reported as a violation (did-not-return) when the same call with the other kernel returns within the limit - "
          "the schedule multiplies the temperature by at most 0.95 per iteration and stops when the cost is 0 or the "
          "temperature is below 0.005 * cost / #nets, and the cost takes finitely many values, so it is finite for every "
          "finite starting temperature and both kernels are driven by the same schedule - and as a broken correspondence "
          "otherwise. CONTROL SKELETON OF THE TEMPERATURE SCHEDULE (new, Model/C02Sched.lean, Props/C02Sched.lean): the "
          "loop `while temperature > 0.005 * cost / len(nets)` of sa/algorithm.py is modelled with its float tests as "
          "oracle bits of each pass (loop test still true / current_cost == 0 / callback returned False) and the "
          "num_steps kernel steps of the pass as proposals of the proved kernel model; PROVED for every oracle stream: "
          "every pass performs exactly num_steps kernel steps (schedLoop_steps); if the loop test is reported false at "
          "pass N the loop ends within N passes and sa.place has made at most len(movable) + N * num_steps kernel steps "
          "(schedLoop_terminates_under_cooling, saPlace_terminates_under_cooling, schedLoop_stops_at_cooled); that "
          "hypothesis is NECESSARY - with an oracle that never reports cooled / zero cost / callback stop no run ever "
          "returns (schedLoop_needs_a_stop) and on a concrete two-vertex problem the loop runs out of EVERY fuel "
          "(schedLoop_diverges_without_cooling, kernel-checked); the scheduled run IS a run of saPlace on the "
          "concatenated proposals (schedLoop_flat, saPlaceSched_refines_saPlace), hence Feasible for every outcome of "
          "the float tests (saPlaceSched_sound). Tied to the code on every run: PythonKernel.run_steps and the callback "
          "are recorded, the passes are replayed through the model, and placement, number of passes, number of kernel "
          "steps and the reason for leaving the loop (cooled / zero cost / callback) must agree. In EXACT arithmetic the "
          "cooling hypothesis is a theorem (Props/C02SchedExact.lean): a non-negative rational temperature multiplied by a "
          "factor <= 19/20 per pass falls to or below every positive threshold (geometric_cools), so a schedule whose "
          "threshold stays above a positive number while the loop runs terminates (saPlace_terminates_exact_schedule); "
          "only the rounding of IEEE doubles separates this from the code."),
    design="3/C02",
    note=("NOT proved, only validated on every run: rig_c_sa (C annealing kernel) is an opaque binary, covered only by the "
          "Feasible oracle on its outputs (and by undocumented-exception / completeness reporting). In this module's correspondence "
          "the vertex orders computed by breadth_first_vertex_order / rcm and RCM's chip order are recorded and handed "
          "to the model of the sequential placer (the theorems hold for every order); the order functions themselves are "
          "modelled and proved in the companion C02Orders (permutation, coverage, termination). Float cost/temperature arithmetic of the annealer is abstracted to the recorded accept "
          "decision; termination of the temperature schedule is proved only UNDER THE HYPOTHESIS that the float loop "
          "test eventually fails (saPlace_terminates_under_cooling; the hypothesis is necessary: "
          "schedLoop_diverges_without_cooling) - that hypothesis is a property of IEEE double arithmetic (a finite "
          "positive temperature multiplied by a factor <= 0.95 per pass underflows to 0.0 within about 28400 passes, "
          "0.0 > x is false for x >= 0, NaN compares false; only temperature = +inf with a positive cost would keep the "
          "test true) and is part of the trusted base; termination of the `while dst == src` rejection sampling of _step "
          "holds only almost surely and is not proved. The float expression "
          "int(ceil(log(n, 2.0))) of hilbert_chip_order is modelled by the exact ceil-log2 and compared for n <= 256 "
          "(coverage holds for any level >= the exact one). Domain (theorem hypotheses WF / Consistent / InDomain / "
          "EmptyOK, applied to the generators): vertices_resources is a dict of non-negative demands for resources the "
          "machine has, chip resources non-negative; every resource exception (also one recorded for a dead chip) lists the "
          "machine's resources; per-chip reservations only on working chips; a same-chip group is pinned to at most one chip; "
          "constraints mention only known vertices; custom vertex orders are permutations of the vertices; with no "
          "vertex at all reservations must fit the chips (documented as undefined behaviour otherwise). The shuffles "
          "of the annealer are oracles assumed to be lists of working chips / of the movable vertices (permutations for "
          "completeness); annealing proposals are assumed to name placed vertices (a fixed source vertex or dst == src is "
          "rejected by the model as BadOracle)."),
    technique="Lean 4 theorems over a hand-written model + differential correspondence + Lean spec as oracle")

THEOREMS = ["seqPlace_sound", "randPlace_sound", "saPlace_initial_sound", "seqPlace_terminates",
            "seqPlace_complete_unit", "validPlacement_iff",
            "saStep_inv", "saRun_inv", "saStart_inv", "saPlace_sound",
            "seqPlace_documented", "randPlace_documented", "saPlace_initial_documented",
            "randPlace_complete_unit", "saPlace_initial_complete_unit",
            "hilbert_curve_exact", "hilbert_covers", "hilbertPlace_complete_unit",
            "saStep_documented", "saPlace_documented", "saPlace_complete_unit",
            "seqPlace_complete_unit_default",
            # Props/C02Sched.lean: control skeleton of the annealing temperature schedule
            "schedLoop_steps", "schedLoop_terminates_under_cooling", "schedLoop_stops_at_cooled",
            "saPlace_terminates_under_cooling", "schedLoop_needs_a_stop", "schedLoop_diverges_without_cooling",
            "schedLoop_flat", "saPlaceSched_refines_saPlace", "saPlaceSched_sound",
            # Props/C02SchedExact.lean: the cooling hypothesis holds in exact (rational) arithmetic
            "geometric_cools", "saPlace_terminates_exact_schedule"]

RULE = ("problems: 0-40 vertices (0-3 units of 1-3 resources, some needing nothing), random nets, machines 1x1..10x10 "
        "with dead chips (some made dead after construction) and per-chip resource exceptions drawn independently of them "
        "(exceptions on dead / outside chips, equal to the default, offering nothing) sized so that packing is tight, location constraints (also on "
        "dead/outside chips), same-chip groups (chained, duplicated members, singletons, location-constrained members), "
        "global and per-chip reservations, endpoint/alignment constraints; a unit-demand stream for the completeness "
        "clause; a small out-of-domain stream (correspondence only). Each problem is run through sequential (default and "
        "custom orders), breadth-first, Hilbert (both modes), RCM, random, annealing with the Python kernel (recorded "
        "step by step) and the C kernel. A case is non-trivial when at least one placer returned a placement of >= 2 "
        "vertices on a machine with >= 2 working chips and the problem has at least one constraint; 40 (thorough: 300) problems with exactly 0 / 1 / 2 movable vertices (all others location-constrained; nets between pinned vertices on different chips, between movable and pinned ones, self loops, zero weights; every effort incl. 0) whose anneals run to their own end without a bounding callback under a 20 s CPU limit; plus two (thorough: four) unplaceable chains of 300-1500 pairwise same-chip constraints; plus whole anneals (unbounded "
        "number of temperatures) of one net of weight 100 among a ring of nets of weight 0.01 on machines 8x8..12x12 "
        "(thorough: up to 24x24, 62 vertices)")

DOCUMENTED = ("InsufficientResourceError", "InvalidConstraintError")


# ---------------------------------------------------------------------------
# problem generation (pure JSON; python objects are built in `build`)
# ---------------------------------------------------------------------------

def gen_problem(rng, big=False, unit=False, ood=False):
    R = rng.choice([1, 1, 2, 3])
    if not unit and not ood and rng.random() < 0.03:
        R = 0                                   # a machine without any resource type
    w = rng.choice([1, 1, 2, 2, 3, 3, 4, 5, 6] + ([8, 10] if big else []))
    h = rng.choice([1, 2, 2, 3, 3, 4, 5] + ([7, 10] if big else []))
    n = rng.choice([0, 1, 2, 3, 4, 5, 6, 8, 10, 12, 15] + ([20, 30, 40] if big else []))
    allchips = [(x, y) for x in range(w) for y in range(h)]
    pd = rng.choice([0, 0, 0, 0.1, 0.3, 0.6, 1.0]) if not unit else rng.choice([0, 0.1, 0.3])
    dead = [c for c in allchips if rng.random() < pd]
    if unit and len(dead) == len(allchips):
        dead = dead[1:]
    if rng.random() < 0.15:
        dead.append((w + rng.randrange(3), rng.randrange(h + 2)))     # dead chip outside: harmless
    working = [c for c in allchips if c not in dead]
    tags = []
    # vertices
    r0 = rng.randrange(max(R, 1))
    vr = []
    for v in range(n):
        if unit:
            d = [0] * R
            d[r0] = rng.choice([0, 1, 1, 1])
            present = [True] * R if rng.random() < 0.5 else [i == r0 for i in range(R)]
            if d[r0] == 0 and rng.random() < 0.4:
                present = [False] * R           # a vertex needing nothing, written {}
        else:
            d = [rng.choice([0, 0, 1, 1, 1, 2, 3]) for _ in range(R)]
            present = [rng.random() < 0.8 for _ in range(R)]
            if rng.random() < 0.1:
                present = [False] * R
        vr.append([v, [d[i] if present[i] else 0 for i in range(R)], present])
    # capacities: total capacity = total demand x tightness factor, so that packing is tight
    f = rng.choice([0.8, 1.0, 1.2, 1.5, 2.0, 3.0])
    W = max(1, len(working))
    res = []
    for i in range(R):
        D = sum(d[i] for _, d, _ in vr)
        res.append(max(0, int(-(-D * f // W)) + rng.choice([0, 0, 0, 1, 1, 2, 3])))
    capmax = max(res + [0])
    # resource exceptions are drawn independently of the dead chips: a dead chip (also one outside the machine, also
    # one made dead after construction - a chip blacklisted after probing) may carry an exception entry; entries equal
    # to the default and entries offering nothing at all are included
    exc = []
    for c in allchips + [d for d in dead if d not in allchips]:
        if rng.random() < 0.25:
            k = rng.random()
            if k < 0.12:
                e = list(res)
            elif k < 0.22:
                e = [0] * R
            else:
                e = [max(0, res[i] + rng.choice([-2, -1, -1, 0, 1, 2])) for i in range(R)]
            exc.append([list(c), e])
    rng.shuffle(exc)
    dead_late = [c for c in dead if c in allchips and rng.random() < 0.3]
    # nets
    nets = []
    for _ in range(rng.choice([0, 1, 2, n, 2 * n]) if n else 0):
        src = rng.randrange(n)
        sinks = [rng.randrange(n) for _ in range(rng.choice([0, 1, 1, 2, 3]))]
        nets.append([src, sinks, rng.choice([0, 1, 1, 2, 0.5])])
    # constraints
    cs = []
    group = list(range(n))          # union-find over same-chip groups

    def find(a):
        while group[a] != a:
            a = group[a]
        return a
    if n and not unit:
        for _ in range(rng.choice([0, 0, 1, 2, 3])):
            k = rng.choice([0, 1, 2, 2, 3, 4])
            vs = [rng.randrange(n) for _ in range(k)]
            if rng.random() < 0.3 and vs:
                vs.append(vs[0])
            cs.append({"t": "same", "vs": vs})
            if len(vs) > 1:
                for a in vs[1:]:
                    group[find(a)] = find(vs[0])
    pinned = {}
    bad_loc = rng.random() < 0.08
    if n:
        for _ in range(rng.choice([0, 0, 1, 2, 3, n // 2])):
            v = rng.randrange(n)
            g = find(v)
            if unit and g in pinned:
                continue
            if g in pinned:
                c = pinned[g]
            else:
                r = rng.random() if bad_loc else 0.0
                if r < 0.6 and working:
                    c = rng.choice(working)
                elif r < 0.9 and dead:
                    c = rng.choice(dead)
                elif unit and working:
                    c = rng.choice(working)
                else:
                    c = (w + rng.randrange(2), rng.randrange(h + 1))
                pinned[g] = c
            cs.append({"t": "loc", "v": v, "c": list(c)})
    for _ in range(rng.choice([0, 0, 1, 2]) if R else 0):
        at = None
        if rng.random() < 0.5 and working:
            at = list(rng.choice(working))
        cs.append({"t": "res", "r": rng.randrange(R), "amt": rng.choice([0, 1, 1, 2]), "c": at})
    if n and rng.random() < 0.15:
        cs.append({"t": "ep", "v": rng.randrange(n)})
    if rng.random() < 0.1:
        cs.append({"t": "other"})
    rng.shuffle(cs)
    if ood:
        what = rng.choice(["res-dead", "inconsistent", "unknown-vertex"])
        if what == "res-dead" and dead:
            cs.insert(rng.randrange(len(cs) + 1), {"t": "res", "r": rng.randrange(R), "amt": 1, "c": list(dead[0])})
        elif what == "inconsistent" and n and len(working) >= 2:
            v = rng.randrange(n)
            a, b = rng.sample(working, 2)
            cs.append({"t": "loc", "v": v, "c": list(a)})
            cs.append({"t": "loc", "v": v, "c": list(b)})
        elif n:
            cs.insert(rng.randrange(len(cs) + 1), rng.choice([{"t": "loc", "v": n + 3, "c": [0, 0]},
                                                              {"t": "same", "vs": [0, n + 5]}]))
        tags.append("ood-" + what)
    prob = {"w": w, "h": h, "res": res, "exc": exc, "dead": [list(c) for c in dead],
            "dead_late": [list(c) for c in dead_late],
            "vr": vr, "nets": nets, "cs": cs, "ood": bool(ood), "unit": False}
    # custom orders for the sequential placer
    vo = list(range(n))
    rng.shuffle(vo)
    co = list(working)
    rng.shuffle(co)
    if not unit:
        r = rng.random()
        if r < 0.2 and co:
            co = co[:max(1, len(co) // 2)]
        elif r < 0.35 and co:
            co = co + [rng.choice(co)]
    extras = [list(c) for c in dead[:2]] + [[w + 1, 0]]
    for e in extras:
        co.insert(rng.randrange(len(co) + 1), tuple(e))
    # a good share of problems that cannot be placed at all, so that every placer's failure paths run (with
    # vertices named by arbitrary objects): the only acceptable outcomes remain the two documented errors
    if n and R and not unit and not ood and rng.random() < 0.22:
        twist = rng.choice(["too-few", "too-few", "oversized", "oversized", "group"])
        if twist == "too-few":
            k = rng.choice([2, 3, 100])
            prob["res"] = [x // k for x in res]
            prob["exc"] = [[c, [x // k for x in r]] for c, r in exc]
        elif twist == "oversized":
            v = rng.randrange(n)
            i = rng.randrange(R)
            top = max([res[i]] + [r[i] for _, r in exc])
            vr[v][1][i] = top + 1 + rng.randrange(3)
            vr[v][2][i] = True
        else:
            used = set()
            for c in cs:
                used.update(c.get("vs", []))
                if "v" in c:
                    used.add(c["v"])
            free = [v for v in range(n) if v not in used]
            if len(free) >= 2:
                g = rng.sample(free, min(len(free), rng.choice([2, 3, 4])))
                i = rng.randrange(R)
                top = max([res[i]] + [r[i] for _, r in exc])
                for v in g:
                    vr[v][1][i] = max(vr[v][1][i], top // len(g) + 1)
                    vr[v][2][i] = True
                cs.insert(rng.randrange(len(cs) + 1), {"t": "same", "vs": g})
        prob["twist"] = twist
    if R < 3:
        prob["foreign_zero"] = [v for v, d, _ in vr if not any(d) and rng.random() < 0.3]
    c02_names.draw(rng, prob)
    c02_variants.draw(rng, prob)
    prob["vo"] = vo
    prob["co"] = [list(c) for c in co]
    prob["seeds"] = [rng.randrange(2 ** 30) for _ in range(4)]
    prob["effort"] = rng.choice([0, 0.1, 1.0, 1.0])
    prob["max_temps"] = rng.choice([1, 2, 3, 6, None] if n <= 8 else [1, 2, 3])
    prob["hilbert_bf"] = rng.random() < 0.5
    prob["unit_r0"] = r0 if unit else None
    if unit:
        prob["unit"] = unit_ok(prob, r0)
    if n == 0 and overbooked(prob):
        # ReserveResourceConstraint documents reservations outside a chip's resources as undefined
        # behaviour; with vertices every placer rejects them, without vertices sequential/sa return {}
        prob["ood"] = True
    return prob


def overbooked(prob):
    dead = {tuple(c) for c in prob["dead"]}
    exc = {tuple(c): r for c, r in prob["exc"]}
    for x in range(prob["w"]):
        for y in range(prob["h"]):
            if (x, y) in dead:
                continue
            free = list(exc.get((x, y), prob["res"]))
            for c in prob["cs"]:
                if c["t"] == "res" and (c["c"] is None or tuple(c["c"]) == (x, y)):
                    free[c["r"]] -= c["amt"]
            if any(f < 0 for f in free):
                return True
    return False


def unit_ok(prob, r0):
    """the hypothesis of the completeness clause, computed independently of model and code"""
    if any(c["t"] == "same" for c in prob["cs"]):
        return False
    w, h = prob["w"], prob["h"]
    dead = {tuple(c) for c in prob["dead"]}
    working = [(x, y) for x in range(w) for y in range(h) if (x, y) not in dead]
    if not working:
        return False
    exc = {tuple(c): r for c, r in prob["exc"]}
    free = {c: list(exc.get(c, prob["res"])) for c in working}
    dem = {v: d for v, d, _ in prob["vr"]}
    for v, d, _ in prob["vr"]:
        if any(x not in (0, 1) for x in d) or any(d[i] for i in range(len(d)) if i != r0):
            return False
    fixed = set()
    dflt = list(prob["res"])
    for c in prob["cs"]:
        if c["t"] == "res":
            if c["c"] is None:
                # a global reservation is also charged to machine.chip_resources (the description of
                # every chip without an exception), whether or not a working chip uses it
                dflt[c["r"]] -= c["amt"]
            for ch in working:
                if c["c"] is None or tuple(c["c"]) == ch:
                    free[ch][c["r"]] -= c["amt"]
        elif c["t"] == "loc":
            ch = tuple(c["c"])
            if ch not in free or c["v"] in fixed:
                return False
            fixed.add(c["v"])
            for i, x in enumerate(dem[c["v"]]):
                free[ch][i] -= x
    if any(x < 0 for f in free.values() for x in f) or any(x < 0 for x in dflt):
        return False
    need = sum(d[r0] for v, d, _ in prob["vr"] if v not in fixed)
    return sum(f[r0] for f in free.values()) >= need


# ---------------------------------------------------------------------------
# python objects
# ---------------------------------------------------------------------------

def resources(prob=None):
    """the resource objects of a problem (rig's Cores/SDRAM/SRAM unless the problem names others)"""
    return c02_names.resources(prob)


def build(prob):
    from rig.place_and_route import Machine
    from rig.place_and_route.constraints import (LocationConstraint, SameChipConstraint,
                                                 ReserveResourceConstraint, RouteEndpointConstraint,
                                                 AlignResourceConstraint)
    from rig.routing_table import Routes
    from rig.netlist import Net
    import collections
    RES = resources(prob)
    nm = c02_names.Namer(prob)      # vertex index -> the object naming it (see c02_names)
    var = prob.get("var") or {}
    K = var.get("scale", 1)         # every resource quantity is multiplied by K (see c02_variants)
    kinds = c02_variants.Kinds(var.get("containers", 0))
    cls = c02_variants.classes() if kinds.seed else None
    R = len(prob["res"])
    RD = kinds.pick("resdict", ["odict", "dict", "mydict"])

    def mk(pairs):
        pairs = list(pairs)
        if RD == "odict":
            return collections.OrderedDict(pairs)
        return dict(pairs) if RD == "dict" else cls["dict"](pairs)
    dr = lambda l: mk((RES[i], l[i] * K) for i in range(R))
    # the key order of a resource dictionary carries no meaning: exceptions (and vertex demands) are
    # written in rotated key orders so that code relying on positional agreement is exposed
    def dr_rot(l, k):
        idx = [(i + k) % R for i in range(R)]
        return mk((RES[i], l[i] * K) for i in idx)
    from rig.links import Links
    M = cls["Machine"] if kinds.pick("machine", [0, 1]) else Machine
    machine = M(prob["w"], prob["h"], chip_resources=dr(prob["res"]),
                chip_resource_exceptions={tuple(c): dr_rot(r, c[0] + c[1] + 1) for c, r in prob["exc"]},
                dead_chips={tuple(c) for c in prob["dead"]} - {tuple(c) for c in prob.get("dead_late", [])},
                dead_links={(x, y, Links(l)) for x, y, l in prob.get("dead_links", [])})
    for c in prob.get("dead_late", []):
        machine.dead_chips.add(tuple(c))        # a chip found dead after the machine object was built
    VR = kinds.pick("vr", ["odict", "dict", "mydict", "myodict"])
    vr = {"odict": collections.OrderedDict, "dict": dict}[VR]() if VR in ("odict", "dict") else \
        cls["dict" if VR == "mydict" else "odict"]()
    fz = set(prob.get("foreign_zero", []))
    for v, d, present in prob["vr"]:
        rot = v % R if R else 0
        vr[nm.obj(v)] = {RES[i]: d[i] * K for i in [(j + rot) % R for j in range(R)] if present[i]}
        if v in fz and R < len(RES):
            vr[nm.obj(v)][RES[R]] = 0           # names only a resource the machine lacks, and needs none of it
    N = cls["Net"] if kinds.pick("net", [0, 1]) else Net
    nets = []
    for j, (s_, k, wt) in enumerate(prob["nets"]):
        if len(k) == 1 and kinds.pick("sink%d" % j, [0, 0, 1]):
            nets.append(N(nm.obj(s_), nm.obj(k[0]), wt))       # "sinks : list or vertex"
        else:
            nets.append(N(nm.obj(s_), [nm.obj(x) for x in k], wt))
    sub = lambda t, base: cls[t] if kinds.pick("cs-" + t, [0, 1]) else base
    cs = []
    for j, c in enumerate(prob["cs"]):
        if c["t"] == "loc":
            cs.append(sub("loc", LocationConstraint)(nm.obj(c["v"]), tuple(c["c"])))
        elif c["t"] == "same":
            vs = [nm.obj(v) for v in c["vs"]]
            cs.append(sub("same", SameChipConstraint)(tuple(vs) if kinds.pick("same%d" % j, [0, 1]) else vs))
        elif c["t"] == "res":
            cs.append(sub("res", ReserveResourceConstraint)(RES[c["r"]], slice(3, 3 + c["amt"] * K),
                                                            None if c["c"] is None else tuple(c["c"])))
        elif c["t"] == "ep":
            cs.append(sub("ep", RouteEndpointConstraint)(nm.obj(c["v"]), Routes.north))
        else:
            cs.append(sub("align", AlignResourceConstraint)(RES[0], 4))
    return vr, nets, machine, cs


def lean_problem(prob):
    K = c02_variants.scale_of(prob)
    sc = lambda l: [x * K for x in l]
    return {"w": prob["w"], "h": prob["h"], "res": sc(prob["res"]), "exc": [[c, sc(r)] for c, r in prob["exc"]],
            "dead": prob["dead"], "vr": [[v, sc(d)] for v, d, _ in prob["vr"]],
            "cs": [dict(c, amt=c["amt"] * K) if c["t"] == "res" else c for c in prob["cs"]]}


class RecRandom(object):
    """delegating recorder around random.Random (only the methods rig calls)"""

    def __init__(self, seed):
        self.inner = _random.Random(seed)
        self.log = []

    def sample(self, population, k):
        r = self.inner.sample(population, k)
        self.log.append(("sample", r))
        return r

    def shuffle(self, x):
        self.inner.shuffle(x)
        self.log.append(("shuffle", list(x)))

    def choice(self, seq):
        r = self.inner.choice(seq)
        self.log.append(("choice", r))
        return r

    def randint(self, a, b):
        r = self.inner.randint(a, b)
        self.log.append(("randint", r))
        return r

    def random(self):
        r = self.inner.random()
        self.log.append(("random", r))
        return r

    def getrandbits(self, k):
        return self.inner.getrandbits(k)


_HANGS = [0]


def outcome(fn, limit=None):
    """run a placer; -> {"ok": placement dict} | {"err": name}.  A call that is still running after `limit`
    seconds of CPU time (default 10 s - a call takes milliseconds; at most 2 s once that has happened 4 times in
    this run, 0.5 s after 12 times) is recorded as {"err": "DidNotReturn"}"""
    lim = limit or 10
    if _HANGS[0] >= 4:              # after a few hangs the run is kept short
        lim = min(lim, 2 if _HANGS[0] < 12 else 0.5)
    try:
        with common.cpu_limit(lim):
            return {"ok": fn()}
    except common.ImplHang as e:
        _HANGS[0] += 1
        return {"err": "DidNotReturn", "msg": str(e)}
    except Exception as e:      # noqa - every exception type is part of the observation
        try:
            msg = str(e)[:200]
        except Exception:       # noqa - an exception whose text cannot be rendered is still identified by its type
            msg = "<message not printable>"
        return {"err": type(e).__name__, "msg": msg}


# the models of these placers are total functions proved never to run out of fuel (seqPlace_terminates; randLoop and
# the constraint handling are structurally recursive): an implementation call that does not return is a violation.
# The temperature schedule of the annealer terminates only under a hypothesis on float arithmetic
# (saPlace_terminates_under_cooling): there it is a broken correspondence.
TERMINATING = ("sequential", "sequential-custom", "breadth_first", "hilbert", "rcm", "rand")


def sa_twin(prob, name, limit):
    """the same annealing call (fresh objects, same seed, no callback) with the OTHER kernel -> outcome or None"""
    import time
    from rig.place_and_route.place.sa import algorithm as sa_alg
    from rig.place_and_route.place.sa import python_kernel
    try:
        from rig.place_and_route.place.sa.c_kernel import CKernel
    except ImportError:
        return None
    if c02_variants.too_big_for_c(prob):
        return None
    vr, nets, machine, cs = build(prob)
    kernel, kk = (CKernel, {}) if name.startswith("sa-python") else (python_kernel.PythonKernel, {"no_warn": True})
    seed = prob["seeds"][1 if name.startswith("sa-python") else 2]
    t0 = time.process_time()
    out = outcome(lambda: sa_alg.place(vr, nets, machine, cs, effort=prob["effort"], random=_random.Random(seed),
                                       kernel=kernel, kernel_kwargs=kk), limit)
    out["cpu"] = time.process_time() - t0
    return out


def hang_verdict_reached(ctx, hangs=None):
    """True once many implementation calls of this run did not return AND a did-not-return violation has been
    recorded: the verdict is established, and every further hanging call costs its CPU limit - the remaining
    problems of the stream are skipped so that the run ends with its verdict instead of a timeout."""
    n = _HANGS[0] if hangs is None else hangs
    if n >= 30 and any(k == "did-not-return" for k, _, _ in ctx.concrete):
        ctx.tag("stream-cut-short-after-hangs")
        return True
    return False


def did_not_return(ctx, name, impl, case, prob=None):
    """A call that does not return.  Sequential family / random placer: the model terminates on every input
    (theorems) - violation.  Annealer: its schedule is finite for every finite starting temperature (each
    iteration multiplies the temperature by at most 0.95, the loop ends when the cost is 0 or the temperature is
    below 0.005 * cost / #nets, and the cost takes finitely many values, so a positive minimum) - the property's
    'always terminates' is judged concretely: the call is a violation when the SAME call without any callback with
    the OTHER kernel returns within the same CPU limit (the two kernels implement one interface and one schedule
    drives them); otherwise it stays a broken correspondence."""
    what = "%s did not return: %s" % (name, impl.get("msg"))
    if name in TERMINATING:
        ctx.violation("did-not-return", what + " (the model of this placer terminates on every input)", case)
        return
    twin = sa_twin(prob, name, 20) if prob is not None and name in ("sa-python", "sa-c") else None
    if twin is not None and twin.get("err") != "DidNotReturn":
        ctx.violation("did-not-return", "%s; the same call (same problem, same seed, no callback) with the other annealing "
                      "kernel returns after %.2f s of CPU time (%s); the annealing schedule is finite for every finite "
                      "temperature and cost sequence" % (what, twin["cpu"], "a placement" if "ok" in twin else twin["err"]),
                      case)
    else:
        ctx.mismatch("c02.did-not-return", what, case)


def enc_vertex(v, merged=None):
    if merged is not None and id(v) in merged:
        return {"m": merged[id(v)]}
    i = c02_names.index_of(v)
    if i is not None:
        return i
    return {"m": 99999}


def enc_placement(p, merged=None):
    """canonical placement: sorted list of [vertex, [x, y]]; None if not even well-typed"""
    out = []
    for v, c in p.items():
        try:
            x, y = c
            if not (isinstance(x, int) and isinstance(y, int)) or x < 0 or y < 0:
                return None
        except Exception:
            return None
        out.append([enc_vertex(v, merged), [x, y]])
    return sorted(out, key=lambda e: (isinstance(e[0], dict), e[0]["m"] if isinstance(e[0], dict) else e[0]))


def canon_model(r):
    if "ok" in r and isinstance(r["ok"], list):
        return {"ok": sorted(r["ok"], key=lambda e: (isinstance(e[0], dict), e[0]["m"] if isinstance(e[0], dict) else e[0]))}
    return r


def nonneg_chips(chips):
    return [[c[0], c[1]] for c in chips if c[0] >= 0 and c[1] >= 0]


# ---------------------------------------------------------------------------
# the control skeleton of the annealing schedule (Model/C02Sched.lean)
# ---------------------------------------------------------------------------

SCHED_MAX_STEPS = 3000


def schedule_request(base, locs, vs, steps, passes, cb_rets, has_cb):
    """The run of sa.place as the model of its control skeleton sees it: the first run_steps call is the warm-up,
    every later one is a pass through `while temperature > ...` whose float tests are handed over as oracle bits
    (the loop test was true; `current_cost == 0`; the callback returned False).  -> {"req", "expect"} or None when
    the recording is not usable (too long for the quick tier, or a `_step` call without an RNG draw)."""
    if not passes or len(steps) > SCHED_MAX_STEPS:
        return None
    if any(ps["b"] - ps["a"] != ps["num"] or ps["raw"] != ps["num"] for ps in passes):
        return None
    enc = lambda ss: [{"src": s_["src"], "dst": s_["dst"], "accept": s_["accept"]} for s_ in ss]
    loop = passes[1:]
    ticks, why = [], "cooled"
    for k, ps in enumerate(loop):
        zero = bool(ps["cost"] == 0)
        stop = bool((not zero) and has_cb and k < len(cb_rets) and cb_rets[k] is False)
        ticks.append({"hot": True, "steps": enc(steps[ps["a"]:ps["b"]]), "zero": zero, "stop": stop})
        if k == len(loop) - 1:
            why = "zero-cost" if zero else ("callback" if stop else "cooled")
    num = loop[0]["num"] if loop else 1
    if any(ps["num"] != num for ps in loop):
        return None
    req = dict(base, suite="c02sched", op="sched", locs=locs, vs=vs, warm=enc(steps[passes[0]["a"]:passes[0]["b"]]),
               num_steps=num, ticks=ticks, fuel=len(loop))
    return {"req": req, "expect": {"iterations": len(loop), "kernel_steps": len(steps), "why": why}}


# ---------------------------------------------------------------------------
# running every placer on one problem
# ---------------------------------------------------------------------------

def run_placers(prob):
    """-> list of runs: {placer, impl: outcome, req: lean request or None, extra}"""
    from rig.place_and_route.place import sequential, breadth_first, hilbert, rcm, rand
    from rig.place_and_route.place.sa import algorithm as sa_alg
    from rig.place_and_route.place.sa import python_kernel
    base = lean_problem(prob)
    runs = []
    call = c02_variants.Kinds((prob.get("var") or {}).get("calling", 0))   # calling conventions of this problem
    conv = []

    def add(name, impl, req, **extra):
        runs.append(dict(placer=name, impl=impl, req=req, conventions=list(conv), **extra))
        del conv[:]

    # sequential, default orders
    vr, nets, machine, cs = build(prob)
    add("sequential", outcome(lambda: sequential.place(vr, nets, machine, cs)),
        dict(base, op="seq", vo=None, co=None))
    # sequential, custom orders
    vr, nets, machine, cs = build(prob)
    co = [tuple(c) for c in prob["co"]]
    keys = list(vr)
    k1, vo_arg = c02_variants.vertex_order(call, "seq-vo", [keys[v] for v in prob["vo"]])
    k2, co_arg = c02_variants.chip_order(call, "seq-co", co)
    conv.extend(["vertex_order:" + k1, "chip_order:" + k2])
    if call.pick("seq-kw", [0, 1]):
        conv.append("keyword")
        add("sequential-custom", outcome(lambda: sequential.place(vr, nets, machine, cs, chip_order=co_arg,
                                                                  vertex_order=vo_arg)),
            dict(base, op="seq", vo=prob["vo"], co=prob["co"]))
    else:
        add("sequential-custom", outcome(lambda: sequential.place(vr, nets, machine, cs, vo_arg, co_arg)),
            dict(base, op="seq", vo=prob["vo"], co=prob["co"]))

    # wrappers: capture what they hand to the sequential placer
    def wrapped(mod, call):
        real = mod.sequential_place
        cap = []

        def rec(vr_, nets_, machine_, cs_, vertex_order=None, chip_order=None):
            vo = None if vertex_order is None else list(vertex_order)
            co_ = None if chip_order is None else list(chip_order)
            cap.append((vo, co_))
            return real(vr_, nets_, machine_, cs_, vo, co_)
        mod.sequential_place = rec
        try:
            out = outcome(call)
        finally:
            mod.sequential_place = real
        return out, cap

    for name, mod, kw in (("breadth_first", breadth_first, {}),
                          ("hilbert", hilbert, {"breadth_first": prob["hilbert_bf"]}),
                          ("rcm", rcm, {})):
        vr, nets, machine, cs = build(prob)
        if name == "breadth_first" and call.pick("bf-co", [0, 0, 1]):
            k2, co_arg = c02_variants.chip_order(call, "bf-co-kind", co)
            kw = {"chip_order": co_arg}
            conv.append("chip_order:" + k2)
        if name == "hilbert" and call.pick("hil-pos", [0, 1]):
            conv.append("positional")
            out, cap = wrapped(mod, lambda: mod.place(vr, nets, machine, cs, prob["hilbert_bf"]))
        else:
            out, cap = wrapped(mod, lambda: mod.place(vr, nets, machine, cs, **kw))
        req = None
        if len(cap) == 1:
            vo, co_ = cap[0]
            vo = None if vo is None else [c02_names.index_of(v) for v in vo]
            ok_vo = vo is None or all(v is not None for v in vo)
            if ok_vo:
                req = dict(base, op="seq", vo=vo, co=None if co_ is None else nonneg_chips(co_))
        add(name, out, req, captured=len(cap),
            chip_order=(cap[0][1] if (name == "hilbert" and len(cap) == 1) else None))

    # random placer
    vr, nets, machine, cs = build(prob)
    rr = RecRandom(prob["seeds"][0])
    how = call.pick("rand", ["positional", "keyword", "default-random"])
    conv.append("random:" + how)
    if how == "positional":
        out = outcome(lambda: rand.place(vr, nets, machine, cs, rr))
    elif how == "keyword":
        out = outcome(lambda: rand.place(vr, nets, machine, cs, random=rr))
    else:
        with c02_variants.patched_random(rr):       # the default RNG is the `random` module itself
            out = outcome(lambda: rand.place(vr, nets, machine, cs))
    picks = [list(r[0]) for k, r in rr.log if k == "sample"]
    add("rand", out, dict(base, op="rand", picks=picks))

    # annealing, python kernel, step by step
    vr, nets, machine, cs = build(prob)
    rr = RecRandom(prob["seeds"][1])
    merged = {}
    keep = []
    real_same = sa_alg.apply_same_chip_constraints
    real_step = python_kernel._step
    steps = []
    used = []

    def rec_same(*a):
        r = real_same(*a)
        for k, mv in enumerate(r[3]):
            merged[id(mv)] = k
            keep.append(mv)
        return r

    def rec_step(*a):
        n0 = len(rr.log)
        raw_steps[0] += 1
        machine_, wrap = a[8], a[9]
        swapped, delta = real_step(*a)
        ev = rr.log[n0:]
        if not ev:
            return swapped, delta
        src = [r for k, r in ev if k == "choice"][0]
        ri = [r for k, r in ev if k == "randint"]
        x, y = ri[-2], ri[-1]
        if wrap:
            x, y = x % machine_.width, y % machine_.height
        asked = any(k == "random" for k, r in ev)
        steps.append({"src": enc_vertex(src, merged), "dst": [x, y], "accept": bool(swapped),
                      "feasible": bool(swapped or asked)})
        return swapped, delta

    passes = []          # one record per run_steps call: the control skeleton of the temperature schedule
    raw_steps = [0]
    cb_rets = []

    class K(python_kernel.PythonKernel):
        def __init__(self, *a, **k):
            used.append(1)
            python_kernel.PythonKernel.__init__(self, *a, **k)

        def run_steps(self, num_steps, distance_limit, temperature):
            a0, r0 = len(steps), raw_steps[0]
            ret = python_kernel.PythonKernel.run_steps(self, num_steps, distance_limit, temperature)
            passes.append({"num": num_steps, "a": a0, "b": len(steps), "raw": raw_steps[0] - r0, "cost": ret[1]})
            return ret

    temps = [0]

    def on_temp(*a):
        temps[0] += 1
        if prob["max_temps"] is not None and temps[0] >= prob["max_temps"]:
            return False

    def recording(cb_):
        if cb_ is None:
            return None

        def rec_cb(*a):
            ret = cb_(*a)
            cb_rets.append(ret)
            return ret
        return rec_cb

    sa_alg.apply_same_chip_constraints = rec_same
    python_kernel._step = rec_step
    try:
        how = call.pick("sa", ["keyword", "positional", "default-random", "default-place"])
        cb = on_temp
        if prob.get("unbounded"):
            # the anneal runs to its own end (a callback that never asks to stop, or none at all)
            cb = None if prob["seeds"][3] % 2 else (lambda *a: None)
            conv.append("anneal-unbounded")
        elif prob["max_temps"] is None and len(prob["vr"]) <= 6 and call.pick("sa-cb", [0, 1]):
            cb = None                               # no callback at all: the anneal runs to its own end
            conv.append("on_temperature_change=None")
        conv.append("sa:" + how)
        cb = recording(cb)
        lim = 120 if prob["max_temps"] is None else 30
        if prob.get("unbounded"):
            lim = 20
        if how == "keyword":
            out = outcome(lambda: sa_alg.place(vr, nets, machine, cs, effort=prob["effort"], random=rr,
                                               on_temperature_change=cb, kernel=K,
                                               kernel_kwargs={"no_warn": True}), lim)
        elif how == "positional":
            out = outcome(lambda: sa_alg.place(vr, nets, machine, cs, prob["effort"], rr, cb, K, {"no_warn": True}), lim)
        elif how == "default-random":
            with c02_variants.patched_random(rr):
                out = outcome(lambda: sa_alg.place(vr, nets, machine, cs, effort=prob["effort"],
                                                   on_temperature_change=cb, kernel=K,
                                                   kernel_kwargs={"no_warn": True}), lim)
        else:
            import rig.place_and_route as pr        # the default placer of the package is this function
            entry = pr.place if pr.place.__module__ == sa_alg.__name__ and \
                getattr(pr.place, "__code__", None) is sa_alg.place.__code__ else sa_alg.place
            out = outcome(lambda: entry(vr, nets, machine, cs, effort=prob["effort"], random=rr,
                                        on_temperature_change=cb, kernel=K, kernel_kwargs={"no_warn": True}), lim)
    finally:
        sa_alg.apply_same_chip_constraints = real_same
        python_kernel._step = real_step
    shuffles = [r for k, r in rr.log if k == "shuffle"]
    locs = [list(c) for c in shuffles[0]] if len(shuffles) >= 1 else []
    vs = [enc_vertex(v, merged) for v in shuffles[1]] if len(shuffles) >= 2 else []
    add("sa-python", out,
        dict(base, op="sa", locs=locs, vs=vs,
             steps=[{"src": s["src"], "dst": s["dst"], "accept": s["accept"]} for s in steps] if used else None),
        feasible=[s["feasible"] for s in steps], kernel_used=bool(used), n_steps=len(steps),
        sched=schedule_request(base, locs, vs, steps, passes, cb_rets, cb is not None) if (used and "ok" in out) else None)

    # annealing, C kernel: opaque, oracle only (initial placement part is the same code as above)
    try:
        from rig.place_and_route.place.sa.c_kernel import CKernel
    except ImportError:
        CKernel = None
    if CKernel is not None and not c02_variants.too_big_for_c(prob):
        vr, nets, machine, cs = build(prob)
        rr = RecRandom(prob["seeds"][2])
        t2 = [0]

        def on_temp2(*a):
            t2[0] += 1
            if t2[0] >= 4:
                return False
        if prob.get("unbounded"):
            on_temp2 = None if prob["seeds"][3] % 2 == 0 else (lambda *a: None)
        from rig.place_and_route.place import sa as sa_pkg
        how = call.pick("sa-c", ["keyword", "default-kernel", "positional"])
        if how == "default-kernel" and sa_alg.place.__defaults__[3] is not CKernel:
            how = "keyword"
        conv.append("sa-c:" + how)
        if how == "keyword":
            add("sa-c", outcome(lambda: sa_alg.place(vr, nets, machine, cs, effort=prob["effort"], random=rr,
                                                     on_temperature_change=on_temp2, kernel=CKernel), 20 if prob.get("unbounded") else 30), None)
        elif how == "default-kernel":
            add("sa-c", outcome(lambda: sa_pkg.place(vr, nets, machine, cs, effort=prob["effort"], random=rr,
                                                     on_temperature_change=on_temp2), 20 if prob.get("unbounded") else 30), None)
        else:
            add("sa-c", outcome(lambda: sa_alg.place(vr, nets, machine, cs, prob["effort"], rr, on_temp2, CKernel, {}),
                                30), None)
    return runs


def utils_requests(prob):
    """direct correspondence of place/utils.py functions -> list of (name, impl_value, request)"""
    from rig.place_and_route.place import utils
    from rig.place_and_route.constraints import (LocationConstraint, SameChipConstraint,
                                                 ReserveResourceConstraint, RouteEndpointConstraint)
    RES = resources(prob)
    R = len(prob["res"])
    base = lean_problem(prob)
    out = []
    vr, nets, machine, cs = build(prob)
    vr_before = dict(vr)
    try:
        vr2, nets2, cs2, subs = utils.apply_same_chip_constraints(vr, nets, cs)
        merged = {id(mv): k for k, mv in enumerate(subs)}
        ev = lambda v: enc_vertex(v, merged)
        ccs = []
        for c in cs2:
            if isinstance(c, LocationConstraint):
                ccs.append({"t": "loc", "v": ev(c.vertex), "c": list(c.location)})
            elif isinstance(c, SameChipConstraint):
                ccs.append({"t": "same", "vs": [ev(v) for v in c.vertices]})
            elif isinstance(c, ReserveResourceConstraint):
                ccs.append({"t": "res", "r": RES.index(c.resource), "amt": c.reservation.stop - c.reservation.start,
                            "c": None if c.location is None else list(c.location)})
            elif isinstance(c, RouteEndpointConstraint):
                ccs.append({"t": "ep", "v": ev(c.vertex)})
            else:
                ccs.append({"t": "other"})
        val = {"ok": {"vr": [[ev(v), [d.get(RES[i], 0) for i in range(R)]] for v, d in vr2.items()],
                      "cs": ccs, "subs": [[ev(v) for v in mv.vertices] for mv in subs]}}
        # finalise on a synthetic placement of the merged problem
        pl = {v: (i % 3, i // 3) for i, v in enumerate(vr2)}
        enc_before = enc_placement(pl, merged)
        try:
            utils.finalise_same_chip_constraints(subs, pl)
            fin = {"ok": enc_placement(pl, merged)}
        except Exception as e:   # noqa
            fin = {"err": type(e).__name__}
        out.append(("utils.finalise", fin, dict(base, op="finalise", subs=val["ok"]["subs"], p=enc_before)))
        # arguments not modified
        if dict(vr) != vr_before:
            val = {"err": "modified-arguments"}
    except Exception as e:   # noqa
        val = {"err": type(e).__name__}
    out.append(("utils.apply_same_chip", val, dict(base, op="same")))
    # every reserve constraint alone, on a copy of the machine
    for c, cj in zip(cs, base["cs"]):
        if cj["t"] != "res":
            continue
        m2 = machine.copy()
        try:
            utils.apply_reserve_resource_constraint(m2, c)
            val = {"ok": {"res": [m2.chip_resources[RES[i]] for i in range(R)],
                          "exc": sorted([[list(k), [v[RES[i]] for i in range(R)]]
                                         for k, v in m2.chip_resource_exceptions.items()]),
                          "p": []}}
        except Exception as e:   # noqa
            val = {"err": type(e).__name__}
        out.append(("utils.apply_reserve", val, dict(base, op="prep", cs=[cj])))
    return out


# ---------------------------------------------------------------------------
# evaluation
# ---------------------------------------------------------------------------

def eval_problems(ctx, probs):
    reqs, slots = [], []
    work = []
    for prob in probs:
        runs = run_placers(prob)
        ut = utils_requests(prob)
        work.append((prob, runs, ut))
        base = lean_problem(prob)
        for r in runs:
            if r["req"] is not None:
                reqs.append(dict(r["req"], suite="c02"))
                slots.append((r, "model"))
            if r.get("chip_order") is not None:
                reqs.append(dict(base, suite="c02", op="hilbert", level=None))
                slots.append((r, "hil"))
            if r.get("sched") is not None:
                reqs.append(r["sched"]["req"])
                slots.append((r, "sched_model"))
            if "ok" in r["impl"]:
                enc = enc_placement(r["impl"]["ok"])
                r["enc"] = enc
                if enc is not None:
                    reqs.append(dict(base, suite="c02", op="valid", p=enc))
                    slots.append((r, "valid"))
        for u in ut:
            reqs.append(dict(u[2], suite="c02"))
            slots.append((u, "utils"))
    replies = ctx.lean(reqs)
    umodel = {}
    for (obj, what), rep in zip(slots, replies):
        if what == "utils":
            umodel[id(obj)] = rep
        else:
            obj[what] = rep
    for prob, runs, ut in work:
        # the hypothesis of the completeness clause is recomputed (replays of older cases included)
        prob["unit"] = prob.get("unit_r0") is not None and unit_ok(prob, prob["unit_r0"])
        desc = {k: prob[k] for k in prob}
        nontriv = False
        n_work = prob["w"] * prob["h"] - len({tuple(c) for c in prob["dead"] if c[0] < prob["w"] and c[1] < prob["h"]})
        for r in runs:
            name = r["placer"]
            impl = r["impl"]
            case = {"problem": desc, "placer": name}
            ctx.traces += 1
            for c in r.get("conventions", []):
                ctx.tag("call:%s:%s" % (name, c))
            # --- property oracle on the implementation's own outcome
            if "ok" in impl:
                ctx.tag(name + ":placed")
                if r.get("enc") is None:
                    if not prob["ood"]:
                        ctx.violation("infeasible-placement-" + name,
                                      "%s returned a placement with a non-chip value: %r" % (name, impl["ok"]), case)
                elif not r["valid"].get("valid"):
                    if not prob["ood"]:
                        ctx.violation("infeasible-placement-" + name,
                                      "%s returned an infeasible placement (%s): %r" % (
                                          name, r["valid"].get("why"), r["enc"]), case)
                if len(impl["ok"]) >= 2 and n_work >= 2 and prob["cs"]:
                    nontriv = True
            else:
                ctx.tag(name + ":" + impl["err"])
                if impl["err"] == "DidNotReturn":
                    did_not_return(ctx, name, impl, case, prob)
                elif impl["err"] not in DOCUMENTED:
                    if not prob["ood"]:
                        ctx.violation("%s-raises-%s" % (name, impl["err"]),
                                      "%s raised %s (%s); only InsufficientResourceError and "
                                      "InvalidConstraintError are documented" % (name, impl["err"], impl.get("msg")), case)
                elif prob["unit"] and not prob["ood"]:
                    ctx.violation("incomplete-" + name,
                                  "%s raised %s although every vertex needs at most one unit of one resource, there are "
                                  "no same-chip groups, fixed vertices fit and the capacity suffices" % (name, impl["err"]),
                                  case)
            # --- correspondence with the model
            if r.get("chip_order") is not None:
                ctx.traces += 1
                if [list(c) for c in r["chip_order"]] != r["hil"].get("order"):
                    ctx.mismatch("c02.hilbert-order", "chip order handed to sequential_place: %r..., model: %r..." % (
                        r["chip_order"][:8], str(r["hil"])[:100]), case)
            if r["req"] is not None:
                model = r["model"]
                if name == "sa-python":
                    mi = {"ok": r["enc"]} if "ok" in impl else {"err": impl["err"]}
                    if "ok" in model:
                        mm = {"ok": canon_model({"ok": model["ok"]["p"]})["ok"]}
                        if r["kernel_used"] and model["ok"]["feasible"] != r["feasible"]:
                            ctx.mismatch("c02.sa-steps", "per-step feasibility differs: impl=%r model=%r" % (
                                r["feasible"][:40], model["ok"]["feasible"][:40]), case)
                    else:
                        mm = model
                    if r["kernel_used"]:
                        ctx.tag("sa-python:kernel-steps>0" if r["n_steps"] else "sa-python:kernel-no-steps")
                    if r.get("sched") is not None:
                        # the control skeleton of the temperature schedule: same placement, same number of passes
                        # and kernel steps, same reason for leaving the loop
                        ctx.traces += 1
                        sm, ex = r["sched_model"], r["sched"]["expect"]
                        got = None
                        if "ok" in sm:
                            got = {k: sm["ok"][k] for k in ("iterations", "kernel_steps", "why")}
                            if canon_model({"ok": sm["ok"]["p"]})["ok"] != mi.get("ok"):
                                got = dict(got, placement="differs")
                        if got != ex:
                            ctx.mismatch("c02sched.schedule", "temperature schedule: impl=%r model=%r" % (
                                ex, got if got is not None else sm), case)
                        ctx.tag("sa-schedule:ended-" + ex["why"])
                        ctx.tag("sa-schedule:passes-" + ("0" if ex["iterations"] == 0 else
                                                         "1" if ex["iterations"] == 1 else ">=2"))
                    elif r["kernel_used"] and "ok" in impl:
                        ctx.tag("sa-schedule:not-replayed")
                else:
                    mi = {"ok": r["enc"]} if "ok" in impl else {"err": impl["err"]}
                    mm = canon_model(model)
                if mi != mm:
                    ctx.mismatch("c02." + name, "impl=%r model=%r" % (mi, mm), case)
            elif name not in ("sa-c",):
                ctx.mismatch("c02." + name, "the wrapper did not call sequential_place exactly once with "
                             "vertex orders over the caller's vertices (calls: %r)" % (r.get("captured"),), case)
        for u in ut:
            name, val, _ = u
            mm = umodel[id(u)]
            if name == "utils.apply_reserve" and "ok" in mm:
                mm = {"ok": dict(mm["ok"], exc=sorted(mm["ok"]["exc"]))}
            if name == "utils.finalise":
                mm = canon_model(mm)
            ctx.traces += 1
            if val != mm:
                ctx.mismatch("c02." + name, "impl=%r model=%r" % (val, mm), {"problem": desc, "placer": name})
        if prob["unit"]:
            ctx.tag("unit-hypothesis")
        if prob["ood"]:
            ctx.tag("out-of-domain")
        if prob.get("twist"):
            ctx.tag("infeasible-twist:" + prob["twist"])
        var = prob.get("var") or {}
        if var.get("scale", 1) != 1:
            ctx.tag("scale:2**%d" % (var["scale"].bit_length() - 1))
            if c02_variants.too_big_for_c(prob):
                ctx.tag("sa-c:not-run-quantities>=2**31")
        ctx.tag("links:" + var.get("links", "none"), "containers:" + ("varied" if var.get("containers") else "plain"))
        if not prob["res"]:
            ctx.tag("no-resource-types")
        ctx.tag("names:%s" % (prob.get("names") or "plain"), "res-names:%s" % (prob.get("res_names") or "rig"))
        ctx.case(desc, nontriv)


def hilbert_checks(ctx):
    """correspondence of hilbert.py's generator / level computation with the Lean model (the object of
    the coverage theorems): `hilbert(level)` for levels 0..8, the level chosen for every machine size up to
    256, the chip order handed to the sequential placer for a range of machine shapes"""
    from rig.place_and_route.place.hilbert import hilbert, hilbert_chip_order
    from rig.place_and_route import Machine
    base = {"suite": "c02", "vr": [], "cs": [], "w": 1, "h": 1, "res": [], "exc": [], "dead": []}
    reqs, exp = [], []
    for level in range(0, 9):
        reqs.append(dict(base, op="hilbert", level=level))
        exp.append(("hilbert(%d)" % level, [list(q) for q in hilbert(level)]))
    for d in range(0, 257):
        for w, h in ((d, 1), (1, d), (d, d)):
            it = hilbert_chip_order(Machine(w, h))
            first = list(zip(range(3), it))      # the generator is lazy: only its first points are drawn
            n = sum(1 for _ in it) + len(first) if d <= 16 else None
            reqs.append(dict(base, op="hilbert_level", w=w, h=h))
            exp.append(("level(%d,%d)" % (w, h), None if n is None else n))
    shapes = [(w, h) for w in range(0, 10) for h in range(0, 10)] + [(16, 3), (17, 2), (5, 31), (32, 32), (33, 1)]
    for w, h in shapes:
        reqs.append(dict(base, op="hilbert", level=None, w=w, h=h))
        exp.append(("order(%d,%d)" % (w, h), [list(q) for q in hilbert_chip_order(Machine(w, h))]))
    replies = ctx.lean(reqs)
    import math
    for (name, want), req, got in zip(exp, reqs, replies):
        ctx.traces += 1
        if name.startswith("level"):
            md = max(req["w"], req["h"])
            lv = int(math.ceil(math.log(md, 2.0))) if md >= 1 else 0     # the expression of hilbert_chip_order
            if want is not None and want != 4 ** lv:
                ctx.mismatch("c02.hilbert-level", "%s: hilbert_chip_order yields %d points, level %d expected"
                             % (name, want, lv), {"hilbert": name})
            if got != lv:
                ctx.mismatch("c02.hilbert-level", "%s: impl level %r, model %r" % (name, lv, got), {"hilbert": name})
        elif name.startswith("order"):
            if got.get("order") != want:
                ctx.mismatch("c02.hilbert-order", "%s: impl %r... model %r..." % (name, want[:6], str(got)[:80]),
                             {"hilbert": name})
        elif got != want:
            ctx.mismatch("c02.hilbert-curve", "%s: impl %r... model %r..." % (name, want[:6], got[:6]),
                         {"hilbert": name})
    ctx.tag("hilbert-generator-checked")


def gen_hetero(rng, size, ring):
    """whole-run annealing problem with strongly heterogeneous net weights: one net of weight 100 among a ring of
    nets of weight 0.01 on a large machine of single-unit chips (late in such an anneal the temperature has collapsed
    while the heavy net is still being pulled together: strongly improving swaps at very low temperatures)"""
    n = ring + 2
    vr = [[v, [1], [True]] for v in range(n)]
    nets = [[0, [1], 100.0]] + [[2 + i, [2 + (i + 1) % ring], 0.01] for i in range(ring)]
    working = [(x, y) for x in range(size) for y in range(size)]
    vo = list(range(n))
    rng.shuffle(vo)
    co = list(working)
    rng.shuffle(co)
    return c02_names.draw(rng, {"w": size, "h": size, "res": [1], "exc": [], "dead": [], "vr": vr, "nets": nets, "cs": [],
            "ood": False, "unit": False, "vo": vo, "co": [list(c) for c in co],
            "seeds": [rng.randrange(2 ** 30) for _ in range(4)], "effort": 1.0, "max_temps": None,
            "hilbert_bf": rng.random() < 0.5, "unit_r0": 0})


def gen_pinned(rng, movable=None):
    """a problem with exactly 0, 1 or 2 MOVABLE vertices: every other vertex is location-constrained.  Nets between
    pinned vertices on different chips (a cost no move can change), between movable and pinned vertices, self loops,
    zero-weight nets; every effort incl. 0; the anneals run to their own end (no bounding callback)"""
    R = rng.choice([1, 1, 2])
    w, h = rng.choice([(1, 1), (2, 1), (1, 2), (2, 2), (2, 2), (3, 2), (3, 3), (4, 4), (5, 3)])
    allchips = [(x, y) for x in range(w) for y in range(h)]
    dead = [c for c in allchips if rng.random() < rng.choice([0, 0, 0.2])]
    if len(dead) == len(allchips):
        dead = dead[1:]
    working = [c for c in allchips if c not in dead]
    m = rng.choice([0, 1, 1, 1, 2, 2]) if movable is None else movable
    n = max(m, rng.choice([1, 2, 2, 3, 4, 5, 6, 8]))
    vr = [[v, [rng.choice([0, 1, 1, 2]) for _ in range(R)], [True] * R] for v in range(n)]
    ample = rng.random() < 0.85
    res = [sum(d[i] for _, d, _ in vr) + rng.choice([0, 1]) if ample else max(d[i] for _, d, _ in vr) for i in range(R)]
    order = list(range(n))
    rng.shuffle(order)
    pinned = sorted(order[m:])
    loc = {v: rng.choice(working) for v in pinned}
    cs = []
    if len(pinned) >= 2 and rng.random() < 0.25:
        a, b = rng.sample(pinned, 2)
        loc[b] = loc[a]
        cs.append({"t": "same", "vs": [a, b]})
    if pinned and rng.random() < 0.05:
        loc[rng.choice(pinned)] = (w + 1, 0)            # pinned outside the machine
    cs += [{"t": "loc", "v": v, "c": list(loc[v])} for v in pinned]
    if rng.random() < 0.2:
        cs.append({"t": "res", "r": rng.randrange(R), "amt": 1, "c": None})
    rng.shuffle(cs)
    mov = [v for v in range(n) if v not in loc]
    nets = []
    for _ in range(rng.choice([1, 2, 3, n, 2 * n])):
        kind = rng.choice(["pinned-apart", "pinned-apart", "movable-pinned", "movable-pinned", "self", "any"])
        wt = rng.choice([1, 1, 2, 0.5, 0, 100])
        if kind == "pinned-apart" and len(pinned) >= 2:
            a = rng.choice(pinned)
            far = [b for b in pinned if loc[b] != loc[a]] or pinned
            nets.append([a, [rng.choice(far)] + ([rng.choice(pinned)] if rng.random() < 0.3 else []), wt])
        elif kind == "movable-pinned" and mov and pinned:
            a, b = rng.choice(mov), rng.choice(pinned)
            nets.append([a, [b], wt] if rng.random() < 0.5 else [b, [a], wt])
        elif kind == "self":
            v = rng.randrange(n)
            nets.append([v, [v], wt])
        else:
            nets.append([rng.randrange(n), [rng.randrange(n) for _ in range(rng.choice([1, 2, 3]))], wt])
    vo = list(range(n))
    rng.shuffle(vo)
    co = list(working)
    rng.shuffle(co)
    prob = {"w": w, "h": h, "res": res, "exc": [], "dead": [list(c) for c in dead], "vr": vr, "nets": nets, "cs": cs,
            "ood": False, "unit": False, "vo": vo, "co": [list(c) for c in co],
            "seeds": [rng.randrange(2 ** 30) for _ in range(4)], "effort": rng.choice([0, 0, 0.1, 1.0, 1.0, 2.0]),
            "max_temps": None, "hilbert_bf": rng.random() < 0.5, "unit_r0": None, "twist": "movable-%d" % len(mov),
            "unbounded": True}
    c02_names.draw(rng, prob)
    c02_variants.draw(rng, prob)
    prob["var"]["scale"] = 1            # both kernels run on these
    return prob


def gen_chain(rng, depth):
    """depth + 1 one-unit vertices chained by pairwise same-chip constraints (the merged vertices nest that deep) on a
    machine whose chips hold `depth` units: unplaceable, and the only acceptable outcome is InsufficientResourceError
    (finding F24: the error message naming the nested MergedVertex raised RecursionError)"""
    n = depth + 1
    w, h = rng.choice([(2, 2), (1, 3), (3, 1)])
    working = [(x, y) for x in range(w) for y in range(h)]
    cs = [{"t": "same", "vs": [v, v + 1]} for v in range(depth)]
    if rng.random() < 0.5:
        cs.append({"t": "res", "r": 0, "amt": 1, "c": None})
    vo = list(range(n))
    rng.shuffle(vo)
    prob = {"w": w, "h": h, "res": [depth + (1 if len(cs) > depth else 0)], "exc": [], "dead": [],
            "vr": [[v, [1], [True]] for v in range(n)], "nets": [[v, [(v + 7) % n], 1] for v in range(0, n, 5)], "cs": cs,
            "ood": False, "unit": False, "vo": vo, "co": [list(c) for c in working],
            "seeds": [rng.randrange(2 ** 30) for _ in range(4)], "effort": 0.1, "max_temps": 2,
            "hilbert_bf": rng.random() < 0.5, "unit_r0": None, "twist": "unplaceable-chain"}
    c02_names.draw(rng, prob)
    c02_variants.draw(rng, prob)
    return prob


from harness import c02_orders
from harness import c02_kernel
from harness import c02_sessions
from harness import c02_harden
THEOREMS = THEOREMS + c02_orders.THEOREMS_ORDERS
CLAIM = dict(CLAIM, text=CLAIM["text"] + " " + c02_orders.CLAIM_ORDERS + " " + c02_kernel.CLAIM_KERNEL + " " +
             c02_sessions.CLAIM_SESSIONS + " " + c02_names.CLAIM_NAMES + " " + c02_harden.CLAIM_HARDEN,
             note=CLAIM["note"] + " " + c02_orders.NOTE_ORDERS + " " + c02_harden.NOTE_HARDEN)


def run(ctx):
    ctx.extra["rule"] = RULE + " " + c02_orders.RULE_ORDERS + " " + c02_kernel.RULE_KERNEL + " " + \
        c02_sessions.RULE_SESSIONS + " " + c02_names.RULE_NAMES + " " + c02_variants.RULE_VARIANTS + " " + \
        c02_harden.RULE_HARDEN
    hilbert_checks(ctx)
    c02_orders.run_orders(ctx)
    ctx.extra["trusted_base"] = ["rig_c_sa (compiled annealing kernel outside /repo): opaque, checked only by the Feasible oracle",
                                 "the annealer's float cost/temperature arithmetic is abstracted to the recorded accept decision",
                                 "IEEE double arithmetic makes the loop test `temperature > 0.005 * cost / len(nets)` of sa.place "
                                 "false after finitely many passes (temperature *= alpha <= 0.95 reaches 0.0; the hypothesis of "
                                 "saPlace_terminates_under_cooling, proved necessary by schedLoop_diverges_without_cooling)"]
    ctx.assumptions += [
        "vertices demand (a non-zero amount of) only resources the machine defines - a demand of 0 of a resource the machine lacks is generated; every resource exception lists the machine's resources",
        "per-chip reservations name working chips (a ReserveResourceConstraint at a dead chip is an invalid constraint; the code "
        "answers IndexError: out-of-domain stream); resource exceptions may be recorded for any chip, dead ones included",
        "a same-chip group is location-constrained to at most one chip; constraints mention only known vertices",
        "custom vertex orders are permutations of the vertices (documented precondition of sequential.place)",
        "completeness clause read as: one resource r0, every vertex needs 0 or 1 unit of r0 and nothing else, at least one working chip",
        "termination of the annealing temperature schedule: a theorem under the hypothesis that the float loop test "
        "eventually fails (trusted base); most generated anneals are additionally bounded through on_temperature_change, "
        "the rest run to their own end under a CPU limit"]
    n = ctx.scale(1500, 27000)
    if ctx.extended:
        n *= 4
    rng = ctx.rng
    probs = []
    for i in range(n):
        r = rng.random()
        big = (not ctx.quick) and rng.random() < 0.15
        if r < 0.2:
            probs.append(gen_problem(rng, big=big, unit=True))
        elif r < 0.27:
            probs.append(gen_problem(rng, big=big, ood=True))
        else:
            probs.append(gen_problem(rng, big=big))
    for i in range(0, len(probs), 100):
        eval_problems(ctx, probs[i:i + 100])
        if hang_verdict_reached(ctx):
            break
    # whole anneals (no bound on the number of temperatures) with strongly heterogeneous net weights
    hetero = [gen_hetero(rng, rng.choice([8, 10, 12]), rng.choice([16, 24])) for _ in range(2)] if ctx.quick else \
        [gen_hetero(rng, rng.choice([12, 16, 20, 24, 24]), rng.choice([30, 40, 60, 60])) for _ in range(12)]
    for prob in hetero:
        ctx.tag("hetero-weights-problem")
        eval_problems(ctx, [prob])
    # exactly 0 / 1 / 2 movable vertices, anneals without a bounding callback
    pinned = [gen_pinned(rng) for _ in range(ctx.scale(40, 300) * (4 if ctx.extended else 1))]
    for i in range(0, len(pinned), 50):
        eval_problems(ctx, pinned[i:i + 50])
    # same-chip chains deeper than the interpreter's recursion limit allows to print recursively, unplaceable
    for depth in ([rng.choice([300, 340, 400]), rng.choice([350, 450])] if ctx.quick else
                  [320, rng.choice([400, 600]), rng.choice([800, 1100]), 1500]):
        eval_problems(ctx, [gen_chain(rng, depth)])
    c02_kernel.run_kernel(ctx)
    c02_sessions.run_sessions(ctx)
    c02_harden.run_harden(ctx)


def replay(ctx, payload):
    ctx.extra["rule"] = RULE
    case = payload["case"]
    if "kernel" in case:
        return c02_kernel.replay_kernel(ctx, payload)
    if "orders" in case or "orders-fixed" in case:
        return c02_orders.replay_orders(ctx, payload)
    if "harden" in case:
        return c02_harden.replay_harden(ctx, payload)
    if "session" in case or "machine_sequence" in case:
        return c02_sessions.replay_sessions(ctx, payload)
    eval_problems(ctx, [case["problem"]])
THEOREMS += ['gen_add_resources', 'gen_subtract_resources', 'gen_overallocated', 'gen_resources_after_reservation', 'gen_resources_after_reservation_absent', 'gen_machine_ok']   # translator tie: generated function bodies = model (Props/C02Gen.lean)
