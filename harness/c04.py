"""C04 - routing-table minimisation: exact correspondence of
rig/routing_table/{ordered_covering,remove_default_routes,minimise}.py with the
Lean model RigModel/Model/C04.lean (the algorithm is deterministic: output
tables and alias dictionaries are compared for equality), and the Lean
specification `RouteEquiv` (exhaustive over the key bits the tables look at)
evaluated on the implementation's own output tables."""

CLAIM = dict(
    text=("Machine-checked proof (Lean 4) over ALL tables (any number of entries, any 32-bit keys/masks incl. ill-formed "
          "ones, any routes and sources): first-match/default-route semantics; default-route removal preserves RouteEquiv "
          "for ANY ordered table; _Merge.apply preserves the ordered-covering invariant under the up-/down-check "
          "conditions (apply_equiv); _refine_merge establishes exactly those conditions on a generality-sorted table "
          "(refine_ok, with the binary-search insertion index proved correct and monotone); hence ordered_covering, "
          "ordered_covering.minimise, minimise_table (any method list) and minimise_tables preserve RouteEquiv for every "
          "orthogonal or generality-sorted table; results are never longer; with a target the result meets it or "
          "MinimisationFailedError carries the target and the best size reached; all loops terminate (no other outcome "
          "exists). The exhaustive oracle run on the implementation's tables is proved equivalent to RouteEquiv over all "
          "2^32 keys. Tied to the code by exact equality of output tables and alias dictionaries of every minimiser, of "
          "_get_best_merge and _get_insertion_index, on generated tables, and by that oracle on every returned table - "
          "including sequences of calls in one process whose tables are derived from earlier results (history stream) "
          "and minimise_tables calls / call sequences over RELATED chips (same keys/masks/routes with other sources, one "
          "entry or the order apart, consecutive chips of routes from routing_tree_to_tables), each chip judged against "
          "its own table: the model is pure and per-chip, so state kept between calls or chips is detected. "
          "DEEPENING: (1) the library's own checker utils.table_is_subset_of (with expand_entries, expand_entry, "
          "get_common_xs, intersect) is modelled exactly and PROVED exact for RouteSame (= RouteEquiv without the "
          "source-direction clause, which the function never looks at) whenever the first table is well formed and "
          "orthogonal: True <-> every key matched in a gets the same route from b's first match or is unmatched by b and "
          "default-routed (tableIsSubsetOf_iff); hence it never answers False on RouteEquiv tables there and the "
          "repository's test assertion table_is_subset_of(table, minimise(table)) follows from the proved RouteEquiv "
          "(minimiseTable_passes_tableIsSubsetOf). With no hypothesis it is characterised exactly by the representative "
          "keys of the surviving expanded entries (tableIsSubsetOf_exact); on overlapping or ill-formed first tables it is "
          "PROVED neither sound nor complete (three decided counterexamples, replayed on the real code every run), and a "
          "False answer on identically routing tables always comes from a surviving expanded entry that is hidden at its "
          "representative key (tableIsSubsetOf_false_on_equiv). (2) the hypothesis 'every entry lists a source' of "
          "minimise_equiv/minimiseTable_equiv is PROVED necessary (minimise_needs_sources, replayed on the code as an "
          "out-of-domain note). (3) user alias dictionaries: the exact precondition of orderedCovering_inv is AliasCover "
          "on the sorted table (userAliases_precondition), under it ordered_covering preserves RouteEquiv "
          "(orderedCovering_userAliases), without it it need not (userAliases_precondition_needed); the harness decides "
          "the precondition in Lean (aliasOracle_decides) for every generated dictionary and applies the RouteEquiv oracle "
          "to the code's output whenever it holds. (4) entries.py: Routes values translated from the source; core(n) = "
          "value/route bit 6+n for 0..17 else ValueError, links are 0..5, opposite is an involution on links agreeing "
          "with Links.opposite, core_num inverts core; RoutingTableEntry validates nothing and stores sets."),
    design="3/C04",
    note=("_get_insertion_index is modelled with fixes/c04-empty-table.diff (empty table -> 0); on the unrepaired tree "
          "ordered_covering/minimise/minimise_table raise IndexError for the empty table with target None, reported as a "
          "violation. minimise_equiv/minimiseTable_equiv assume every entry lists at least one source (sources=set() is "
          "outside the documented domain: {None} means unknown) - proved necessary. Only VALIDATED (differential "
          "correspondence on generated inputs, not proved): that the Lean models equal the Python code, including the new "
          "models of utils.py/entries.py (expand_entry's recursive generator is modelled as one pass over bits 31..0; "
          "warnings.warn of expand_entries is not observed; RoutingTableEntry.__str__ and Routes.initial are modelled and "
          "compared but no theorem is stated about them). table_is_subset_of is NOT claimed correct for overlapping first "
          "tables: the harness counts how often it is unsound/incomplete there (tags subset_outside_domain_*). For alias "
          "dictionaries with more than 16 relevant key bits the precondition is not decided and only correspondence is "
          "checked. Verdict policy: table_is_subset_of/expand_entries/get_common_xs, Routes.core/core_num/initial and "
          "RoutingTableEntry.__str__ are not used by the minimisers, so a difference between them and their models (or a "
          "proved counterexample that no longer reproduces) cannot violate C04; it is recorded in the evidence "
          "(coverage.helper_deviations, tags helper_deviation_*) without changing the verdict, unless "
          "VERIF_C04_HELPERS=strict is set (then it counts as a correspondence mismatch). The theorems about these "
          "helpers describe the code only while helper_deviations is empty. utils.intersect, Routes.is_link/opposite (used "
          "by the minimisers) stay under the ordinary correspondence. "
          "HARDENING (what is validated by which stream; verdicts only from the Lean oracle / model comparison): "
          "[1 argument kinds, case option ak, about half of the cases of every stream] route/sources handed to the "
          "constructor as set, frozenset, list with a duplicate, tuple, one-shot iterator; entries of a user subclass of "
          "RoutingTableEntry; the table as list, tuple, list subclass, one-shot generator (ordered_covering and "
          "ordered_covering.minimise only: the other callees take len()/index the documented list); targets as int, "
          "bool, numpy.int64, 0, None and 2**31-1..2**100; minimise_tables chips as (x, y) of ints, huge ints, bools, "
          "numpy ints, strings containing % and {}, a namedtuple; routing_tables / target_lengths as dict, OrderedDict, "
          "defaultdict (targets: None for unlisted chips), dict subclass; methods as tuple, list, one-shot iterator "
          "(minimise_table only: minimise_tables re-uses the argument per chip), functools.partial, lambda, callable "
          "object. Not varied: keys and masks stay Python ints below 2**32 (the property is about 32-bit keys; rig never "
          "passes numpy keys); chip identifiers that are not pairs (the documented form is (x, y), and "
          "MinimisationFailedError.__str__ unpacks it); Routes members as plain ints (Routes.opposite/is_link are "
          "documented attributes). [2 optional parameters] every optional parameter of the functions in scope takes its "
          "default and a non-default value, positionally and by keyword: remove_default_routes.minimise("
          "check_for_aliases) - False only on orthogonal tables, its documented domain; ordered_covering(aliases, "
          "no_raise); minimise_table(methods); minimise_tables(methods); expand_entries(ignore_xs), "
          "expand_entry(ignore_xs), RoutingTableEntry(sources). [3 scale, a handful per run, CPU limit raised] tables of "
          "257, 1025 (thorough also 1024) entries through all minimisers, 5000 and 1500 entries through default-route "
          "removal, one minimise_tables call over 2000 (thorough 65537) chips; nothing in scope recurses deeper than the "
          "32 levels of expand_entry and nothing is counted in 8 or 16 bits. [4 histories] history / related-history "
          "streams incl. the same call repeated and twins in both orders; instead of re-importing rig at the start of a "
          "history the first finding of each class is re-run in a fresh interpreter and extended until it reproduces "
          "there. [5 caller keeps and edits, stream rb] programs of 2-5 calls on live objects: the passed list / dict / "
          "target dict / alias dict and the returned list / dict / alias dict are edited in place (append, delete, "
          "replace an entry, add/discard a source in an entry's set, add/delete chips, change targets) and passed again, "
          "the same call is repeated, every result is kept and re-read after the last call (a kept result that changed "
          "without the caller touching it - object identity is tracked - is judged by the oracle against the input it was "
          "computed from); expand_entries generators are advanced alternately and abandoned (helper, no verdict). Whether "
          "a call modifies the list or alias dict it was given is counted only (tags rb_input_modified_by_call, "
          "rb_passed_aliases_modified_by_call): the property does not speak about it. [6 faults] the only fallible "
          "collaborators are caller-supplied methods: a method raising MinimisationFailedError or RuntimeError at every "
          "position, then the same objects are used again; expected outcomes are computed from the model of the remaining "
          "methods. [7 configuration] not applicable: the minimisers have no environment; per-chip targets differ inside "
          "one call. [8 non-termination] every implementation call runs under common.cpu_limit (5 s, 1 s after six hangs, "
          "300 s for the scale cases); a call that does not return is the finding did-not-return (the model terminates: "
          "orderedCovering_total, minimiseTable_total). The oracle enumerates at most 16 varying key bits; tag "
          "oracle_not_decided (0 on the unchanged tree) counts results outside that range, which are then judged by model "
          "comparison, length and target only."),
    technique="Lean 4 theorems over a hand-written model + differential correspondence + Lean spec as oracle")

THEOREMS = ["removeDefault_equiv", "removeDefault_length", "removeDefault_target", "inv_routeEquiv", "inv_init",
            "apply_equiv", "insertionIndex_correct", "refine_ok", "orderedCovering_inv", "orderedCovering_equiv",
            "orderedCovering_target", "minimise_equiv", "runMethod_equiv", "runMethod_target", "minimiseTable_equiv",
            "minimiseTable_failure", "minimiseTable_best", "minimiseTables_equiv", "orderedCovering_total",
            "runMethod_total", "minimiseTable_total", "orderedCovering_target_total", "minimiseTable_target_total",
            "oracle_decides", "oracle_counterexample", "minimiseTables_routes", "minimiseTables_failure",
            # deepening round: utils.table_is_subset_of / expand_entries / get_common_xs
            "tableIsSubsetOf_exact", "tableIsSubsetOf_sound", "tableIsSubsetOf_iff", "tableIsSubsetOf_of_routeEquiv",
            "routeSame_oracle", "minimiseTable_passes_tableIsSubsetOf", "minimise_passes_tableIsSubsetOf",
            "tableIsSubsetOf_false_on_equiv", "tableIsSubsetOf_unsound_overlapping", "tableIsSubsetOf_unsound_illformed",
            "tableIsSubsetOf_incomplete_overlapping",
            # the sources hypothesis is necessary
            "minimise_needs_sources",
            # user-supplied alias dictionaries
            "userAliases_precondition", "aliasOracle_decides", "userAliases_self", "orderedCovering_userAliases",
            "userAliases_precondition_needed",
            # entries.py
            "routes_members", "routesCore_spec", "routesCore_error", "core_roundtrip", "link_spec", "routeOpposite_links",
            "bitsOf_testBit", "mkEntry_spec", "defaultRouted_iff_opposite"]
THEOREMS += ['gen_intersect', 'gen_get_generality']   # translator tie: generated function bodies = model (Props/C04Gen.lean)

RULE = ("tables of 0-40 entries over 3-10 active key bits embedded at random positions of the 32-bit space (other "
        "positions all-X or fixed to a common value), ternary patterns with table-specific X density, orthogonal "
        "(rejection-sampled, any order) or overlapping and stably sorted by generality (duplicates and ill-formed "
        "key-outside-mask entries included), 1-5 distinct routes, sources unknown/single/multiple/core/empty with a "
        "default-routable share, targets None and 0..len+1; every minimiser (remove_default_routes, ordered_covering "
        "with and without no_raise, ordered_covering.minimise, minimise_table with several method lists, "
        "minimise_tables over 1-4 chips with dict/int/None targets) plus two-stage ordered covering with carried "
        "aliases, ordered covering with user-supplied alias dictionaries (correspondence only) incl. a stream aimed at "
        "the dictionary corner cases of _Merge.apply, and the internal functions _get_insertion_index (g = 0..33) / "
        "_get_best_merge; arbitrary-order overlapping tables for default-route removal; branch counters from wrapped "
        "_refine_upcheck/_refine_downcheck/_Merge.apply; thorough adds every Good table of <= 4 entries over 2 bits "
        "and <= 2 entries over 3 bits; a case "
        "is non-trivial when ordered covering applied at least one merge or default-route removal dropped an entry; "
        "distinct = distinct canonical JSON of (table, target); HISTORY stream (run first, 150/2500 histories): 2-4 "
        "minimisation calls in one process (per call: remove_default_routes, ordered_covering, ordered_covering.minimise, "
        "minimise_table, or minimise_tables over 2-4 chips in one call) where every later table is derived from an "
        "earlier call's result - it contains, as original entries with a different route, key/masks produced by that "
        "call's merges (sometimes their aliases too) plus pairs of same-route entries just outside such a key/mask whose "
        "merge overlaps it, preferably on keys outside the earlier aliases; each call must equal the pure model on its "
        "own table and pass the RouteEquiv oracle; a finding carries the whole history and is re-run in a fresh "
        "interpreter (extended to all earlier histories if it is not self-contained); the main stream then runs after "
        "the histories in the same process; RELATED-tables streams: 300/4000 minimise_tables calls over 2-8 chips whose "
        "tables are related - same keys/masks/routes/order with re-drawn sources (default-routable, unknown, other link, "
        "several, core), identical up to one entry, identical up to order, identical, or the per-chip tables produced by "
        "the library's routing_tree_to_tables from 2-5 small trees (straight runs with a branch, ending on cores; "
        "consecutive chips carry the same entries) - with the dictionary order rotated/shuffled and targets int (one "
        "length for all chips) / None / dict (often the same length); every chip's result is judged by the Lean "
        "RouteEquiv oracle against THAT chip's own table, compared with the per-chip pure model, length and target "
        "checked; 60/1500 histories of 2-5 calls (remove_default_routes, ordered_covering, ordered_covering.minimise, "
        "minimise_table, sometimes one minimise_tables) on such a related family in one process; a finding of a history "
        "whose failing call reproduces alone in a fresh interpreter is reported as that single (whole) call; hardening: about half of all cases carry "
        "random argument kinds / calling conventions (option ak, see CLAIM.note), targets include 2**31-1..2**100 (3%), "
        "orthogonal tables also go through remove_default_routes(check_for_aliases=False); stream rb (250/5000 programs "
        "of 2-5 calls on live objects edited in place between calls, results kept and re-read, caller-supplied failing "
        "methods); 5 (thorough 6) scale cases; deepening "
        "streams: user alias dictionaries that satisfy "
        "AliasCover by construction (own key/mask or all halves after fixing 1-2 X positions, plus extras and unused keys; "
        "the precondition is decided in Lean for every dictionary of both alias streams); 500/6000 pairs (a, b) of tables "
        "over 2-6 active bits with a shared base (a orthogonal / overlapping sorted / ill-formed; b = minimised a, "
        "default-route-removed a, a itself, mutated a, unrelated, over a subset of the bits, empty) for "
        "table_is_subset_of both ways, expand_entries (ignore None/0/common Xs of b/random), get_common_xs, intersect, "
        "with RouteSame decided in Lean and compared with the code's answer on well-formed orthogonal first tables; all "
        "docstring examples of utils.py with their documented answers; the proved counterexamples; the whole Routes "
        "enumeration, Routes(v) for v < 30, core(n) for -6..25 (exhaustive) and random RoutingTableEntry "
        "constructions/str()")

NONE_BIT = 24
M32 = 0xffffffff


# --------------------------------------------------------------------------
# conversion
def bits_of(s):
    b = 0
    for r in s:
        b |= 1 << (NONE_BIT if r is None else int(r))
    return b


def set_of(b, allow_none):
    from rig.routing_table import Routes
    out = set()
    for i in range(24):
        if b >> i & 1:
            out.add(Routes(i))
    if allow_none and b >> NONE_BIT & 1:
        out.add(None)
    return out


def to_impl(table):
    from rig.routing_table import RoutingTableEntry
    return [RoutingTableEntry(set_of(r, False), k, m, set_of(s, True)) for r, k, m, s in table]


# ---- ARGUMENT KINDS (case option "ak"): the same values in every kind the API accepts.  Absent = the plain kinds.
BIG_TARGETS = [2 ** 31 - 1, 2 ** 31, 2 ** 32, 2 ** 53 + 1, 2 ** 63, 2 ** 64, 2 ** 100]
_SUBCLASSES = {}


def _entry_subclass():
    if "e" not in _SUBCLASSES:
        from rig.routing_table import RoutingTableEntry

        class TaggedEntry(RoutingTableEntry):
            """a user's subclass of RoutingTableEntry"""
            __slots__ = ()

            def describe(self):
                return "tagged"

        class TableList(list):
            """a user's list subclass"""

        class TableDict(dict):
            """a user's dict subclass"""
        _SUBCLASSES.update(e=TaggedEntry, l=TableList, d=TableDict)
    return _SUBCLASSES


def mk_entries(table, ak):
    """entry objects; ak["ek"]: how route / sources collections are handed to the constructor, or a subclass"""
    from rig.routing_table import RoutingTableEntry
    ek = (ak or {}).get("ek", "set")
    out = []
    for i, (r, k, m, s) in enumerate(table):
        kind = ek if ek != "mixed" else ["set", "frozenset", "list", "tuple", "gen", "subclass"][(i + k) % 6]
        rs, ss = set_of(r, False), set_of(s, True)
        cls = RoutingTableEntry
        if kind == "subclass":
            cls = _entry_subclass()["e"]
        elif kind == "frozenset":
            rs, ss = frozenset(rs), frozenset(ss)
        elif kind == "list":
            rs, ss = sorted(rs) + sorted(rs)[:1], sorted(ss, key=lambda x: -1 if x is None else x)    # a duplicate too
        elif kind == "tuple":
            rs, ss = tuple(rs), tuple(ss)
        elif kind == "gen":
            rs, ss = iter(list(rs)), (x for x in list(ss))
        out.append(cls(rs, k, m, ss))
    return out


def mk_table(table, ak, gen_ok=False):
    """the table argument; ak["tk"]: list / tuple / list subclass / one-shot generator (where the callee sorts it)"""
    es = mk_entries(table, ak)
    tk = (ak or {}).get("tk", "list")
    if tk == "tuple":
        return tuple(es)
    if tk == "listsub":
        return _entry_subclass()["l"](es)
    if tk == "gen" and gen_ok:
        return (e for e in es)
    return es


def mk_target(t, ak):
    """ak["tgk"]: int / bool (0, 1) / numpy integer"""
    tgk = (ak or {}).get("tgk", "int")
    if t is None:
        return None
    if tgk == "bool" and t in (0, 1):
        return bool(t)
    if tgk == "numpy" and t < 2 ** 62:
        import numpy
        return numpy.int64(t)
    return t


def _norm_int(x):
    try:
        import numpy
        if isinstance(x, (bool, numpy.integer)):
            return int(x)
    except ImportError:
        if isinstance(x, bool):
            return int(x)
    return x


def gen_ak(rng):
    """random argument kinds / calling conventions for one case"""
    return {"ek": rng.choice(["set", "frozenset", "list", "tuple", "gen", "subclass", "mixed", "mixed"]),
            "tk": rng.choice(["list", "list", "tuple", "listsub", "gen"]),
            "tgk": rng.choice(["int", "int", "bool", "numpy"]),
            "kw": rng.choice(["pos", "kw", "mixed"]),
            "mk": rng.choice(["tuple", "list", "iter", "partial", "lambda", "object"]),
            "ck": rng.choice(["xy", "xy", "big", "named", "str", "numpy", "bool"]),
            "dk": rng.choice(["dict", "ordered", "default", "subclass"]),
            "tdk": rng.choice(["dict", "ordered", "default", "subclass"]),
            "mdef": rng.random() < 0.5}


def from_impl(table):
    return [[bits_of(e.route), e.key, e.mask, bits_of(e.sources)] for e in table]


def canon_aliases(a):
    """dict or list of pairs -> sorted list"""
    items = a.items() if isinstance(a, dict) else a
    return sorted([[list(k), sorted(list(x) for x in v)] for k, v in items])


def aliases_to_impl(a):
    return {tuple(k): set(tuple(x) for x in v) for k, v in a}


def generality(k, m):
    return bin(~k & ~m & M32).count("1")


_HANGS = [0]
_LAST_CHIP = [None]
_CPU_LIMIT = [None]      # set by the scale stream: its calls legitimately take longer


def call(f):
    """run the implementation; map the outcome to the protocol"""
    from rig.routing_table import MinimisationFailedError
    from harness import common
    try:
        # every call of the model terminates (theorems *_total); the tables here are small (a call takes
        # milliseconds): a call still running after 5 s of CPU time is reported as not having returned
        # (1 s once that has happened 6 times in this run)
        with common.cpu_limit(_CPU_LIMIT[0] or (5 if _HANGS[0] < 6 else 1)):
            return f()
    except common.ImplHang as e:
        _HANGS[0] += 1
        return {"exc": "DidNotReturn", "where": str(e)}
    except MinimisationFailedError as e:
        d = {"err": "MinimisationFailed", "target": _norm_int(e.target_length), "final": _norm_int(e.final_length)}
        _LAST_CHIP[0] = e.chip
        if e.chip is not None:
            try:
                d["chip"] = _norm_int(e.chip[0])
            except Exception:
                d["chip"] = None
        return d
    except (ImportError, SyntaxError):
        raise
    except Exception as e:  # undocumented
        import traceback
        tb = traceback.extract_tb(e.__traceback__)
        return {"exc": type(e).__name__, "where": "%s:%s" % (tb[-1].name, tb[-1].lineno) if tb else ""}


# --------------------------------------------------------------------------
# generators
def gen_routes(rng, n):
    out = []
    for _ in range(n):
        r = rng.random()
        if r < 0.45:
            out.append(1 << rng.randrange(6))
        elif r < 0.6:
            out.append(1 << rng.randrange(6, 24))
        elif r < 0.95:
            out.append(sum(1 << b for b in rng.sample(range(24), rng.randint(2, 4))))
        else:
            out.append(0)
    # distinct
    res = []
    for x in out:
        if x not in res:
            res.append(x)
    return res


def gen_sources(rng, mode, route, allow_empty):
    """sources bit set for one entry"""
    r = rng.random()
    if mode == "unknown":
        return 1 << NONE_BIT
    if mode == "default" or (mode == "mix" and r < 0.4):
        # make it default-routable when the route is a single link
        links = [i for i in range(6) if route == 1 << i]
        if links and rng.random() < 0.85:
            return 1 << ((links[0] + 3) % 6)
        return 1 << rng.randrange(6)
    if r < 0.55:
        return 1 << NONE_BIT
    if r < 0.7:
        return 1 << rng.randrange(6)
    if r < 0.85:
        return sum(1 << b for b in rng.sample(range(6), rng.randint(2, 3)))
    if r < 0.9:
        return (1 << NONE_BIT) | (1 << rng.randrange(6))
    if r < 0.95 or not allow_empty:
        return 1 << rng.randrange(6, 24)
    return 0


def km_intersect(a, b):
    return (a[0] & b[1]) == (b[0] & a[1])


def gen_table(rng, kind=None, max_n=40):
    """returns (kind, table) with table = [[route, key, mask, sources], ...]"""
    nbits = rng.choice([3, 3, 4, 4, 5, 5, 6, 6, 7, 8, 9, 10])
    pos = rng.sample(range(32), nbits)
    if rng.random() < 0.2:
        pos[0] = 31
    if rng.random() < 0.2:
        pos[-1] = 0
    pos = sorted(set(pos))
    nbits = len(pos)
    if kind is None:
        kind = rng.choice(["orth", "orth", "sorted", "sorted", "sorted"])
    n = rng.choice([0, 1, 2, 3, 4, 5, 6, 8, 10, 12, 16, 20, 24, 32, 40])
    n = min(n, max_n)
    px = rng.choice([0.0, 0.1, 0.25, 0.4, 0.6])
    ill = rng.random() < 0.12
    # the inactive positions: all X, or a share fixed to a common value
    base_mask = base_key = 0
    if rng.random() < 0.6:
        for b in range(32):
            if b not in pos and rng.random() < 0.5:
                base_mask |= 1 << b
                if rng.random() < 0.5:
                    base_key |= 1 << b
    routes = gen_routes(rng, rng.randint(1, 5))
    smode = rng.choice(["unknown", "default", "mix", "mix", "any"])
    table = []
    tries = 0
    while len(table) < n and tries < 8 * n + 20:
        tries += 1
        key, mask = base_key, base_mask
        for b in pos:
            r = rng.random()
            if ill and r > 0.97:
                key |= 1 << b      # "!" : key bit set outside the mask
            elif r >= px:
                mask |= 1 << b
                if rng.random() < 0.5:
                    key |= 1 << b
        if kind == "orth" and any(km_intersect((key, mask), (e[1], e[2])) for e in table):
            continue
        route = rng.choice(routes)
        if kind != "orth" and table and rng.random() < 0.06:
            dup = table[rng.randrange(len(table))]                  # duplicate key/mask
            key, mask = dup[1:3]
            if rng.random() < 0.5:
                route = dup[0]
        table.append([route, key, mask, gen_sources(rng, smode, route, kind == "any")])
    if kind == "sorted":
        table.sort(key=lambda e: generality(e[1], e[2]))
    elif kind == "orth":
        rng.shuffle(table)
        if rng.random() < 0.3:
            table.sort(key=lambda e: generality(e[1], e[2]))
    return kind, table


def gen_target(rng, n):
    r = rng.random()
    if r < 0.03:
        return rng.choice(BIG_TARGETS)          # an unbounded quantity: far beyond any table
    if r < 0.35:
        return None
    if r < 0.42:
        return 0
    if r < 0.6:
        return rng.randint(0, n + 1)
    return rng.randint(n // 3, n + 1)


METHOD_LISTS = [["rd", "oc"], ["rd", "oc"], ["rd", "oc"], ["oc"], ["rd"], ["oc", "rd"], ["rd", "rd", "oc"]]


def refine_km(rng, key, mask):
    """a key/mask inside (key, mask): some X positions fixed"""
    for b in range(32):
        if not (mask >> b) & 1 and not (key >> b) & 1 and rng.random() < 0.15:
            mask |= 1 << b
            if rng.random() < 0.5:
                key |= 1 << b
    return [key, mask]


def merged_km(entries):
    any_ones, all_ones, all_sel = 0, M32, M32
    for e in entries:
        any_ones |= e[1]
        all_ones &= e[1]
        all_sel &= e[2]
    mask = all_sel & ((any_ones ^ ~all_ones) & M32)
    return [all_ones & mask, mask]


def gen_aliases(rng, table):
    """a user-supplied alias dictionary (documented `aliases` parameter): entries of the table, and
    key/masks that merges of same-route entries would produce, standing for refinements"""
    al = {}
    if not table:
        return []
    for _ in range(rng.randint(1, 4)):
        e = rng.choice(table)
        km = (e[1], e[2])
        if rng.random() < 0.4:
            same = [x for x in table if x[0] == e[0]]
            km = tuple(merged_km(rng.sample(same, min(len(same), rng.randint(2, 3)))))
        vals = []
        disjoint = rng.random() < 0.3
        for _ in range(rng.randint(1, 3)):
            v = refine_km(rng, km[0], km[1]) if rng.random() < 0.8 else list(rng.choice(table)[1:3])
            fixed = [b for b in range(32) if (v[1] >> b) & 1]
            if disjoint and fixed:
                v = [v[0] ^ (1 << rng.choice(fixed)), v[1]]      # outside the key/mask it stands for
            if v not in vals:
                vals.append(v)
        al[km] = vals
    return canon_aliases(al)


def gen_valid_aliases(rng, table):
    """a user alias dictionary that satisfies the proved precondition `AliasCover` on the sorted table:
    every listed key/mask of the table is covered by its aliases (itself plus extras, or all halves
    after fixing one or two of its X positions); keys that are not in the table carry anything"""
    al = {}
    if not table:
        return []
    for _ in range(rng.randint(1, 4)):
        e = rng.choice(table)
        k, m = e[1], e[2]
        xs = [b for b in range(32) if not (m >> b) & 1 and not (k >> b) & 1]
        r = rng.random()
        if r < 0.45 or not xs:
            vals = [[k, m]]
        else:
            sel = rng.sample(xs, min(len(xs), rng.choice([1, 1, 2])))
            vals = []
            for bits in range(1 << len(sel)):
                kk, mm = k, m
                for j, b in enumerate(sel):
                    mm |= 1 << b
                    if (bits >> j) & 1:
                        kk |= 1 << b
                vals.append([kk, mm])
        for _ in range(rng.randint(0, 2)):
            v = refine_km(rng, k, m) if rng.random() < 0.6 else list(rng.choice(table)[1:3])
            if v not in vals:
                vals.append(v)
        rng.shuffle(vals)
        al[(k, m)] = vals
    if rng.random() < 0.3:
        o = rng.choice(table)
        km = (o[1] ^ (1 << rng.randrange(32)), o[2])
        if km not in al and not any((x[1], x[2]) == km for x in table):
            al[km] = [list(rng.choice(table)[1:3])]
    return canon_aliases(al)


def gen_corner(rng):
    """aims at the dictionary corner cases of _Merge.apply: a member whose key/mask equals the merged
    one (so `aliases.pop` removes the freshly stored set), duplicate member key/masks, an alias entry
    stored under the merged key/mask"""
    pos = rng.sample(range(32), rng.randint(4, 6))
    routes = gen_routes(rng, rng.randint(1, 3))
    table = []
    for _ in range(rng.randint(0, 6)):
        key = mask = 0
        for b in pos:
            if rng.random() >= 0.3:
                mask |= 1 << b
                if rng.random() < 0.5:
                    key |= 1 << b
        table.append([rng.choice(routes), key, mask, 1 << NONE_BIT])
    route = rng.choice(routes)
    key = mask = 0
    for b in pos[1:]:
        if rng.random() < 0.8:
            mask |= 1 << b
            if rng.random() < 0.5:
                key |= 1 << b
    wide = [route, key, mask, 1 << NONE_BIT]                       # X in pos[0]
    narrow = [route, key | (rng.randrange(2) << pos[0]), mask | (1 << pos[0]), 1 << NONE_BIT]
    table += [wide, narrow] + ([list(narrow)] if rng.random() < 0.5 else []) + ([list(wide)] if rng.random() < 0.3 else [])
    table.sort(key=lambda e: generality(e[1], e[2]))
    fixed = [b for b in pos if (mask >> b) & 1]
    outside = [key ^ (1 << rng.choice(fixed)), mask] if fixed else [key, mask]
    return {"kind": "sorted", "table": table, "target": gen_target(rng, len(table)), "target2": None,
            "methods": ["rd", "oc"], "internals": False,
            "aliases": canon_aliases({(key, mask): [outside] + ([refine_km(rng, key, mask)] if rng.random() < 0.5 else [])})}


def gen_case(rng, kind=None):
    kind, table = gen_table(rng, kind)
    c = {"kind": kind, "table": table, "target": gen_target(rng, len(table)),
         "target2": gen_target(rng, len(table)),
         "methods": rng.choice(METHOD_LISTS), "internals": rng.random() < 0.3}
    if kind != "any" and rng.random() < 0.35:
        c["aliases"] = gen_aliases(rng, table)
    elif kind != "any" and rng.random() < 0.3:
        c["aliases"] = gen_valid_aliases(rng, table)
        c["aliases_stream"] = "valid"
    if rng.random() < 0.5:
        c["ak"] = gen_ak(rng)
    if kind == "orth" and rng.random() < 0.5:
        c["nocheck"] = True       # remove_default_routes(check_for_aliases=False): documented for alias-free tables
    return c


# --------------------------------------------------------------------------
# evaluation
class _CallableMethod(object):
    """a user's callable object used as a minimisation method"""

    def __init__(self, f):
        self.f = f

    def __call__(self, table, target_length):
        return self.f(table, target_length)


def impl_methods(names, ak=None, single=False):
    """ak["mk"]: the methods as tuple / list / one-shot iterator (single-table front end only: minimise_tables re-uses
    the argument for every chip) / functools.partial / lambda / callable objects wrapping the library's minimisers"""
    import functools
    from rig.routing_table import remove_default_routes, ordered_covering
    d = {"rd": remove_default_routes.minimise, "oc": ordered_covering.minimise}
    fs = [d[n] for n in names]
    mk = (ak or {}).get("mk", "list")
    if mk == "partial":
        fs = [functools.partial(f) for f in fs]
    elif mk == "lambda":
        fs = [(lambda f: (lambda table, target_length: f(table, target_length)))(f) for f in fs]
    elif mk == "object":
        fs = [_CallableMethod(f) for f in fs]
    if mk == "tuple":
        return tuple(fs)
    if mk == "iter" and single:
        return iter(fs)
    return fs


def run_impl(c):
    """all implementation calls of one case -> dict name -> protocol result"""
    from rig.routing_table import remove_default_routes as rdm, ordered_covering as ocm, minimise as mm
    T, t, t2 = c["table"], c["target"], c["target2"]
    ak = c.get("ak")
    kw = (ak or {}).get("kw", "pos")
    out = {}
    light = c.get("light")

    def rd(target):
        if kw == "kw":
            return rdm.minimise(table=mk_table(T, ak), target_length=mk_target(target, ak), check_for_aliases=True)
        if kw == "mixed":
            return rdm.minimise(mk_table(T, ak), mk_target(target, ak), check_for_aliases=True)
        return rdm.minimise(mk_table(T, ak), mk_target(target, ak))

    def ocmin(target):
        if kw == "kw":
            return ocm.minimise(routing_table=mk_table(T, ak, True), target_length=mk_target(target, ak))
        return ocm.minimise(mk_table(T, ak, True), mk_target(target, ak))

    def mt(target, methods):
        single = dict(single=True)
        if methods is None:
            if kw == "kw":
                return mm.minimise_table(table=mk_table(T, ak), target_length=mk_target(target, ak))
            return mm.minimise_table(mk_table(T, ak), mk_target(target, ak))
        if kw == "kw":
            return mm.minimise_table(table=mk_table(T, ak), target_length=mk_target(target, ak),
                                     methods=impl_methods(methods, ak, **single))
        if kw == "mixed":
            return mm.minimise_table(mk_table(T, ak), mk_target(target, ak), methods=impl_methods(methods, ak, **single))
        return mm.minimise_table(mk_table(T, ak), mk_target(target, ak), impl_methods(methods, ak, **single))
    if not light:
        out["rd"] = call(lambda: {"ok": from_impl(rd(t))})
    out["rd_none"] = call(lambda: {"ok": from_impl(rd(None))})
    if c.get("nocheck"):
        # check_for_aliases=False (documented for tables without aliased entries)
        out["rd_nocheck"] = call(lambda: {"ok": from_impl(
            rdm.minimise(mk_table(T, ak), mk_target(t, ak), False) if kw == "pos" else
            rdm.minimise(mk_table(T, ak), mk_target(t, ak), check_for_aliases=False))})
    if c["kind"] == "any":
        return out

    def oc(table, target, aliases, no_raise):
        tb, tg, al = mk_table(table, ak, True), mk_target(target, ak), aliases_to_impl(aliases)
        if kw == "kw":
            r = ocm.ordered_covering(routing_table=tb, target_length=tg, aliases=al, no_raise=no_raise)
        elif kw == "mixed":
            r = (ocm.ordered_covering(tb, tg, no_raise=no_raise) if not aliases and no_raise else
                 ocm.ordered_covering(tb, tg, aliases=al) if not no_raise else
                 ocm.ordered_covering(tb, tg, al, no_raise=no_raise))
        elif not aliases and not no_raise and ak is not None:
            r = ocm.ordered_covering(tb, tg)                      # both optional parameters at their defaults
        else:
            r = ocm.ordered_covering(tb, tg, al, no_raise)
        return {"ok": {"table": from_impl(r[0]), "aliases": canon_aliases(r[1])}}
    if light:
        out["oc_none"] = call(lambda: oc(T, None, [], False))
        out["ocmin_none"] = call(lambda: {"ok": from_impl(ocmin(None))})
        out["mt_default"] = call(lambda: {"ok": from_impl(mt(t2, None))})
        return out
    out["oc"] = call(lambda: oc(T, t, [], False))
    out["oc_nr"] = call(lambda: oc(T, t2, [], True))
    if "ok" in out["oc_nr"]:
        s1 = out["oc_nr"]["ok"]
        out["oc2"] = call(lambda: oc(s1["table"], None, s1["aliases"], False))
    if c.get("aliases") is not None:
        # documented `aliases` parameter: correspondence only (no claim is made for arbitrary dictionaries)
        out["oc_al"] = call(lambda: oc(T, t2, c["aliases"], True))
    out["oc_none"] = call(lambda: oc(T, None, [], False))
    out["ocmin"] = call(lambda: {"ok": from_impl(ocmin(t))})
    out["ocmin_none"] = call(lambda: {"ok": from_impl(ocmin(None))})
    out["mt"] = call(lambda: {"ok": from_impl(mt(t, c["methods"]))})
    out["mt_default"] = call(lambda: {"ok": from_impl(mt(t2, None))})
    if c.get("internals"):
        out["best"] = call(lambda: {"ok": merge_json(ocm._get_best_merge(
            sorted(to_impl(T), key=lambda e: ocm._get_generality(e.key, e.mask)), {}))})
        srt = sorted(to_impl(T), key=lambda e: ocm._get_generality(e.key, e.mask))
        out["ins"] = [call(lambda: ocm._get_insertion_index(srt, g)) for g in range(0, 34)]
    return out


def exc_key(res):
    """finding class of an undocumented outcome: a call that did not return (every model call terminates:
    theorems orderedCovering_total / minimiseTable_total) or an exception other than MinimisationFailedError"""
    return "did-not-return" if res.get("exc") == "DidNotReturn" else "undocumented-exception-" + res["exc"]


def merge_json(m):
    return {"entries": sorted(m.entries), "key": m.key, "mask": m.mask, "generality": m.generality,
            "goodness": m.goodness, "insertion_index": m.insertion_index, "sources": bits_of(m.sources)}


def model_reqs(c, impl):
    """requests for the model mirroring run_impl; list of (name, request)"""
    T, t, t2 = c["table"], c["target"], c["target2"]
    S = "c04"
    light = c.get("light")
    reqs = [("rd_none", {"suite": S, "op": "rd", "table": T, "target": None, "check": True})]
    if c.get("nocheck"):
        reqs.append(("rd_nocheck", {"suite": S, "op": "rd", "table": T, "target": t, "check": False}))
    if not light:
        reqs.append(("rd", {"suite": S, "op": "rd", "table": T, "target": t, "check": True}))
    if c["kind"] == "any":
        return reqs
    if light:
        reqs.append(("oc_none", {"suite": S, "op": "oc", "table": T, "target": None, "aliases": [], "no_raise": False}))
        reqs.append(("ocmin_none", {"suite": S, "op": "ocmin", "table": T, "target": None}))
        reqs.append(("mt_default", {"suite": S, "op": "mt", "table": T, "target": t2, "methods": ["rd", "oc"]}))
        return reqs
    reqs.append(("oc", {"suite": S, "op": "oc", "table": T, "target": t, "aliases": [], "no_raise": False}))
    reqs.append(("oc_nr", {"suite": S, "op": "oc", "table": T, "target": t2, "aliases": [], "no_raise": True}))
    if "oc2" in impl:
        s1 = impl["oc_nr"]["ok"]
        reqs.append(("oc2", {"suite": S, "op": "oc", "table": s1["table"], "target": None,
                             "aliases": s1["aliases"], "no_raise": False}))
    if c.get("aliases") is not None:
        reqs.append(("oc_al", {"suite": S, "op": "oc", "table": T, "target": t2, "aliases": c["aliases"], "no_raise": True}))
    reqs.append(("oc_none", {"suite": S, "op": "oc", "table": T, "target": None, "aliases": [], "no_raise": False}))
    reqs.append(("ocmin", {"suite": S, "op": "ocmin", "table": T, "target": t}))
    reqs.append(("ocmin_none", {"suite": S, "op": "ocmin", "table": T, "target": None}))
    reqs.append(("mt", {"suite": S, "op": "mt", "table": T, "target": t, "methods": c["methods"]}))
    reqs.append(("mt_default", {"suite": S, "op": "mt", "table": T, "target": t2, "methods": ["rd", "oc"]}))
    if c.get("internals"):
        srt = sorted(T, key=lambda e: generality(e[1], e[2]))
        reqs.append(("best", {"suite": S, "op": "best", "table": srt, "aliases": []}))
        for g in range(0, 34):
            reqs.append(("ins%d" % g, {"suite": S, "op": "ins", "table": srt, "generality": g}))
    return reqs


def norm_model(name, r):
    if isinstance(r, dict) and "ok" in r and isinstance(r["ok"], dict) and "aliases" in r["ok"]:
        r = {"ok": {"table": r["ok"]["table"], "aliases": canon_aliases(r["ok"]["aliases"])}}
    return r


def out_table(res):
    if isinstance(res, dict) and "ok" in res:
        return res["ok"]["table"] if isinstance(res["ok"], dict) else res["ok"]
    return None


def eval_cases(ctx, cases):
    rbs = [c for c in cases if c["kind"] == "rb"]
    cases = [c for c in cases if c["kind"] != "rb"]
    if rbs:
        eval_rb(ctx, rbs)
    hist = [c for c in cases if c["kind"] == "hist"]
    mts = [c for c in cases if c["kind"] == "mts"]
    uts = [c for c in cases if c["kind"].startswith("u_")]
    cases = [c for c in cases if c["kind"] not in ("mts", "hist") and not c["kind"].startswith("u_")]
    if hist:
        eval_hist(ctx, hist)
    _eval_plain(ctx, cases)
    if mts:
        eval_mts(ctx, mts)
    if uts:
        eval_utils(ctx, uts)


def _eval_plain(ctx, cases, impls=None, ctxs=None):
    """`impls`: results already obtained from the implementation (history stream: calls must run in order);
    `ctxs`: per-case context (the history stream reports the whole history as the failing input)"""
    if impls is None:
        impls = [run_impl(c) for c in cases]
    reqs, idx = [], []
    for ci, (c, impl) in enumerate(zip(cases, impls)):
        for name, rq in model_reqs(c, impl):
            reqs.append(rq)
            idx.append((ci, "m", name))
        # the property oracle on every table the implementation returned
        for name, res in impl.items():
            tb = out_table(res) if name not in ("best", "ins") else None
            if tb is not None:
                reqs.append({"suite": "c04", "op": "equiv", "a": c["table"], "b": tb})
                idx.append((ci, "o", name))
        if c.get("aliases") is not None and "oc_al" in impl:
            # the proved precondition on a user alias dictionary (AliasCover on the sorted table), decided in Lean
            reqs.append({"suite": "c04u", "op": "aliasok", "table": c["table"], "aliases": c["aliases"]})
            idx.append((ci, "o", "__aliasok"))
    models = [dict() for _ in cases]
    oracles = [dict() for _ in cases]
    for (ci, what, name), r in zip(idx, ctx.lean(reqs)):
        (models if what == "m" else oracles)[ci][name] = r
    for ci, (c, impl, model, orc) in enumerate(zip(cases, impls, models, oracles)):
        judge(ctxs[ci] if ctxs else ctx, c, impl, model, orc)


def tag_ak(ctx, c, fields):
    ak = c.get("ak")
    if ak:
        ctx.tag(*["ak_%s_%s" % (f, ak.get(f)) for f in fields])
    else:
        ctx.tag("ak_plain")


def judge(ctx, c, impl, model, orc):
    T, n = c["table"], len(c["table"])
    desc = dict(c)
    ctx.traces += 1
    ctx.tag("kind_" + c["kind"], "n_%s" % ("0" if n == 0 else "1-4" if n < 5 else "5-16" if n <= 16 else "17-40"))
    tag_ak(ctx, c, ("ek", "tk", "tgk", "kw", "mk"))
    if any(isinstance(x, int) and x >= 2 ** 31 - 1 for x in (c.get("target"), c.get("target2"))):
        ctx.tag("target_big")
    if c.get("nocheck"):
        ctx.tag("rd_check_for_aliases_False")
    # ---- correspondence
    for name, res in impl.items():
        if name == "ins":
            got = [model.get("ins%d" % g) for g in range(34)]
            if got != res:
                ctx.mismatch("c04.ins", "impl=%r model=%r" % (res, got), desc)
            continue
        m = norm_model(name, model.get(name))
        if m != res:
            ctx.mismatch("c04." + name, "impl=%r model=%r" % (res, m), desc)
    # ---- property oracle
    targets = {"rd_nocheck": c["target"], "oc_al": None, "rd": c["target"], "oc": c["target"], "oc_nr": None, "oc2": None, "ocmin": c["target"],
               "mt": c["target"], "mt_default": c["target2"], "rd_none": None, "oc_none": None, "ocmin_none": None}
    # sizes reached by the unbounded runs (for the "best size reached" clause)
    reach = {}
    for nm, src in (("rd", "rd_none"), ("oc", "oc_none"), ("ocmin", "ocmin_none")):
        tb0 = out_table(impl.get(src, {}))
        if tb0 is not None:
            reach[nm] = len(tb0)
    best = {"rd": reach.get("rd"), "oc": reach.get("oc"), "ocmin": reach.get("ocmin")}
    for nm, ms in (("mt", c.get("methods", [])), ("mt_default", ["rd", "oc"])):
        sizes = [n] + [reach.get({"rd": "rd", "oc": "ocmin"}[x]) for x in ms]
        best[nm] = None if any(x is None for x in sizes) else min(sizes)
    for name, res in impl.items():
        if name == "oc_al":
            if "exc" in res:
                ctx.violation(exc_key(res), "ordered_covering with aliases raised %s at %s"
                              % (res["exc"], res.get("where")), desc)
                continue
            ok = orc.get("__aliasok") or {}
            if "ok" not in ok:
                ctx.tag("aliases_precondition_not_decided")       # > 16 varying bits
                continue
            ctx.tag("aliases_precondition_" + ("holds" if ok["ok"] else "fails"))
            if c.get("aliases_stream") == "valid" and not ok["ok"]:
                ctx.tag("aliases_generator_invalid")      # harness-internal; such a case is simply not judged
            if not ok["ok"]:
                continue      # outside the proved precondition: correspondence only
            # inside the precondition: orderedCovering_userAliases applies, fall through to the oracle
        if name in ("best", "ins"):
            if any(isinstance(x, dict) and "exc" in x for x in (res if isinstance(res, list) else [res])):
                ctx.tag("internal_exception")
            continue
        t = targets[name]
        if "exc" in res:
            ctx.tag("exc_" + res["exc"])
            ctx.violation(exc_key(res),
                          "%s raised %s at %s (only MinimisationFailedError is documented) on a %d-entry table, target=%r"
                          % (name, res["exc"], res.get("where"), n, t), desc)
            continue
        if "err" in res:
            ctx.tag(name + "_minfailed")
            if t is None or not isinstance(res.get("final"), int) or res["final"] <= t or res["target"] != t:
                ctx.violation("minfailed-misreport", "%s raised MinimisationFailedError(target=%r, final=%r) with target %r"
                              % (name, res.get("target"), res.get("final"), t), desc)
            elif best.get(name) is not None and res["final"] != best[name]:
                ctx.violation("minfailed-not-best", "%s raised MinimisationFailedError(final=%r) but the best size reached "
                              "is %r (target %r)" % (name, res["final"], best[name], t), desc)
            continue
        tb = out_table(res)
        ctx.tag(name + "_ok")
        o = orc.get(name)
        if o is None or "equiv" not in o:
            # more key bits than the oracle enumerates (never with the generated inputs on the unchanged code: the tag
            # stays at 0 there); happens when a broken implementation returns a table unrelated to its input, or a later
            # table of a history was derived from such a result: judged by model comparison, length and target only
            ctx.tag("oracle_not_decided")
        elif not o["equiv"]:
            ctx.violation("route-changed", "%s: key %#010x matched by the input table is routed differently by the output "
                          "(input %d entries, output %d entries)" % (name, o["key"], n, len(tb)), desc)
        if len(tb) > n:
            ctx.violation("longer", "%s returned %d entries for a %d-entry table" % (name, len(tb), n), desc)
        if t is not None and len(tb) > t:
            ctx.violation("target-missed", "%s returned %d entries without error for target %d" % (name, len(tb), t), desc)
    nontriv = False
    r = impl.get("oc_nr")
    if r and "ok" in r and len(r["ok"]["table"]) < n:
        nontriv = True
        ctx.tag("merge_applied")
    r = impl.get("rd")
    if r and "ok" in r and len(r["ok"]) < n:
        nontriv = True
        ctx.tag("default_removed")
    ctx.case({"table": T, "target": c["target"]}, nontriv)


# --------------------------------------------------------------------------
# branch probes: wrap module-level helpers from outside (no source change, behaviour unchanged)
PROBE = {}


def install_probes():
    from rig.routing_table import ordered_covering as ocm
    if getattr(ocm, "_c04_probes", False):
        return
    ocm._c04_probes = True
    up, down, ap = ocm._refine_upcheck, ocm._refine_downcheck, ocm._Merge.apply

    def bump(k):
        PROBE[k] = PROBE.get(k, 0) + 1

    def up2(merge, min_goodness):
        r = up(merge, min_goodness)
        bump("br_upcheck_removed" if r[1] else "br_upcheck_unchanged")
        if r[1] and r[0].goodness > min_goodness:
            bump("br_upcheck_removed_still_good")
        return r

    def down2(merge, aliases, min_goodness):
        r = down(merge, aliases, min_goodness)
        if r.goodness <= min_goodness:
            bump("br_downcheck_rejected")
        elif len(r.entries) < len(merge.entries):
            bump("br_downcheck_pruned")
        else:
            bump("br_downcheck_unchanged")
        return r

    def apply2(self, aliases):
        km = (self.key, self.mask)
        kms = [(self.routing_table[i].key, self.routing_table[i].mask) for i in self.entries]
        bump("br_apply")
        if km in aliases:
            bump("br_apply_overwrites_alias")
        if km in kms:
            bump("br_apply_member_has_merged_km")
        if any(k in aliases for k in kms):
            bump("br_apply_pops_existing_alias")
        if len(set(kms)) < len(kms):
            bump("br_apply_duplicate_member_km")
        if self.insertion_index == len(self.routing_table):
            bump("br_apply_insert_at_end")
        return ap(self, aliases)
    ocm._refine_upcheck, ocm._refine_downcheck, ocm._Merge.apply = up2, down2, apply2


# --------------------------------------------------------------------------
# minimise_tables (many chips)
def gen_mts(rng):
    chips = []
    for i in range(rng.randint(1, 4)):
        _, table = gen_table(rng, None, max_n=12)
        chips.append({"chip": i, "table": table, "target": gen_target(rng, len(table))})
    mode = rng.choice(["dict", "dict", "int", "none"])
    if mode == "int":
        t = rng.randint(0, 1 + max(len(ch["table"]) for ch in chips))
        for ch in chips:
            ch["target"] = t
    elif mode == "none":
        for ch in chips:
            ch["target"] = None
    c = {"kind": "mts", "chips": chips, "mode": mode, "methods": rng.choice(METHOD_LISTS)}
    if rng.random() < 0.5:
        c["ak"] = gen_ak(rng)
    return c


# ---- RELATED tables: the chips of one minimise_tables call (and the calls of one process) usually carry nearly the same
# traffic, so anything that identifies a table by less than its full content (keys, masks, routes AND sources, order)
# only misbehaves when related tables meet.
def vary_sources(rng, table, flavour=None):
    """same keys/masks/routes/order, sources re-drawn: default-routable (the opposite link), unknown, another link,
    opposite + unknown, several links, a core"""
    out = []
    flavour = flavour or rng.choice(["default", "unknown", "mixed", "mixed", "other"])
    for r, k, m, s0 in table:
        links = [i for i in range(6) if r == 1 << i]
        f = flavour if flavour != "mixed" else rng.choice(["default", "unknown", "other", "keep", "multi", "core"])
        if f == "default" and links:
            s1 = 1 << ((links[0] + 3) % 6)
        elif f == "unknown" or (f == "default" and not links):
            s1 = 1 << NONE_BIT
        elif f == "other":
            s1 = 1 << rng.randrange(6)
        elif f == "multi":
            s1 = (1 << ((links[0] + 3) % 6) if links else 1 << rng.randrange(6)) | rng.choice([1 << NONE_BIT, 1 << rng.randrange(6)])
        elif f == "core":
            s1 = 1 << rng.randrange(6, 24)
        else:
            s1 = s0
        out.append([r, k, m, s1])
    return out


def vary_one_entry(rng, table, routes):
    """identical up to one entry (route changed, entry removed, entry added, key bit flipped); re-sorted by generality
    so that the variant is again in the claimed domain"""
    t = [list(e) for e in table]
    r = rng.random()
    if t and r < 0.3:
        t[rng.randrange(len(t))][0] = rng.choice(routes + [1 << rng.randrange(6)])
    elif t and r < 0.5:
        del t[rng.randrange(len(t))]
    elif t and r < 0.75:
        e = list(rng.choice(t))
        bits = [b for b in range(32) if (e[2] >> b) & 1]
        if bits:
            e[1] ^= 1 << rng.choice(bits)
        e[0] = rng.choice(routes)
        t.append(e)
    elif t:
        i = rng.randrange(len(t))
        bits = [b for b in range(32) if (t[i][2] >> b) & 1]
        if bits:
            t[i][1] ^= 1 << rng.choice(bits)
    t.sort(key=lambda e: generality(e[1], e[2]))
    return t


def vary_order(rng, table, kind):
    t = [list(e) for e in table]
    rng.shuffle(t)
    if kind != "orth":
        t.sort(key=lambda e: generality(e[1], e[2]))      # stable: a permutation inside each generality class
    return t


def gen_link_table(rng):
    """a small orthogonal table of single-link routes (the bulk of real tables): full-mask keys over 2-4 bits"""
    nb = rng.choice([2, 3, 3, 4])
    pos = sorted(rng.sample(range(32), nb))
    base_mask = M32 & ~sum(1 << b for b in pos) if rng.random() < 0.7 else 0
    base_key = rng.getrandbits(32) & base_mask
    links = [1 << l for l in rng.sample(range(6), rng.randint(1, 2))]
    table = []
    for v in rng.sample(range(1 << nb), rng.randint(1, min(6, 1 << nb))):
        key = base_key | sum(1 << b for j, b in enumerate(pos) if (v >> j) & 1)
        mask = base_mask | sum(1 << b for b in pos)
        r = rng.choice(links) if rng.random() < 0.85 else rng.choice([1 << rng.randrange(6, 24), 3, 1 | (1 << 7)])
        table.append([r, key, mask, 1 << NONE_BIT])
    return "orth", table, links


def related_family(rng, n):
    """n tables related to one base table"""
    if rng.random() < 0.5:
        kind, base, routes = gen_link_table(rng)
    else:
        kind, base = gen_table(rng, None, max_n=10)
        routes = sorted({e[0] for e in base}) or [1]
    base = [e if e[3] else [e[0], e[1], e[2], 1 << NONE_BIT] for e in base]
    style = rng.choice(["sources", "sources", "sources", "mixed", "mixed", "one", "order"])
    fam = []
    for i in range(n):
        how = style if style != "mixed" else rng.choice(["sources", "sources", "one", "order", "same"])
        if how == "sources":
            t = vary_sources(rng, base)
        elif how == "one":
            t = vary_one_entry(rng, base, routes)
            if rng.random() < 0.5:
                t = vary_sources(rng, t)
        elif how == "order":
            t = vary_order(rng, base, kind)
            if rng.random() < 0.3:
                t = vary_sources(rng, t)
        else:
            t = [list(e) for e in base]
        fam.append(t)
    if rng.random() < 0.5:
        fam[rng.randrange(n)] = [list(e) for e in base]
    return kind, fam


def tree_tables(rng):
    """per-chip tables made by the library's own routing_tree_to_tables from 2-5 small trees (straight runs with an
    optional branch, ending on cores) with distinct keys: consecutive chips of a run carry identical entries, the
    source chip the same entry with unknown source, the last chip the same key to a core"""
    from rig.routing_table import Routes
    from rig.routing_table.utils import routing_tree_to_tables
    from rig.place_and_route.routing_tree import RoutingTree
    vec = {0: (1, 0), 1: (1, 1), 2: (0, 1), 3: (-1, 0), 4: (-1, -1), 5: (0, -1)}
    nb = rng.choice([2, 3])
    pos = sorted(rng.sample(range(32), nb))
    mask = M32 if rng.random() < 0.6 else sum(1 << b for b in pos)
    keys = rng.sample(range(1 << nb), rng.randint(2, min(5, 1 << nb)))
    start = (rng.randint(0, 1), rng.randint(0, 1))
    d0 = rng.randrange(6)
    routes, net_keys = {}, {}

    def run(chip, d, hops, branch):
        """the tree below `chip` when the route leaves it in direction d"""
        nxt = (chip[0] + vec[d][0], chip[1] + vec[d][1])
        if hops == 0:
            return RoutingTree(chip, [(Routes.core(rng.randint(1, 4)), object())])
        kids = [(Routes(d), run(nxt, d, hops - 1, False))]
        if branch and rng.random() < 0.5:
            d2 = (d + rng.choice([1, 5])) % 6
            n2 = (chip[0] + vec[d2][0], chip[1] + vec[d2][1])
            kids.append((Routes(d2), run(n2, d2, rng.randint(0, 2), False)))
        if branch and rng.random() < 0.2:
            kids.append((Routes.core(rng.randint(1, 4)), object()))
        return RoutingTree(chip, kids)
    for i, kv in enumerate(keys):
        key = sum(1 << b for j, b in enumerate(pos) if (kv >> j) & 1)
        same = rng.random() < 0.7
        st = start if same else (start[0] + rng.randint(-1, 1), start[1] + rng.randint(-1, 1))
        routes[i] = run(st, d0 if same or rng.random() < 0.5 else rng.randrange(6), rng.randint(1, 5), True)
        net_keys[i] = (key, mask)
    tables = routing_tree_to_tables(routes, net_keys)
    return [from_impl(t) for _, t in sorted(tables.items())]


def gen_mts_related(rng):
    """one minimise_tables call over 2-8 RELATED chips, dictionary order rotated / shuffled"""
    n = rng.choice([2, 2, 3, 3, 4, 5, 6, 8])
    r = rng.random()
    how = "family"
    if r < 0.3:
        try:
            fam = tree_tables(rng)
            how = "trees"
        except (ImportError, SyntaxError):
            raise
        except Exception:
            fam = []
        if len(fam) < 2:
            _, fam = related_family(rng, n)
            how = "family"
        fam = fam[:8]
    else:
        _, fam = related_family(rng, n)
    chips = [{"chip": i, "table": t, "target": None} for i, t in enumerate(fam)]
    k = rng.randrange(len(chips))
    chips = chips[k:] + chips[:k]
    if rng.random() < 0.4:
        rng.shuffle(chips)
    mode = rng.choice(["int", "int", "none", "none", "dict"])
    if mode == "int":
        t = rng.randint(0, 1 + max(len(ch["table"]) for ch in chips))
        for ch in chips:
            ch["target"] = t
    elif mode == "dict":
        same = rng.random() < 0.5
        t = rng.randint(0, 1 + max(len(ch["table"]) for ch in chips))
        for ch in chips:
            ch["target"] = t if same and rng.random() < 0.8 else gen_target(rng, len(ch["table"]))
    c = {"kind": "mts", "related": how, "chips": chips, "mode": mode, "methods": rng.choice(METHOD_LISTS)}
    if rng.random() < 0.5:
        c["ak"] = gen_ak(rng)
    return c


def gen_related_history(rng):
    """2-5 calls in one process on RELATED tables (remove_default_routes / ordered_covering / ordered_covering.minimise /
    minimise_table per plain call, sometimes one minimise_tables over the family): state kept between calls and
    keyed by less than the whole table shows up as a mismatch or a route-changed violation; runs the calls"""
    n = rng.choice([2, 3, 3, 4, 5])
    if rng.random() < 0.25:
        try:
            fam = tree_tables(rng)[:5]
        except (ImportError, SyntaxError):
            raise
        except Exception:
            fam = []
        kind = "orth"
        if len(fam) < 2:
            kind, fam = related_family(rng, n)
    else:
        kind, fam = related_family(rng, n)
    steps = []
    for t in fam:
        st = plain_step(rng, t)
        st["kind"] = kind if kind in ("orth", "sorted") else "sorted"
        steps.append(st)
    if rng.random() < 0.3:
        steps.insert(rng.randrange(len(steps) + 1),
                     {"kind": "mts", "mode": "none", "methods": rng.choice(METHOD_LISTS),
                      "chips": [{"chip": i, "table": t, "target": None} for i, t in enumerate(fam)]})
    r = rng.random()
    if r < 0.25:
        steps = steps + [dict(st) for st in reversed(steps)]          # twins in both orders: A B ... B A
    elif r < 0.5:
        k = rng.randrange(len(steps))
        steps = steps[:k + 1] + [dict(steps[k])] + steps[k + 1:] + [dict(steps[k])]      # the same call repeated
    steps = steps[:8]
    return {"kind": "hist", "related": True, "steps": steps}, impl_steps(steps)


def mk_chip_key(i, ck):
    """the documented (x, y) chip identifier in several kinds"""
    if ck == "big":
        return (2 ** 64 + i, -i)
    if ck == "named":
        import collections
        if "xy" not in _SUBCLASSES:
            _SUBCLASSES["xy"] = collections.namedtuple("Chip", "x y")
        return _SUBCLASSES["xy"](i, 0)
    if ck == "str":
        return ("x%d %%s {}" % i, "{0} %d")
    if ck == "numpy":
        import numpy
        return (numpy.int64(i), numpy.uint8(0))
    if ck == "bool":
        return (i, False)
    return (i, 0)


def mk_dict(items, dk, default=None):
    import collections
    if dk == "ordered":
        return collections.OrderedDict(items)
    if dk == "default":
        d = collections.defaultdict(default or list)
        d.update(items)
        return d
    if dk == "subclass":
        return _entry_subclass()["d"](items)
    return dict(items)


def mts_impl(c):
    from rig.routing_table import minimise as mm
    ak = c.get("ak")
    ck, kw = (ak or {}).get("ck", "xy"), (ak or {}).get("kw", "pos")
    keys = [mk_chip_key(ch["chip"], ck) for ch in c["chips"]]
    index = {id(k): ch["chip"] for k, ch in zip(keys, c["chips"])}
    tables = mk_dict([(k, mk_table(ch["table"], ak)) for k, ch in zip(keys, c["chips"])], (ak or {}).get("dk", "dict"))
    if c["mode"] == "dict":
        items = [(k, mk_target(ch["target"], ak)) for k, ch in zip(keys, c["chips"])]
        tdk = (ak or {}).get("tdk", "dict")
        if tdk == "default":
            # a defaultdict giving None for the chips it does not list
            lengths = mk_dict([(k, v) for k, v in items if v is not None], "default", lambda: None)
        else:
            lengths = mk_dict(items, tdk)
    else:
        lengths = mk_target(c["chips"][0]["target"], ak)
    methods = impl_methods(c["methods"], ak)

    def chip_of(k):
        if id(k) in index:
            return index[id(k)]
        for kk, ch in zip(keys, c["chips"]):
            if kk == k:
                return ch["chip"]
        return None

    def go():
        if (ak or {}).get("mdef") and c["methods"] == ["rd", "oc"]:
            r = (mm.minimise_tables(routing_tables=tables, target_lengths=lengths) if kw == "kw" else
                 mm.minimise_tables(tables, lengths))                    # `methods` left at its default
        elif kw == "kw":
            r = mm.minimise_tables(routing_tables=tables, target_lengths=lengths, methods=methods)
        elif kw == "mixed":
            r = mm.minimise_tables(tables, lengths, methods=methods)
        else:
            r = mm.minimise_tables(tables, lengths, methods)
        return {"ok": [[chip_of(k), from_impl(v)] for k, v in r.items()]}
    res = call(go)
    if "err" in res and "chip" in res:
        res["chip"] = chip_of(_LAST_CHIP[0])
    return res


def eval_mts(ctx, cases, impls=None, ctxs=None):
    if impls is None:
        impls = [mts_impl(c) for c in cases]
    ctx0 = ctx
    reqs, idx = [], []
    for ci, (c, impl) in enumerate(zip(cases, impls)):
        reqs.append({"suite": "c04", "op": "mts", "methods": c["methods"], "chips": c["chips"]})
        idx.append((ci, "m", None))
        if "ok" in impl:
            got = dict((k, v) for k, v in impl["ok"])
            for ch in c["chips"]:
                reqs.append({"suite": "c04", "op": "equiv", "a": ch["table"], "b": got.get(ch["chip"], [])})
                idx.append((ci, "o", ch["chip"]))
    models, orcs = {}, {}
    for (ci, what, chip), r in zip(idx, ctx.lean(reqs)):
        if what == "m":
            models[ci] = r
        else:
            orcs[(ci, chip)] = r
    for ci, (c, impl) in enumerate(zip(cases, impls)):
        ctx = ctxs[ci] if ctxs else ctx0
        ctx.traces += 1
        ctx.tag("kind_mts")
        tag_ak(ctx, c, ("ek", "tk", "tgk", "kw", "mk", "ck", "dk", "tdk"))
        if (c.get("ak") or {}).get("mdef") and c["methods"] == ["rd", "oc"]:
            ctx.tag("mts_methods_default")
        if c.get("related"):
            ctx.tag("mts_related_" + c["related"], "mts_related_chips_%s" % ("2-3" if len(c["chips"]) < 4 else "4-8"))
        if models[ci] != impl:
            ctx.mismatch("c04.mts", "impl=%r model=%r" % (impl, models[ci]), c)
        if "exc" in impl:
            ctx.violation(exc_key(impl), "minimise_tables raised %s at %s" % (impl["exc"], impl.get("where")), c)
        elif "err" in impl:
            ctx.tag("mts_minfailed")
            ch = [x for x in c["chips"] if x["chip"] == impl.get("chip")]
            if not ch or ch[0]["target"] is None or impl["final"] <= ch[0]["target"] or impl["target"] != ch[0]["target"]:
                ctx.violation("minfailed-misreport", "minimise_tables raised %r" % (impl,), c)
        else:
            ctx.tag("mts_ok")
            got = dict((k, v) for k, v in impl["ok"])
            for x in c["chips"]:
                o = orcs[(ci, x["chip"])]
                tb = got.get(x["chip"], [])
                if "equiv" not in o:
                    ctx.tag("oracle_not_decided")
                elif not o["equiv"]:
                    ctx.violation("route-changed", "minimise_tables chip %d: key %#010x is routed differently (%d -> %d entries)"
                                  % (x["chip"], o.get("key", 0), len(x["table"]), len(tb)), c)
                if len(tb) > len(x["table"]):
                    ctx.violation("longer", "minimise_tables chip %d: %d -> %d entries" % (x["chip"], len(x["table"]), len(tb)), c)
                if x["target"] is not None and len(tb) > x["target"]:
                    ctx.violation("target-missed", "minimise_tables chip %d: %d entries for target %d" % (x["chip"], len(tb), x["target"]), c)
        got_all = dict((k, v) for k, v in impl["ok"]) if "ok" in impl else {}
        ctx.case({"mts": [[x["table"], x["target"]] for x in c["chips"]]}, "ok" in impl and any(
            len(got_all.get(x["chip"], [])) < len(x["table"]) for x in c["chips"]))


# --------------------------------------------------------------------------
# HISTORY stream: several minimisation calls in ONE process, each table derived from the previous call's result.
# The model is a pure function, so every call must give exactly what the model gives for that table alone and must
# satisfy the RouteEquiv oracle w.r.t. its own input; anything carried from one call to the next inside the
# implementation (module-level caches, mutable default arguments, objects shared between results) shows up as a
# mismatch or a route-changed violation whose failing input is the WHOLE history.
HIST_LOG = []        # (history case, [implementation result per step]) in execution order, this process


def step_impl(step):
    return mts_impl(step) if step["kind"] == "mts" else run_impl(step)


def impl_steps(steps):
    """run the steps in order on the implementation (also the entry point of the fresh-process confirmation)"""
    return [step_impl(s) for s in steps]


def merges_of(step, impl):
    """[(route, key, mask, [alias key/masks])]: entries of the call's result that are not entries of its input"""
    out = []
    if step["kind"] == "mts":
        if "ok" not in impl:
            return out
        got = dict((k, v) for k, v in impl["ok"])
        for ch in step["chips"]:
            inp = {(e[1], e[2]) for e in ch["table"]}
            out += [(e[0], e[1], e[2], []) for e in got.get(ch["chip"], []) if (e[1], e[2]) not in inp]
        return out
    inp = {(e[1], e[2]) for e in step["table"]}
    r = impl.get("oc_none") or impl.get("oc_nr")
    if r and "ok" in r:
        al = {tuple(k): v for k, v in r["ok"]["aliases"]}
        out += [(e[0], e[1], e[2], al.get((e[1], e[2]), [])) for e in r["ok"]["table"] if (e[1], e[2]) not in inp]
    for nm in ("ocmin_none", "mt_default"):
        tb = out_table(impl.get(nm, {}))
        for e in tb or []:
            if (e[1], e[2]) not in inp and not any(x[1:3] == (e[1], e[2]) for x in out):
                out.append((e[0], e[1], e[2], []))
    return out


def derive_table(rng, merges, env):
    """a table for the next call: original entries whose key/mask equals a key/mask PRODUCED BY A MERGE of an earlier
    call (with a different route), sometimes that merge's aliases too, plus pairs of same-route entries just outside
    such a key/mask whose merge overlaps it (preferably on keys that are not in the earlier aliases), plus noise"""
    U = 1 << NONE_BIT
    pos, routes = env["pos"], env["routes"]
    table = []
    for (r, k, m, al) in rng.sample(merges, min(len(merges), rng.choice([1, 1, 2]))):
        others = [x for x in routes + [1 << rng.randrange(6), 1 << rng.randrange(6, 24)] if x != r and x != 0] or [r ^ 1 or 2]
        r1 = rng.choice(others)
        table.append([r1, k, m, U])
        if al and rng.random() < 0.3:
            a = rng.choice(al)
            table.append([rng.choice(others), a[0], a[1], U])
        fixed = [b for b in range(32) if (m >> b) & 1]
        xact = [b for b in pos if not (m >> b) & 1 and not (k >> b) & 1]
        if len(fixed) >= 2:
            pm = m | sum(1 << b for b in xact)
            cands = []
            for bits in range(1 << len(xact)):
                x = k | sum(1 << b for j, b in enumerate(xact) if (bits >> j) & 1)
                cands.append(x)
            free = [x for x in cands if not any(km_intersect((x, pm), (a[0], a[1])) for a in al)]
            r2 = rng.choice([x for x in others if x != r1] or others)
            for _ in range(rng.choice([1, 1, 2])):
                x = rng.choice(free or cands)
                fa = [b for b in fixed if b in pos] or fixed
                b1 = rng.choice(fa)
                b2 = rng.choice([b for b in fixed if b != b1])
                table.append([r2, x ^ (1 << b1), pm, U])
                table.append([r2, x ^ (1 << b2), pm, U])
    table += gen_small_table(rng, pos, env["base_key"], env["base_mask"], "sorted", rng.choice([0, 0, 1, 2, 3]),
                             routes, env["smode"], env["px"])
    seen, out = set(), []
    for e in table:
        if tuple(e[:3]) not in seen:
            seen.add(tuple(e[:3]))
            out.append(e)
    out.sort(key=lambda e: generality(e[1], e[2]))
    return out


def plain_step(rng, table):
    light = rng.random() < 0.7
    c = {"kind": "sorted", "table": table, "target": None if light else gen_target(rng, len(table)),
         "target2": gen_target(rng, len(table)) if rng.random() < 0.4 else None, "methods": rng.choice(METHOD_LISTS)}
    if light:
        c["light"] = True
    else:
        c["internals"] = False
    if rng.random() < 0.4:
        c["ak"] = gen_ak(rng)
    return c


def gen_history(rng):
    """generate AND run (the derivation needs the results) one history; returns (case, implementation results)"""
    nbits = rng.choice([3, 4, 4, 5])
    pos = sorted(rng.sample(range(32), nbits))
    base_mask = base_key = 0
    r = rng.random()
    if r < 0.6:
        base_mask = M32 & ~sum(1 << b for b in pos)
        base_key = (rng.getrandbits(32) if rng.random() < 0.5 else 0) & base_mask
    elif r < 0.8:
        for b in range(32):
            if b not in pos and rng.random() < 0.5:
                base_mask |= 1 << b
    env = {"pos": pos, "base_key": base_key, "base_mask": base_mask, "routes": gen_routes(rng, rng.randint(1, 3)),
           "smode": rng.choice(["unknown", "unknown", "mix"]), "px": rng.choice([0.0, 0.1, 0.25])}
    first = gen_small_table(rng, pos, base_key, base_mask, rng.choice(["orth", "sorted"]), rng.choice([2, 3, 4, 6, 8]),
                            env["routes"], env["smode"], env["px"])
    steps, impls = [plain_step(rng, first)], []
    impls.append(step_impl(steps[0]))
    merges = merges_of(steps[0], impls[0])
    tables = [first]
    for _ in range(rng.choice([1, 1, 2, 3])):
        nxt = derive_table(rng, merges, env) if merges else gen_small_table(
            rng, pos, base_key, base_mask, "sorted", rng.choice([2, 4, 6]), env["routes"], env["smode"], env["px"])
        tables.append(nxt)
        if rng.random() < 0.4:
            # several chips in ONE minimise_tables call: earlier tables first, the derived one after them
            chosen = rng.sample(tables[:-1], min(len(tables) - 1, rng.randint(1, 2))) + [nxt]
            if rng.random() < 0.3:
                chosen.append(tables[0])
            step = {"kind": "mts", "mode": rng.choice(["none", "none", "dict"]), "methods": rng.choice(METHOD_LISTS),
                    "chips": [{"chip": i, "table": t, "target": None} for i, t in enumerate(chosen)]}
            if step["mode"] == "dict":
                for ch in step["chips"]:
                    ch["target"] = gen_target(rng, len(ch["table"]))
        else:
            step = plain_step(rng, nxt)
        steps.append(step)
        impls.append(step_impl(step))
        merges = merges_of(step, impls[-1]) + merges[:4]
    return {"kind": "hist", "steps": steps}, impls


class _HistCtx(object):
    """reports a finding of one step with the whole history as the failing input"""

    def __init__(self, ctx, hist, si):
        self._ctx, self._hist, self._si = ctx, hist, si

    def _case(self):
        c = dict(self._hist)
        c["failed_step"] = self._si
        return c

    @property
    def traces(self):
        return self._ctx.traces

    @traces.setter
    def traces(self, v):
        self._ctx.traces = v

    def lean(self, reqs):
        return self._ctx.lean(reqs)

    def tag(self, *a):
        return self._ctx.tag(*a)

    def case(self, *a, **k):
        return self._ctx.case(*a, **k)

    def violation(self, key, what, case):
        self._ctx.violation(key, "history of %d calls in one process, call %d: %s" % (
            len(self._hist.get("steps") or self._hist.get("ops") or []), self._si + 1, what), self._case())

    def mismatch(self, suite, detail, case):
        self._ctx.mismatch(suite, "history call %d/%d: %s" % (
            self._si + 1, len(self._hist.get("steps") or self._hist.get("ops") or []), detail), self._case())


def eval_hist(ctx, hists, impls=None):
    """`impls[i]` = results of history i if it has already been run (generation); otherwise run it now, in order"""
    if impls is None:
        impls = [impl_steps(h["steps"]) for h in hists]
    plain, pimpl, pctx, mts, mimpl, mctx = [], [], [], [], [], []
    for h, im in zip(hists, impls):
        ctx.tag("kind_hist", "hist_len_%d" % len(h["steps"]))
        for si, (st, r) in enumerate(zip(h["steps"], im)):
            hc = _HistCtx(ctx, h, si)
            if st["kind"] == "mts":
                mts.append(st), mimpl.append(r), mctx.append(hc)
            else:
                plain.append(st), pimpl.append(r), pctx.append(hc)
            if si > 0 and merges_of(st, r):
                ctx.tag("hist_derived_step_merged")
    if plain:
        _eval_plain(ctx, plain, pimpl, pctx)
    if mts:
        eval_mts(ctx, mts, mimpl, mctx)


def fresh_impl(steps):
    """the implementation's results for `steps` in a NEW interpreter (no state left by earlier cases)"""
    import json
    import subprocess
    import sys
    from harness import common
    here = _os.path.dirname(_os.path.dirname(_os.path.abspath(__file__)))
    code = ("import sys, json, warnings\nwarnings.simplefilter('ignore')\nsys.path[:0] = [%r, %r]\n"
            "from harness import c04\nprint('\\n@@' + json.dumps(c04.impl_steps(json.load(sys.stdin))))" % (common.REPO, here))
    p = subprocess.run([sys.executable, "-c", code], input=json.dumps(steps).encode(), stdout=subprocess.PIPE,
                       stderr=subprocess.PIPE, timeout=900)
    out = p.stdout.decode()
    if p.returncode != 0 or "\n@@" not in out:
        raise RuntimeError("fresh interpreter failed: %s" % p.stderr.decode()[-300:])
    return json.loads(out.rsplit("\n@@", 1)[1])


def confirm_findings(ctx):
    """make the first finding of every class replayable in a fresh process.  A history is re-run in a new interpreter;
    if its results differ there, state left by EARLIER histories of this run is involved and the replay is extended
    to all histories run so far.  A single-table finding that does not reproduce in a new interpreter is re-tried
    behind all histories of this run and, if it then reproduces, reported as that (long) history."""
    from harness import common
    seen, front = set(), []
    for key, what, case in list(ctx.concrete):
        if key in seen or len(seen) >= 4:
            continue
        seen.add(key)
        try:
            if case.get("kind") == "hist":
                mine = [im for h, im in HIST_LOG if h["steps"] is case["steps"] or h["steps"] == case["steps"]]
                if not mine:
                    continue
                fs = case.get("failed_step")
                if fs is not None and fs < len(mine[0]) and len(case["steps"]) > 1:
                    # does the failing call fail on its own (nothing carried over from the earlier calls)?
                    alone = fresh_impl([case["steps"][fs]])[0]
                    if common.canon(alone) == common.canon(mine[0][fs]):
                        ctx.tag("hist_finding_single_call")
                        front.append((key, what + " [the call alone reproduces it: the replay is that call]",
                                      case["steps"][fs]))
                        continue
                if common.canon(fresh_impl(case["steps"])) == common.canon(mine[0]):
                    ctx.tag("hist_finding_self_contained")
                    continue
                allsteps, upto = [], 0
                for h, im in HIST_LOG:
                    allsteps += h["steps"]
                    if h["steps"] == case["steps"]:
                        break
                ctx.tag("hist_finding_needs_earlier_histories")
                front.append((key, what + " [depends on state left by earlier histories of the run: the replay carries "
                              "all of them]", {"kind": "hist", "steps": allsteps, "failed_step": len(allsteps) - 1}))
            elif "table" in case and HIST_LOG:
                pr = _Probe(ctx)
                _eval_plain(pr, [case], fresh_impl([case]))
                if any(k == key for k, _, _ in pr.concrete):
                    continue                                  # reproduces on its own
                steps = [st for h, _ in HIST_LOG for st in h["steps"]] + [case]
                pr = _Probe(ctx)
                _eval_plain(pr, [case], [fresh_impl(steps)[-1]])
                if any(k == key for k, _, _ in pr.concrete):
                    ctx.tag("finding_needs_history")
                    front.append((key, what + " [only after the histories run before it in the same process: the replay "
                                  "carries them]", {"kind": "hist", "steps": steps, "failed_step": len(steps) - 1}))
        except Exception:
            pass
    ctx.concrete[:0] = front


# --------------------------------------------------------------------------
# SCALE: a handful of cases far beyond the usual size (the router holds 1024 entries; machines have tens of thousands of
# chips).  Same judgement as every other case; the per-call CPU limit is raised for them.
def gen_scale_cases(rng, quick):
    def dense(nb, n, routes, xshare=0.0):
        pos = sorted(rng.sample(range(32), nb))
        base_mask = M32 & ~sum(1 << b for b in pos)
        base_key = rng.getrandbits(32) & base_mask
        out, seen = [], set()
        for v in rng.sample(range(1 << nb), min(n, 1 << nb)):
            key, mask = base_key, M32
            for j, b in enumerate(pos):
                if (v >> j) & 1:
                    key |= 1 << b
            if rng.random() < xshare:
                b = rng.choice(pos)
                mask &= ~(1 << b)
                key &= ~(1 << b)
            if (key, mask) in seen:
                continue
            seen.add((key, mask))
            r = rng.choice(routes)
            links = [i for i in range(6) if r == 1 << i]
            src = 1 << ((links[0] + 3) % 6) if links and rng.random() < 0.3 else 1 << NONE_BIT
            out.append([r, key, mask, src])
        out.sort(key=lambda e: generality(e[1], e[2]))
        return out
    cases = []
    sizes = [(9, 257, [1, 8], 0.0), (11, 1025, [2, 16], 0.2)] + ([] if quick else [(10, 1024, [1, 4, 1 << 7], 0.0)])
    for nb, n, routes, xs in sizes:
        cases.append({"kind": "sorted", "table": dense(nb, n, routes, xs), "target": None,
                      "target2": rng.choice([None, 1024, 2 ** 64]), "methods": ["rd", "oc"], "light": True, "scale": True})
    big = dense(13, 5000, [1, 8], 0.0)
    cases.append({"kind": "any", "table": big, "target": rng.choice([0, 4999, 2 ** 100]), "target2": None, "methods": [],
                  "scale": True})
    two = dense(11, 1500, [1, 8], 0.5)
    cases.append({"kind": "any", "table": two, "target": 1500, "target2": None, "methods": [], "scale": True})
    nchips = 2000 if quick else 65537
    protos = [dense(3, rng.randint(1, 3), [1, 8, 1 << 9], 0.0) for _ in range(7)]
    chips = [{"chip": i, "table": vary_sources(rng, protos[i % 7]) if i % 3 == 0 else protos[i % 7], "target": 2 ** 32}
             for i in range(nchips)]
    cases.append({"kind": "mts", "chips": chips, "mode": "int", "methods": ["rd", "oc"], "scale": True,
                  "ak": {"dk": "default", "ck": "xy", "kw": "kw"}})
    return cases


# --------------------------------------------------------------------------
# THE CALLER KEEPS AND EDITS (case kind "rb"): a short program of calls on LIVE objects.  The caller edits in place the
# lists / dicts / sets it passed and the ones it was handed back and calls again with the very same objects, keeps
# every result and looks at it again at the end, repeats calls, and supplies its own (sometimes failing) methods.
# Before every call the arguments are snapshotted; the model is asked about the snapshot, so each call must equal the
# pure model on what was actually passed and pass the RouteEquiv oracle; a kept result that changed without the
# caller touching it is judged by the oracle against the input it was computed from.
def is_good(table):
    gens = [generality(e[1], e[2]) for e in table]
    if all(gens[i] <= gens[i + 1] for i in range(len(gens) - 1)):
        return True
    return all(not km_intersect((table[i][1], table[i][2]), (table[j][1], table[j][2]))
               for i in range(len(table)) for j in range(i + 1, len(table)))


def rb_edit_table(obj, edits):
    """edit a live list of entries in place; returns True if some entry's `sources` set was edited"""
    from rig.routing_table import RoutingTableEntry
    touched_sets = False
    for ed in edits:
        if ed[0] == "append":
            # another entry with the key/mask of the last one (keeps a generality-sorted table sorted)
            k, m = (obj[-1].key, obj[-1].mask) if obj else (0, M32)
            obj.append(RoutingTableEntry(set_of(ed[1], False), k, m, {None}))
        elif ed[0] == "del" and obj:
            del obj[ed[1] % len(obj)]
        elif ed[0] == "set_route" and obj:
            i = ed[1] % len(obj)
            e = obj[i]
            obj[i] = RoutingTableEntry(set_of(ed[2], False), e.key, e.mask, set(e.sources))
        elif ed[0] == "src_add" and obj:
            e = obj[ed[1] % len(obj)]
            if isinstance(e.sources, set):
                e.sources.add(None if ed[2] == NONE_BIT else set_of(1 << ed[2], False).pop())
                touched_sets = True
        elif ed[0] == "src_discard" and obj:
            e = obj[ed[1] % len(obj)]
            if isinstance(e.sources, set) and len(e.sources) > 1:
                e.sources.discard(sorted(e.sources, key=lambda x: -1 if x is None else x)[ed[2] % len(e.sources)])
                touched_sets = True
    return touched_sets


class _Faulty(object):
    """a caller-supplied minimisation method that fails"""

    def __init__(self, spec):
        self.spec = spec

    def __call__(self, table, target_length):
        from rig.routing_table import MinimisationFailedError
        if self.spec["kind"] == "raise":
            raise RuntimeError("the caller's method failed")
        raise MinimisationFailedError(target_length, self.spec["final"])


def run_rb(c):
    """execute the program on the implementation; -> list of observations (all JSON)"""
    from rig.routing_table import remove_default_routes as rdm, ordered_covering as ocm, minimise as mm
    live, obs, taint_all_from = [], [], None

    def holders(x):
        """earlier calls that passed or were handed back the object x (directly or as a value of a dict)"""
        out = []
        for k, L in enumerate(live):
            for o2 in (L.get("passed"), L.get("returned")):
                if o2 is x or (isinstance(o2, dict) and any(v is x for v in o2.values())):
                    out.append(k)
        return out
    for oi, op in enumerate(c["ops"]):
        f, src = op["f"], op["src"]
        L = {"passed": None, "returned": None, "aliases_passed": None, "aliases_returned": None}
        o = {"f": f, "edited": []}
        if f == "mts":
            if "new" in src:
                chips = src["new"]
                keys = [(ch["chip"], 0) for ch in chips]
                tables = dict((k, to_impl(ch["table"])) for k, ch in zip(keys, chips))
                lengths = dict((k, ch["target"]) for k, ch in zip(keys, chips)) if op["mode"] == "dict" else op.get("target")
            else:
                j = src["passed"] if "passed" in src else src["returned"]
                prev = live[j]
                if "returned" in src:
                    tables, lengths = prev["returned"], prev["lengths"]
                    if not isinstance(tables, dict):
                        tables, lengths = prev["passed"], prev["lengths"]
                else:
                    tables, lengths = prev["passed"], prev["lengths"]
                o["edited"] += holders(tables) if src.get("edits") else []
                for ed in src.get("edits", []):
                    ks = list(tables.keys())
                    if ed[0] == "chip_del" and len(ks) > 1:
                        k = ks[ed[1] % len(ks)]
                        del tables[k]
                    elif ed[0] == "chip_add":
                        k = (1000 + oi * 10 + ed[1], 0)
                        tables[k] = to_impl(ed[2])
                        if isinstance(lengths, dict):
                            lengths[k] = ed[3]
                    elif ed[0] == "tbl" and ks:
                        k = ks[ed[1] % len(ks)]
                        if isinstance(tables[k], list):
                            o["edited"] += holders(tables[k])
                            if rb_edit_table(tables[k], [ed[2]]):
                                taint_all_from = oi
                    elif ed[0] == "target_set" and isinstance(lengths, dict) and ks:
                        lengths[ks[ed[1] % len(ks)]] = ed[2]
                    elif ed[0] == "target_all":
                        if isinstance(lengths, dict):
                            for k in list(lengths):
                                lengths[k] = ed[1]
                        else:
                            lengths = ed[1]
                if isinstance(lengths, dict):
                    for k in tables:
                        lengths.setdefault(k, None)
            L["passed"], L["lengths"] = tables, lengths
            ks = list(tables.keys())
            snap = [{"chip": n, "table": from_impl(tables[k]),
                     "target": lengths[k] if isinstance(lengths, dict) else lengths} for n, k in enumerate(ks)]
            o["chips"], o["mode"], o["methods"] = snap, "dict", op["methods"]

            def go():
                r = mm.minimise_tables(tables, lengths, impl_methods(op["methods"]))
                L["returned"] = r
                return {"ok": [[ks.index(k), from_impl(v)] for k, v in r.items()]}
            res = call(go)
            if "err" in res and "chip" in res:
                res["chip"] = ks.index(_LAST_CHIP[0]) if _LAST_CHIP[0] in ks else None
            o["res"] = res
            o["good"] = all(is_good(ch["table"]) for ch in snap)
            o["after"] = [from_impl(tables[k]) for k in ks] if all(k in tables for k in ks) else None
        else:
            if "new" in src:
                table = to_impl(src["new"])
            else:
                j = src["passed"] if "passed" in src else src["returned"]
                table = live[j]["passed" if "passed" in src else "returned"]
                if not isinstance(table, list):
                    table = live[j]["passed"]
                if not isinstance(table, list):
                    table = to_impl([])
                if src.get("edits"):
                    o["edited"] += holders(table)
                if rb_edit_table(table, src.get("edits", [])):
                    taint_all_from = oi
            L["passed"] = table
            snap = from_impl(table)
            o["table"], o["target"], o["methods"] = snap, op.get("target"), op.get("methods")
            good = is_good(snap) and all(e[3] for e in snap)
            o["good"] = good
            if not good and f != "rd":
                f = o["f"] = "rd"          # outside the domain claimed for ordered covering: default-route removal only
            t = op.get("target")
            if f == "rd":
                o["res"] = call(lambda: (L.__setitem__("returned", rdm.minimise(table, t)), {"ok": from_impl(L["returned"])})[1])
            elif f == "ocmin":
                o["res"] = call(lambda: (L.__setitem__("returned", ocm.minimise(table, t)), {"ok": from_impl(L["returned"])})[1])
            elif f == "oc":
                al_spec = op.get("aliases", "fresh")
                if al_spec == "fresh":
                    al = {}
                else:
                    al = live[al_spec["op"]][("aliases_" + al_spec["which"])] or {}
                L["aliases_passed"] = al
                o["aliases"] = canon_aliases(al)
                o["no_raise"] = bool(op.get("no_raise")) or bool(o["aliases"])

                def go():
                    r = ocm.ordered_covering(table, t, al, o["no_raise"])
                    L["returned"], L["aliases_returned"] = r[0], r[1]
                    return {"ok": {"table": from_impl(r[0]), "aliases": canon_aliases(r[1])}}
                o["res"] = call(go)
                o["aliases_after"] = canon_aliases(al)
            else:
                ms = impl_methods(op["methods"])
                cb = op.get("callback")
                if cb:
                    ms.insert(cb["pos"] % (len(ms) + 1), _Faulty(cb))
                    o["callback"] = dict(cb, pos=cb["pos"] % (len(op["methods"]) + 1))
                o["res"] = call(lambda: (L.__setitem__("returned", mm.minimise_table(table, t, ms)), {"ok": from_impl(L["returned"])})[1])
            o["after"] = from_impl(table)
        o["tainted_from"] = taint_all_from
        live.append(L)
        obs.append(o)
    # the caller looks at everything it kept once more
    for o, L in zip(obs, live):
        r = L.get("returned")
        if r is None:
            o["kept"] = None
        elif isinstance(r, dict):
            ks = list(L["passed"].keys())
            try:
                o["kept"] = {"ok": [[ks.index(k) if k in ks else -1, from_impl(v)] for k, v in r.items()]}
            except Exception as e:
                o["kept"] = {"exc": type(e).__name__}
        else:
            o["kept"] = {"ok": from_impl(r)}
    return obs


def gen_rb(rng):
    kind, fam = related_family(rng, 3)
    fam = [t for t in fam if is_good(t)] or [[]]
    ops = []
    n = rng.choice([2, 3, 3, 4, 5])

    def edits(table_len):
        out = []
        for _ in range(rng.randint(1, 2)):
            r = rng.random()
            if r < 0.25:
                out.append(["append", rng.choice([1, 2, 4, 1 << rng.randrange(24)])])
            elif r < 0.45:
                out.append(["del", rng.randrange(8)])
            elif r < 0.65:
                out.append(["set_route", rng.randrange(8), 1 << rng.randrange(6)])
            elif r < 0.85:
                out.append(["src_add", rng.randrange(8), rng.choice([NONE_BIT] + list(range(6)))])
            else:
                out.append(["src_discard", rng.randrange(8), rng.randrange(3)])
        return out
    for i in range(n):
        prev_tbl = [j for j, o in enumerate(ops) if o["f"] != "mts"]
        prev_mts = [j for j, o in enumerate(ops) if o["f"] == "mts"]
        f = rng.choice(["rd", "oc", "ocmin", "mt", "mt", "mts"])
        op = {"f": f, "methods": rng.choice(METHOD_LISTS)}
        if f == "mts":
            if prev_mts and rng.random() < 0.7:
                j = rng.choice(prev_mts)
                eds = []
                for _ in range(rng.randint(0, 2)):
                    r = rng.random()
                    if r < 0.2:
                        eds.append(["chip_del", rng.randrange(8)])
                    elif r < 0.4:
                        eds.append(["chip_add", len(eds), rng.choice(fam), gen_target(rng, 4)])
                    elif r < 0.7:
                        eds.append(["tbl", rng.randrange(8), edits(0)[0]])
                    elif r < 0.85:
                        eds.append(["target_set", rng.randrange(8), gen_target(rng, 4)])
                    else:
                        eds.append(["target_all", rng.choice([None, None, 0, 2, 2 ** 64])])
                op["src"] = {rng.choice(["passed", "passed", "returned"]): j, "edits": eds}
                op["mode"] = "dict"
            else:
                chips = [{"chip": k, "table": rng.choice(fam), "target": None} for k in range(rng.randint(1, 4))]
                op["mode"] = rng.choice(["dict", "none", "int"])
                op["target"] = None
                if op["mode"] == "dict":
                    for ch in chips:
                        ch["target"] = gen_target(rng, len(ch["table"]))
                elif op["mode"] == "int":
                    op["target"] = rng.randint(0, 6)
                    for ch in chips:
                        ch["target"] = op["target"]
                op["src"] = {"new": chips}
        else:
            if prev_tbl and rng.random() < 0.75:
                j = rng.choice(prev_tbl)
                which = rng.choice(["passed", "passed", "returned"])
                op["src"] = {which: j, "edits": edits(0) if rng.random() < 0.8 else []}     # no edit = the same call again
            else:
                op["src"] = {"new": rng.choice(fam)}
            op["target"] = gen_target(rng, 5)
            if f == "oc":
                op["no_raise"] = rng.random() < 0.5
                prev_oc = [j for j, o in enumerate(ops) if o["f"] == "oc"]
                if prev_oc and rng.random() < 0.5:
                    op["aliases"] = {"op": rng.choice(prev_oc), "which": rng.choice(["passed", "returned"])}
            if f == "mt" and rng.random() < 0.4 and op["target"] is not None:
                op["callback"] = {"kind": rng.choice(["raise", "fail_mf"]), "pos": rng.randrange(4),
                                  "final": rng.randint(0, 12)}
            elif f == "mt" and rng.random() < 0.15:
                op["callback"] = {"kind": "raise", "pos": rng.randrange(4), "final": 0}
        ops.append(op)
    return {"kind": "rb", "ops": ops}


def eval_rb(ctx, cases, observations=None):
    if observations is None:
        observations = [run_rb(c) for c in cases]
    S = "c04"
    reqs, idx = [], []

    def ask(ci, oi, name, rq):
        reqs.append(rq)
        idx.append((ci, oi, name))
    for ci, (c, obs) in enumerate(zip(cases, observations)):
        for oi, o in enumerate(obs):
            if o["f"] == "mts":
                ask(ci, oi, "m", {"suite": S, "op": "mts", "methods": o["methods"], "chips": o["chips"]})
                for which in ("res", "kept"):
                    r = o.get(which)
                    if r and "ok" in r:
                        got = dict((k, v) for k, v in r["ok"])
                        for ch in o["chips"]:
                            ask(ci, oi, ("e", which, ch["chip"]), {"suite": S, "op": "equiv", "a": ch["table"],
                                                                 "b": got.get(ch["chip"], [])})
                continue
            T, t = o["table"], o["target"]
            if o["f"] == "rd":
                ask(ci, oi, "m", {"suite": S, "op": "rd", "table": T, "target": t, "check": True})
            elif o["f"] == "ocmin":
                ask(ci, oi, "m", {"suite": S, "op": "ocmin", "table": T, "target": t})
            elif o["f"] == "oc":
                ask(ci, oi, "m", {"suite": S, "op": "oc", "table": T, "target": t, "aliases": o["aliases"],
                                  "no_raise": o["no_raise"]})
                if o["aliases"]:
                    ask(ci, oi, "aliasok", {"suite": "c04u", "op": "aliasok", "table": T, "aliases": o["aliases"]})
            else:
                cb = o.get("callback")
                if cb:
                    ask(ci, oi, "m_prefix", {"suite": S, "op": "mt", "table": T, "target": t,
                                             "methods": o["methods"][:max(0, cb["pos"])]})
                ask(ci, oi, "m", {"suite": S, "op": "mt", "table": T, "target": t, "methods": o["methods"]})
            for which in ("res", "kept"):
                tb = out_table(o.get(which) or {})
                if tb is not None:
                    ask(ci, oi, ("e", which), {"suite": S, "op": "equiv", "a": T, "b": tb})
    rep = {}
    for key, r in zip(idx, ctx.lean(reqs)):
        rep[key] = r
    mts_batch = []
    for ci, (c, obs) in enumerate(zip(cases, observations)):
        ctx.tag("kind_rb")
        nontriv = False
        for oi, o in enumerate(obs):
            hc = _HistCtx(ctx, {"kind": "rb", "ops": c["ops"]}, oi)
            op = c["ops"][oi]
            for k in ("passed", "returned"):
                if k in op["src"]:
                    ctx.tag("rb_reuse_%s_%s" % (k, "edited" if op["src"].get("edits") else "same_call_again"))
            if o.get("after") is not None and o["f"] != "mts" and o["after"] != o["table"]:
                ctx.tag("rb_input_modified_by_call")          # not demanded by the property: counted only
            if o.get("aliases_after") is not None and o["aliases_after"] != o["aliases"]:
                ctx.tag("rb_passed_aliases_modified_by_call")
            model = rep.get((ci, oi, "m"))
            if o["f"] == "mts":
                mc = {"kind": "mts", "chips": o["chips"], "mode": "dict", "methods": o["methods"]}
                if o["good"]:
                    mts_batch.append((mc, o["res"], hc))
                elif model != o["res"] and "exc" not in o["res"]:
                    ctx.tag("rb_mts_outside_domain")
                kept_ok = True
            else:
                T, t, res = o["table"], o["target"], o["res"]
                name = {"rd": "rd", "ocmin": "ocmin", "mt": "mt"}.get(o["f"]) or (
                    "oc_al" if o["aliases"] else "oc_nr" if o["no_raise"] else "oc")
                pc = {"kind": "sorted" if o["good"] else "any", "table": T, "target": t, "target2": t,
                      "methods": o["methods"] or []}
                cb = o.get("callback")
                if cb:
                    ctx.tag("rb_callback_" + cb["kind"])
                    if cb["kind"] == "raise":
                        pre = rep.get((ci, oi, "m_prefix"))
                        exp = pre if (t is not None and pre and "ok" in pre) else {"exc": "RuntimeError"}
                    else:
                        exp = model
                        if exp and "err" in exp:
                            exp = dict(exp, final=min(exp["final"], cb["final"]))
                    if "exc" in exp or "err" in exp:
                        if {k: v for k, v in res.items() if k != "where"} != exp:
                            hc.mismatch("c04.rb-callback", "a caller-supplied failing method: impl=%r expected=%r" % (res, exp), None)
                        continue
                    model = exp
                if name == "oc_al":
                    pc["aliases"] = o["aliases"]
                orc = {name: rep.get((ci, oi, ("e", "res")))}
                if name == "oc_al":
                    orc["__aliasok"] = rep.get((ci, oi, "aliasok"))
                if name in ("oc_nr", "oc_al") and t is not None and "ok" in res and not cb:
                    pass
                judge(hc, pc, {name: res}, {name: model}, orc)
                if "ok" in res and len(out_table(res)) < len(T):
                    nontriv = True
            # (c) the kept result, looked at again after all later calls
            kept, res = o.get("kept"), o["res"]
            later = obs[oi + 1:]
            tainted = any(oi in x["edited"] for x in later) or any(
                x["tainted_from"] is not None and x["tainted_from"] > oi for x in later[-1:])
            if kept is not None and "ok" in res and not tainted:
                then = out_table(res) if o["f"] != "mts" else res["ok"]
                now = out_table(kept) if o["f"] != "mts" else kept.get("ok")
                if now != then:
                    ctx.tag("rb_kept_result_changed")
                    bad = None
                    if o["f"] == "mts":
                        for ch in o["chips"]:
                            e = rep.get((ci, oi, ("e", "kept", ch["chip"])))
                            if e and e.get("equiv") is False:
                                bad = e
                    else:
                        e = rep.get((ci, oi, ("e", "kept")))
                        if e and e.get("equiv") is False:
                            bad = e
                    if bad is not None and o["good"]:
                        hc.violation("route-changed", "the table returned by this call changed AFTER it was returned (the "
                                     "caller did not touch it) and now routes key %#010x differently from the table it was "
                                     "computed from" % bad.get("key", 0), None)
                    else:
                        hc.mismatch("c04.rb-kept-result", "a returned table changed after it was returned although the caller "
                                    "did not touch it: then %r now %r" % (then, now), None)
                else:
                    ctx.tag("rb_kept_result_unchanged")
            elif tainted:
                ctx.tag("rb_kept_result_edited_by_caller")
        ctx.case({"rb": c["ops"]}, nontriv)
    if mts_batch:
        eval_mts(ctx, [m for m, _, _ in mts_batch], [r for _, r, _ in mts_batch], [h for _, _, h in mts_batch])


# --------------------------------------------------------------------------
# rig/routing_table/utils.py (table_is_subset_of, expand_entries, get_common_xs, intersect) and entries.py
FULL_SOURCES = (1 << 25) - 1
EXPAND_LIMIT = 4096
# table_is_subset_of / expand_entries / get_common_xs, Routes.core / core_num / initial and RoutingTableEntry.__str__
# are NOT used by the minimisers, so a change of their behaviour cannot violate C04.  A difference between these helpers
# and their Lean models is therefore recorded in the evidence (coverage.helper_deviations, tag helper_deviation_*) and
# does not influence the verdict, unless escalation is asked for (VERIF_C04_HELPERS=strict).  `intersect` is used by the
# minimisers and stays an ordinary correspondence mismatch.
import os as _os
HELPERS_STRICT = _os.environ.get("VERIF_C04_HELPERS", "") == "strict"


def helper_dev(ctx, suite, detail, case):
    if HELPERS_STRICT:
        ctx.mismatch(suite, detail, case)
        return
    ctx.tag("helper_deviation_" + suite)
    lst = ctx.extra.setdefault("helper_deviations", [])
    if len(lst) < 5:
        lst.append({"suite": suite, "detail": detail[:600], "case": case})


def expansion_size(a, ignore):
    """number of entries expand_entries would enumerate (before the seen_keys filter)"""
    return sum(1 << bin(~e[1] & ~e[2] & ~ignore & M32).count("1") for e in a)


def common_xs_py(b):
    k = m = 0
    for e in b:
        k |= e[1]
        m |= e[2]
    return ~(k | m) & M32


def gen_small_table(rng, pos, base_key, base_mask, kind, n, routes, smode, px):
    table, tries = [], 0
    while len(table) < n and tries < 8 * n + 20:
        tries += 1
        key, mask = base_key, base_mask
        for b in pos:
            r = rng.random()
            if kind == "ill" and r > 0.93:
                key |= 1 << b
            elif r >= px:
                mask |= 1 << b
                if rng.random() < 0.5:
                    key |= 1 << b
        if kind == "orth" and any(km_intersect((key, mask), (e[1], e[2])) for e in table):
            continue
        route = rng.choice(routes)
        table.append([route, key, mask, gen_sources(rng, smode, route, False)])
    if kind != "orth" or rng.random() < 0.3:
        table.sort(key=lambda e: generality(e[1], e[2]))
    return table


def gen_utils_case(rng):
    nbits = rng.choice([2, 3, 3, 4, 4, 5, 6])
    pos = sorted(rng.sample(range(32), nbits))
    base_mask = base_key = 0
    mode = rng.random()
    if mode < 0.5:                      # inactive positions fixed to a common value in both tables
        base_mask = M32 & ~sum(1 << b for b in pos)
        base_key = rng.getrandbits(32) & base_mask
    elif mode < 0.75:                   # a share fixed, the rest X everywhere (common Xs of b unless b is empty)
        for b in range(32):
            if b not in pos and rng.random() < 0.5:
                base_mask |= 1 << b
                if rng.random() < 0.5:
                    base_key |= 1 << b
    routes = gen_routes(rng, rng.randint(1, 4))
    smode = rng.choice(["unknown", "default", "mix", "any"])
    kind = rng.choice(["orth", "orth", "orth", "sorted", "sorted", "ill"])
    px = rng.choice([0.0, 0.15, 0.3, 0.5])
    a = gen_small_table(rng, pos, base_key, base_mask, kind, rng.choice([0, 1, 2, 3, 4, 6, 8, 12]), routes, smode, px)
    how = rng.choice(["min", "min", "rd", "self", "mutate", "mutate", "other", "other", "empty", "sub"])
    c = {"kind": "u_subset", "akind": kind, "a": a, "how": how,
         "ignore": rng.choice([None, None, 0, "b", common_xs_py(a) | rng.getrandbits(32)])}
    if how in ("other", "sub"):
        p2 = pos if how == "other" else sorted(rng.sample(pos, rng.randint(0, len(pos))))
        bm = base_mask if how == "other" else base_mask | sum(1 << b for b in pos if b not in p2 and rng.random() < 0.5)
        c["b"] = gen_small_table(rng, p2, base_key & bm, bm, rng.choice(["orth", "sorted"]), rng.choice([0, 1, 2, 4, 6]),
                                 routes, smode, px)
    elif how == "self":
        c["b"] = [list(e) for e in a]
        if kind == "orth":
            rng.shuffle(c["b"])
    elif how == "empty":
        c["b"] = []
    elif how == "mutate":
        b = [list(e) for e in a]
        for _ in range(rng.randint(1, 2)):
            if not b:
                break
            i = rng.randrange(len(b))
            r = rng.random()
            if r < 0.3:
                b[i][0] = rng.choice(routes + [1 << rng.randrange(24)])
            elif r < 0.5:
                del b[i]
            elif r < 0.7 and pos:
                bit = 1 << rng.choice(pos)
                b[i][2] &= ~bit
                b[i][1] &= ~bit
            elif r < 0.85 and pos:
                b[i][1] ^= (1 << rng.choice(pos)) & b[i][2]
            else:
                b[i][3] = gen_sources(rng, "any", b[i][0], False)
        c["b"] = b
    c["pairs"] = [[rng.choice(a)[1:3] if a and rng.random() < 0.7 else [rng.getrandbits(32), rng.getrandbits(32)],
                   rng.choice(a)[1:3] if a and rng.random() < 0.7 else [rng.getrandbits(32), rng.getrandbits(32)]]
                  for _ in range(3)]
    return c


def doc_examples():
    """the documented examples of utils.py (docstrings), as cases with the documented answers"""
    from rig.routing_table import Routes as R
    N, NE, E, S, SW = (1 << R.north), (1 << R.north_east), (1 << R.east), (1 << R.south), (1 << R.south_west)
    U = 1 << NONE_BIT
    t = [[N | NE, 0x0, 0xf, U], [E, 0x1, 0xf, U], [SW, 0x5, 0xf, U], [N | NE, 0x8, 0xf, U], [E, 0x9, 0xf, U],
         [SW, 0xe, 0xf, U], [N | NE, 0xc, 0xf, U], [S | SW, 0x0, 0xb, U]]
    hi = 0xfffffff0
    e2 = [[0, 0b0100, hi | 0b1100, U], [0, 0b0010, hi | 0b0010, U]]
    return [
        {"kind": "u_doc", "name": "table_is_subset_of/minimised", "a": t, "how": "min", "expect": True, "expect_rev": False},
        {"kind": "u_doc", "name": "table_is_subset_of/default-route", "a": [[N, 0x0, 0xf, S]], "how": "given", "b": [],
         "expect": True},
        {"kind": "u_doc", "name": "expand_entries/common-x", "a": e2, "how": "given", "b": e2, "ignore": None,
         "expect_expand": [[0, 0b0100, hi | 0b1110, U], [0, 0b0110, hi | 0b1110, U], [0, 0b0010, hi | 0b1110, U],
                           [0, 0b1010, hi | 0b1110, U], [0, 0b1110, hi | 0b1110, U]], "expect_common": 0b0001},
        {"kind": "u_doc", "name": "expand_entries/duplicates", "a": [[N, 0b0000, 0b1111, U], [S, 0b0000, 0b1011, U]],
         "how": "given", "b": [], "ignore": None,
         "expect_expand": [[N, 0b0000, 0b1111, U], [S, 0b0100, 0b1111, U]]},
        {"kind": "u_doc", "name": "expand_entry", "a": [[0, 0b0100, hi | 0b1100, U]], "how": "given", "b": [],
         "ignore": 0xfffffff1, "expect_expand": [[0, 0b0100, hi | 0b1110, U], [0, 0b0110, hi | 0b1110, U]]},
        {"kind": "u_doc", "name": "intersect", "a": [], "how": "given", "b": [],
         "pairs": [[[0b0000, 0b1100], [0b0010, 0b1110]], [[0b0000, 0b1100], [0b1100, 0b1100]]],
         "expect_pairs": [True, False]},
    ]


# limits of the library's checker that are PROVED in Props/C04.lean (tableIsSubsetOf_unsound_overlapping,
# _unsound_illformed, _incomplete_overlapping) and the out-of-domain counterexample of minimise_needs_sources;
# replayed on the real code on every run (documentation, not violations of C04)
def fixed_replays():
    E, N, U, W = 1, 4, 1 << NONE_BIT, 8
    return [
        {"kind": "u_fixed", "name": "subset-unsound-overlapping", "a": [[E, 0, 1, U], [N, 0, 2, U]], "b": [[E, 0, 0, U]],
         "expect": True, "spec_same": False},
        {"kind": "u_fixed", "name": "subset-unsound-illformed", "a": [[E, 1, 0, U], [N, 1, 1, U]], "b": [[E, 1, 1, U]],
         "expect": True, "spec_same": False},
        {"kind": "u_fixed", "name": "subset-incomplete-overlapping", "a": [[E, 0, 1, U], [E, 1, 1, U], [N, 2, 2, U]],
         "b": [[E, 0, 0, U]], "expect": False, "spec_same": True},
        {"kind": "u_fixed", "name": "aliases-precondition-needed", "a": [[E, 5, 7, U], [N, 1, 1, U], [E, 1, 1, U]],
         "aliases": [[[1, 1], [[0, 3]]]], "expect_oc": [[E, 1, 1, U], [N, 1, 1, U]], "spec_equiv": False},
        {"kind": "u_fixed", "name": "minimise-empty-sources", "a": [[E, 0, 0xf, 0], [E, 1, 0xf, W]], "minimise": True,
         "expect_min": [], "spec_equiv": False},
    ]


def _subset(a, b):
    import warnings
    from rig.routing_table import utils
    with warnings.catch_warnings():
        warnings.simplefilter("ignore")
        return bool(utils.table_is_subset_of(to_impl(a), to_impl(b)))


def _expand(a, ignore):
    import warnings
    from rig.routing_table import utils
    with warnings.catch_warnings():
        warnings.simplefilter("ignore")
        return from_impl(list(utils.expand_entries(to_impl(a), ignore)))


def _expand_lazy(a, b, ignore):
    import warnings
    from rig.routing_table import utils
    with warnings.catch_warnings():
        warnings.simplefilter("ignore")
        g1, g2, out = utils.expand_entries(to_impl(a), ignore), utils.expand_entries(to_impl(b), None), []
        for i, e in enumerate(g1):
            out.append(e)
            if i % 2 == 0:
                next(g2, None)
        return from_impl(out)


def with_full_sources(b):
    return [[e[0], e[1], e[2], FULL_SOURCES] for e in b]


def eval_utils(ctx, cases):
    from rig.routing_table import utils, ordered_covering as ocm, remove_default_routes as rdm
    S = "c04u"
    prepared = []
    reqs, idx = [], []

    def ask(ci, name, rq):
        reqs.append(rq)
        idx.append((ci, name))
    for ci, c in enumerate(cases):
        a = c["a"]
        impl = {}
        if c["kind"] == "u_fixed" and c.get("minimise"):
            impl["min"] = call(lambda: {"ok": from_impl(ocm.minimise(to_impl(a), None))})
            ask(ci, "min", {"suite": "c04", "op": "ocmin", "table": a, "target": None})
            if "ok" in impl["min"]:
                ask(ci, "equiv_min", {"suite": "c04", "op": "equiv", "a": a, "b": impl["min"]["ok"]})
            prepared.append((c, None, impl))
            continue
        if c["kind"] == "u_fixed" and "aliases" in c:
            def oc_al():
                r = ocm.ordered_covering(to_impl(a), None, aliases_to_impl(c["aliases"]), True)
                return {"ok": {"table": from_impl(r[0]), "aliases": canon_aliases(r[1])}}
            impl["oc"] = call(oc_al)
            ask(ci, "oc", {"suite": "c04", "op": "oc", "table": a, "target": None, "aliases": c["aliases"], "no_raise": True})
            ask(ci, "aliasok", {"suite": S, "op": "aliasok", "table": a, "aliases": c["aliases"]})
            if "ok" in impl["oc"]:
                ask(ci, "equiv_oc", {"suite": "c04", "op": "equiv", "a": a, "b": impl["oc"]["ok"]["table"]})
            prepared.append((c, None, impl))
            continue
        how = c.get("how", "given")
        if how == "min":
            r = call(lambda: {"ok": from_impl(ocm.minimise(to_impl(a), None))})
            b = r["ok"] if "ok" in r else []
        elif how == "rd":
            r = call(lambda: {"ok": from_impl(rdm.minimise(to_impl(a), None))})
            b = r["ok"] if "ok" in r else []
        else:
            b = c["b"]
        cb = common_xs_py(b)
        ig = c.get("ignore")
        ig = cb if ig == "b" else ig
        ok_ab = expansion_size(a, cb) <= EXPAND_LIMIT
        ok_ba = expansion_size(b, common_xs_py(a)) <= EXPAND_LIMIT
        ok_ex = expansion_size(a, common_xs_py(a) if ig is None else ig) <= EXPAND_LIMIT
        if ok_ab:
            impl["ab"] = call(lambda: _subset(a, b))
            ask(ci, "ab", {"suite": S, "op": "subset", "a": a, "b": b})
        if ok_ba:
            impl["ba"] = call(lambda: _subset(b, a))
            ask(ci, "ba", {"suite": S, "op": "subset", "a": b, "b": a})
        if ok_ex:
            impl["expand"] = call(lambda: _expand(a, ig))
            ask(ci, "expand", {"suite": S, "op": "expand", "table": a, "ignore": ig})
            # consumed lazily: two generators advanced alternately, the second abandoned half-way
            lazy = call(lambda: _expand_lazy(a, b, ig))
            if lazy != impl["expand"]:
                helper_dev(ctx, "c04u.expand-lazy", "expand_entries consumed alternately with another generator gives %r, "
                           "consumed at once %r" % (lazy, impl["expand"]), dict(c))
            ctx.tag("expand_entries_lazy_alternating")
            if a and expansion_size(a[:1], 0) <= 64:
                impl["expand_entry_default"] = call(lambda: from_impl(list(utils.expand_entry(to_impl(a[:1])[0]))))
                ask(ci, "expand_entry_default", {"suite": S, "op": "expand", "table": a[:1], "ignore": 0})
        impl["common_a"] = call(lambda: utils.get_common_xs(to_impl(a)))
        ask(ci, "common_a", {"suite": S, "op": "commonxs", "table": a})
        impl["common_b"] = call(lambda: utils.get_common_xs(to_impl(b)))
        ask(ci, "common_b", {"suite": S, "op": "commonxs", "table": b})
        for pi, (x, y) in enumerate(c.get("pairs", [])):
            impl["int%d" % pi] = call(lambda: bool(utils.intersect(x[0], x[1], y[0], y[1])))
            ask(ci, "int%d" % pi, {"suite": S, "op": "intersect", "ka": x[0], "ma": x[1], "kb": y[0], "mb": y[1]})
        # the specification side: RouteEquiv, RouteSame (= RouteEquiv against b with every source listed) and the
        # domain in which table_is_subset_of is proved exact
        ask(ci, "cls_a", {"suite": S, "op": "classify", "a": a})
        ask(ci, "cls_b", {"suite": S, "op": "classify", "a": b})
        ask(ci, "same_ab", {"suite": "c04", "op": "equiv", "a": a, "b": with_full_sources(b)})
        ask(ci, "same_ba", {"suite": "c04", "op": "equiv", "a": b, "b": with_full_sources(a)})
        prepared.append((c, b, impl))
    replies = [dict() for _ in cases]
    for (ci, name), r in zip(idx, ctx.lean(reqs)):
        replies[ci][name] = r
    for (c, b, impl), rep in zip(prepared, replies):
        ctx.traces += 1
        desc = dict(c)
        if b is not None:
            desc["b"] = b
        ctx.tag(c["kind"])
        if c["kind"] == "u_fixed" and c.get("minimise"):
            if rep.get("min") != impl["min"]:
                helper_dev(ctx, "c04.ocmin-out-of-domain", "impl=%r model=%r" % (impl["min"], rep.get("min")), desc)
            eq = (rep.get("equiv_min") or {}).get("equiv")
            if impl["min"].get("ok") == c["expect_min"] and eq is c["spec_equiv"]:
                ctx.tag("ood_" + c["name"] + "_reproduced")
                ctx.extra.setdefault("out_of_domain", {})[c["name"]] = (
                    "ordered_covering.minimise(%r) returns %r on the real code: the entry with sources=set() is merged "
                    "with a straight-through entry and the merged entry is removed as default-routed although the first "
                    "entry never listed a source link; sources=set() is outside the documented domain ({None} = unknown), "
                    "so this is a note (theorem minimise_needs_sources), not a violation" % (c["a"], impl["min"].get("ok")))
            else:
                helper_dev(ctx, "c04.ood-replay", "the out-of-domain counterexample of minimise_needs_sources no longer "
                           "reproduces: impl=%r equiv=%r" % (impl["min"], eq), desc)
            ctx.case({"fixed": c["name"]}, True)
            continue
        if c["kind"] == "u_fixed" and "aliases" in c:
            if norm_model("oc", rep.get("oc")) != impl["oc"]:
                ctx.mismatch("c04.oc_al", "impl=%r model=%r" % (impl["oc"], rep.get("oc")), desc)
            eq = (rep.get("equiv_oc") or {}).get("equiv")
            if (impl["oc"].get("ok", {}).get("table") == c["expect_oc"] and eq is c["spec_equiv"] and
                    (rep.get("aliasok") or {}).get("ok") is False):
                ctx.tag("ood_" + c["name"] + "_reproduced")
                ctx.extra.setdefault("out_of_domain", {})[c["name"]] = (
                    "ordered_covering(%r, aliases=%r) returns %r on the real code, which routes key %r differently: the "
                    "dictionary violates AliasCover (theorem userAliases_precondition_needed); a note, not a violation"
                    % (c["a"], c["aliases"], c["expect_oc"], (rep.get("equiv_oc") or {}).get("key")))
            else:
                helper_dev(ctx, "c04.ood-replay", "the counterexample of userAliases_precondition_needed no longer "
                           "reproduces: impl=%r equiv=%r aliasok=%r" % (impl["oc"], eq, rep.get("aliasok")), desc)
            ctx.case({"fixed": c["name"]}, True)
            continue
        for name, res in impl.items():
            if rep.get(name) != res:
                (ctx.mismatch if name.startswith("int") else lambda *x: helper_dev(ctx, *x))(
                    "c04u." + name, "impl=%r model=%r" % (res, rep.get(name)), desc)
        # documented answers
        if c["kind"] in ("u_doc", "u_fixed"):
            checks = [("expect", impl.get("ab")), ("expect_rev", impl.get("ba")), ("expect_expand", impl.get("expand")),
                      ("expect_common", impl.get("common_a")),
                      ("expect_pairs", [impl.get("int%d" % i) for i in range(len(c.get("pairs", [])))])]
            for key, got in checks:
                if key in c and got != c[key]:
                    (ctx.mismatch if key == "expect_pairs" else lambda *x: helper_dev(ctx, *x))("c04u.documented-example", "%s: %s is %r, documented/proved %r" % (c["name"], key, got, c[key]), desc)
            if "spec_same" in c and (rep.get("same_ab") or {}).get("equiv") is not c["spec_same"]:
                helper_dev(ctx, "c04u.documented-example", "%s: RouteSame is %r" % (c["name"], rep.get("same_ab")), desc)
            if c["kind"] == "u_fixed":
                ctx.tag("limit_" + c["name"] + "_reproduced")
                ctx.extra.setdefault("library_oracle_limits", {})[c["name"]] = (
                    "table_is_subset_of(%r, %r) = %r on the real code while RouteSame is %r" % (c["a"], c["b"], impl.get("ab"), c["spec_same"]))
        # proved relation between the library's checker and the specification
        for d, x, cls, same in (("ab", a_of(c), rep.get("cls_a"), rep.get("same_ab")),
                                ("ba", b, rep.get("cls_b"), rep.get("same_ba"))):
            if d not in impl or not isinstance(impl[d], bool) or not isinstance(same, dict) or "equiv" not in same:
                continue
            exact = bool(cls and cls.get("wf") and cls.get("orth"))
            ctx.tag("subset_%s_%s" % ("exactdomain" if exact else "outside", impl[d]))
            if exact and impl[d] != same["equiv"]:
                # contradicts tableIsSubsetOf_iff unless model and code differ
                helper_dev(ctx, "c04u.subset-vs-spec", "table_is_subset_of answers %r but RouteSame is %r on a well-formed "
                             "orthogonal first table (key %r)" % (impl[d], same["equiv"], same.get("key")), desc)
            elif not exact and impl[d] != same["equiv"]:
                ctx.tag("subset_outside_domain_" + ("unsound" if impl[d] else "incomplete"))
        nontriv = bool(impl.get("ab") is True and b != c["a"]) or (
            isinstance(impl.get("expand"), list) and len(impl["expand"]) != len(c["a"]))
        ctx.case({"a": c["a"], "b": b, "ignore": c.get("ignore")}, nontriv)


def a_of(c):
    return c["a"]


def eval_routes(ctx):
    """entries.py: the whole Routes enumeration and core() (finite: exhaustive), RoutingTableEntry construction/str"""
    from rig.routing_table import Routes, RoutingTableEntry
    S = "c04u"

    def exc(f):
        try:
            return {"ok": int(f())}
        except ValueError:
            return {"err": "ValueError"}
    reqs, impls = [{"suite": S, "op": "members"}], [[[m.name, int(m.value)] for m in Routes]]
    for v in range(0, 30):
        try:
            r = Routes(v)
            impl = {"value": {"ok": v}, "is_link": bool(r.is_link), "is_core": bool(r.is_core),
                    "core_num": exc(lambda: r.core_num), "opposite": exc(lambda: r.opposite), "initial": r.initial}
        except ValueError:
            impl = None
        reqs.append({"suite": S, "op": "route", "value": v})
        impls.append(impl)
    for num in range(-6, 26):
        reqs.append({"suite": S, "op": "core", "num": num})
        impls.append(exc(lambda: Routes.core(num)))
    rng = ctx.rng
    for _ in range(ctx.scale(60, 600)):
        route = [rng.randrange(24) for _ in range(rng.randint(0, 5))]
        r = rng.random()
        srcs = None if r < 0.3 else [rng.choice(list(range(24)) + [24]) for _ in range(rng.randint(0, 4))]
        key, mask = rng.getrandbits(32), rng.getrandbits(32)
        if rng.random() < 0.5:
            key &= mask
        args = [[Routes(i) for i in route], key, mask] + ([] if srcs is None else [[None if i == 24 else Routes(i) for i in srcs]])
        e = RoutingTableEntry(*args)
        reqs.append({"suite": S, "op": "entry", "route": route, "key": key, "mask": mask, "sources": srcs})
        impls.append({"entry": from_impl([e])[0], "str": str(e)})
    for rq, impl, got in zip(reqs, impls, ctx.lean(reqs)):
        ctx.traces += 1
        if rq["op"] == "route" and impl is None:
            if got.get("value") != {"err": "ValueError"}:
                helper_dev(ctx, "c04u.route", "Routes(%d) raises ValueError, model %r" % (rq["value"], got), rq)
            continue
        if got != impl:
            helper_dev(ctx, "c04u." + rq["op"], "impl=%r model=%r" % (impl, got), rq)
    ctx.tag("routes_enum_exhaustive")


# --------------------------------------------------------------------------
# exhaustive small scope (thorough tier)
def exhaustive_cases(nbits, max_len):
    """every Good table of <= max_len entries over `nbits` key bits with two entry flavours:
    (route E from W: default-routable) and (route N, source unknown)"""
    import itertools
    pats = []
    for code in itertools.product("01X", repeat=nbits):
        key = mask = 0
        for b, ch in enumerate(code):
            if ch != "X":
                mask |= 1 << b
                if ch == "1":
                    key |= 1 << b
        pats.append((key, mask))
    kinds = [[1, k, m, 1 << 3] for k, m in pats] + [[1 << 2, k, m, 1 << NONE_BIT] for k, m in pats]
    for ln in range(0, max_len + 1):
        for tb in itertools.product(kinds, repeat=ln):
            gens = [generality(e[1], e[2]) for e in tb]
            srt = all(gens[i] <= gens[i + 1] for i in range(ln - 1))
            orth = all(not km_intersect((tb[i][1], tb[i][2]), (tb[j][1], tb[j][2]))
                       for i in range(ln) for j in range(i + 1, ln))
            if srt or orth:
                yield {"kind": "sorted" if srt else "orth", "table": [list(e) for e in tb], "target": None,
                       "target2": None, "methods": ["rd", "oc"], "light": True}


# --------------------------------------------------------------------------
# shrinking
class _Probe(object):
    """collects the findings of one re-evaluation"""

    def __init__(self, ctx):
        self.ctx = ctx
        self.concrete, self.mismatches, self.traces = [], [], 0

    def lean(self, reqs):
        return self.ctx.lean(reqs)

    def violation(self, key, what, case):
        self.concrete.append((key, what, case))

    def mismatch(self, *a):
        self.mismatches.append(a)

    def tag(self, *a):
        pass

    def case(self, *a, **k):
        pass


def shrink(ctx, key, what, case):
    """greedy: drop entries (keeps sortedness / orthogonality) while finding `key` persists"""
    if "table" not in case:
        return what, case
    best, best_what = dict(case), what
    budget = 60

    def still(c):
        pr = _Probe(ctx)
        try:
            eval_cases(pr, [c])
        except Exception:
            return None
        for k, w, _ in pr.concrete:
            if k == key:
                return w
        return None
    step = max(1, len(best["table"]) // 2)
    while step >= 1 and budget > 0:
        i, progressed = 0, False
        while i < len(best["table"]) and budget > 0:
            cand = dict(best)
            cand["table"] = best["table"][:i] + best["table"][i + step:]
            budget -= 1
            w = still(cand)
            if w:
                best, best_what, progressed = cand, w, True
            else:
                i += step
        if step == 1 and not progressed:
            break
        step = step // 2 if step > 1 else (1 if progressed else 0)
    return best_what, best


def shrink_findings(ctx):
    seen, front = set(), []
    for key, what, case in list(ctx.concrete):
        if key in seen:
            continue
        seen.add(key)
        try:
            w, c = shrink(ctx, key, what, case)
            front.append((key, w, c))
        except Exception:
            pass
    ctx.concrete[:0] = front


def run(ctx):
    ctx.extra["rule"] = RULE
    ctx.assumptions += ["keys and masks are 32-bit unsigned values; every entry lists at least one source ({None} = unknown) "
                        "when ordered covering is followed by default-route removal",
                        "ordered covering / the method chain are claimed for tables that are orthogonal or sorted by "
                        "generality (the documented precondition); default-route removal for any table",
                        "minimise_table is called with at least one minimiser (with methods=() and len(table) == target "
                        "the front end reports failure although the table fits: _identity uses '<')",
                        "CPython: sorted() is stable, dict/set membership semantics",
                        "the minimisers are pure functions of their arguments: the model has no state, so calls made "
                        "earlier in the same process must not influence a result (checked by the history stream)",
                        "minimise_tables treats every chip independently: a chip's result depends on that chip's table "
                        "(keys, masks, routes, sources, order) and target only (checked on related chips in one call)"]
    try:
        install_probes()
    except Exception:
        pass
    PROBE.clear()
    n = ctx.scale(2000, 40000)
    if ctx.extended:
        n *= 4
    rng = ctx.rng
    # HISTORY stream first (process state is still clean, so a finding replays from its own history); the main stream
    # below then runs thousands of unrelated tables AFTER these histories (stale state may only bite later)
    del HIST_LOG[:]
    import time as _time
    laps, t_last = ctx.extra.setdefault("stream_wall_s", {}), [_time.time()]

    def lap(name):
        laps[name] = round(laps.get(name, 0) + _time.time() - t_last[0], 1)
        t_last[0] = _time.time()
    nh = ctx.scale(150, 2500) * (4 if ctx.extended else 1)
    for i in range(0, nh, 100):
        batch = [gen_history(rng) for _ in range(min(100, nh - i))]
        HIST_LOG.extend(batch)
        eval_hist(ctx, [h for h, _ in batch], [im for _, im in batch])
    lap("history")
    nr = ctx.scale(60, 1500) * (4 if ctx.extended else 1)
    for i in range(0, nr, 100):
        batch = [gen_related_history(rng) for _ in range(min(100, nr - i))]
        HIST_LOG.extend(batch)
        ctx.tag(*["hist_related" for _ in batch])
        eval_hist(ctx, [h for h, _ in batch], [im for _, im in batch])
    cases = [{"kind": "sorted", "table": [], "target": None, "target2": None, "methods": ["rd", "oc"], "internals": True},
             {"kind": "sorted", "table": [], "target": 0, "target2": 0, "methods": ["rd", "oc"], "internals": False}]
    lap("related_history")
    # THE CALLER KEEPS AND EDITS: programs of calls on live objects (edited in place between calls, results kept)
    rbs = [gen_rb(rng) for _ in range(ctx.scale(250, 5000) * (4 if ctx.extended else 1))]
    for i in range(0, len(rbs), 500):
        eval_cases(ctx, rbs[i:i + 500])
    lap("caller_keeps_and_edits")
    # SCALE: a handful of very large cases
    _CPU_LIMIT[0] = 300
    try:
        for sc in gen_scale_cases(rng, ctx.quick):
            ctx.tag("scale_" + ("mts_%d_chips" % len(sc["chips"]) if sc["kind"] == "mts" else "%d_entries" % len(sc["table"])))
            eval_cases(ctx, [sc])
    finally:
        _CPU_LIMIT[0] = None
    lap("scale")
    # minimise_tables over RELATED chips (same keys/masks/routes with other sources, one entry apart, reordered,
    # consecutive chips of routes made by routing_tree_to_tables)
    cases += [gen_mts_related(rng) for _ in range(ctx.scale(300, 4000) * (4 if ctx.extended else 1))]
    for i in range(n):
        r = rng.random()
        if r < 0.08:
            cases.append(gen_case(rng, "any"))
        elif r < 0.14:
            cases.append(gen_mts(rng))
        elif r < 0.19:
            cases.append(gen_corner(rng))
        else:
            cases.append(gen_case(rng))
    for i in range(0, len(cases), 500):
        eval_cases(ctx, cases[i:i + 500])
    lap("main_and_related_mts")
    # rig/routing_table/utils.py and entries.py (deepening round)
    ucases = doc_examples() + fixed_replays() + [gen_utils_case(rng) for _ in range(ctx.scale(500, 6000) * (4 if ctx.extended else 1))]
    for i in range(0, len(ucases), 500):
        eval_cases(ctx, ucases[i:i + 500])
    eval_routes(ctx)
    lap("utils_entries")
    if not ctx.quick:
        batch = []
        for c in exhaustive_cases(2, 4):
            batch.append(c)
            if len(batch) == 2000:
                eval_cases(ctx, batch)
                batch = []
        for c in exhaustive_cases(3, 2):
            batch.append(c)
            if len(batch) == 2000:
                eval_cases(ctx, batch)
                batch = []
        eval_cases(ctx, batch)
        ctx.tag("exhaustive_2bits_le4_3bits_le2")
        ctx.exhaustive = True
        ctx.extra["exhaustive_scope"] = ("every orthogonal-or-sorted table of <= 4 entries over 2 key bits and of <= 2 entries "
                                         "over 3 key bits, two entry flavours (default-routable E<-W; N with unknown source)")
    for k, v in PROBE.items():
        ctx.tags[k] = ctx.tags.get(k, 0) + v
    lap("exhaustive")
    shrink_findings(ctx)
    confirm_findings(ctx)
    lap("shrink_confirm")


def replay(ctx, payload):
    ctx.extra["rule"] = RULE
    if isinstance(payload.get("case"), dict) and payload["case"].get("scale"):
        _CPU_LIMIT[0] = 300
    eval_cases(ctx, [payload["case"]])
THEOREMS += ['gen_routes_is_link', 'gen_routes_is_core', 'gen_routes_core_num', 'gen_routes_opposite', 'gen_routes_core']   # translator tie: generated function bodies = model (Props/C04Gen.lean)
THEOREMS += ['gen_get_common_xs', 'gen_get_insertion_index']   # translator tie, second round (Props/C04Gen.lean)
