"""C02 (companion) - SESSIONS: several placements in one process.

(A) shared objects: ONE problem - the same vertices_resources / nets / machine / constraints objects - is handed
    to 2-4 placers in a row (every placer, both annealing kernels, random order).  Every result is judged against
    the ORIGINAL problem (as generated, before any call) by the Lean `Feasible` oracle; an exception outside the
    two documented ones is a violation; under the unit-demand hypothesis a documented failure is a violation too.
    The four argument objects are deep-snapshotted before / after every call.  The property text is about the
    RESULTS of the placers, so a placer that modifies its arguments is only tagged - unless a later call of the
    session is thereby made to fail (the same call on fresh objects built from the original problem does not
    fail): then the finding is reported under the key `caller-<argument>-modified` (nets / machine /
    vertices_resources / constraints) with the whole session as replay.
(B) machine sequences: placements in one process on machines that differ in ONE aspect only (a dead chip alive
    again / one more dead chip / other dead links / another per-chip capacity), each an exactly-filling
    unit-demand problem run through every placer by the main evaluation (oracle, completeness clause and model
    correspondence) - exposes state kept between calls (memoised chip orders and the like).

Hooked into harness/c02.py: run() calls run_sessions(ctx); replay() calls replay_sessions(ctx, payload) when
payload["case"] has the key "session" or "machine_sequence"."""
import random as _random

RULE_SESSIONS = ("sessions: (A) an in-domain problem of the main generator (>= 3 vertices; 25% unit-demand) whose nets are "
                 "rewritten so that one same-chip group contains only sinks / only sources / sources and sinks of nets (or "
                 "left as generated), with location and reserve constraints, is handed AS THE SAME OBJECTS to 2-4 placers "
                 "drawn in random order from sequential (default and custom orders), breadth-first, Hilbert, RCM, random, "
                 "annealing with the Python and the C kernel; arguments snapshotted around every call, every result judged "
                 "against the original problem; (B) sequences of 2-4 exactly-filling unit-demand problems on machines 2x2.."
                 "5x5 (thorough 7x7) that differ from the first in one aspect only (a dead chip revived, a chip killed, dead "
                 "links changed, capacity changed), each run through every placer. A session is non-trivial when at least "
                 "two calls returned placements of >= 2 vertices")

CLAIM_SESSIONS = ("SESSIONS (validated, not a theorem: the models are pure functions of their arguments, so state carried "
                  "between calls or through modified argument objects exists only in the implementation): one problem "
                  "handed as the same Python objects to 2-4 placers in a row (all placers, both annealing kernels), every "
                  "result judged by the Lean Feasible oracle against the original problem, any undocumented exception "
                  "reported; the argument objects are compared before/after every call - since the property speaks about "
                  "the results of the placers, a modified argument is reported (key caller-<argument>-modified) only "
                  "when it makes a later call of the session fail or return an infeasible placement while the same call on "
                  "fresh objects does not, and is tagged otherwise; sequences of placements on machines differing in one "
                  "aspect (dead chip revived / killed, dead links, capacity) expose memoised orders. Replays carry the "
                  "whole session.")

DOCUMENTED = ("InsufficientResourceError", "InvalidConstraintError")
PLACERS = ["sequential", "sequential-custom", "breadth_first", "hilbert", "rcm", "rand", "sa-python", "sa-c"]
NET_USERS = ["rcm", "sa-python", "sa-c"]


# ---------------------------------------------------------------------------
# (A) generation
# ---------------------------------------------------------------------------

def _groups(prob):
    return [sorted(set(c["vs"])) for c in prob["cs"] if c["t"] == "same" and len(set(c["vs"])) >= 2]


def group_kinds(prob):
    """how the same-chip groups (>= 2 distinct members) occur in the nets"""
    kinds = set()
    for g in _groups(prob):
        g = set(g)
        src = any(s in g for s, k, _ in prob["nets"])
        snk = any(s not in g and any(v in g for v in k) for s, k, _ in prob["nets"])
        inner = any(s in g and any(v in g for v in k) for s, k, _ in prob["nets"])
        if snk and not src:
            kinds.add("sinks-only")
        elif src and not snk and not inner:
            kinds.add("sources-only")
        elif src or snk or inner:
            kinds.add("sources-and-sinks")
        else:
            kinds.add("not-in-nets")
    return sorted(kinds) or ["no-group"]


def gen_session(rng, big=False):
    from harness import c02
    unit = rng.random() < 0.25
    while True:
        prob = c02.gen_problem(rng, big=big, unit=unit)
        if len(prob["vr"]) >= 3 and not prob["ood"]:
            break
    n = len(prob["vr"])
    if not unit:
        groups = _groups(prob)
        if not groups and rng.random() < 0.8:
            # a new group over vertices no constraint mentions (keeps the problem in the documented domain)
            used = set()
            for c in prob["cs"]:
                used.update(c.get("vs", []))
                if "v" in c:
                    used.add(c["v"])
            free = [v for v in range(n) if v not in used]
            if len(free) >= 2:
                g = rng.sample(free, rng.choice([2, 2, 3]) if len(free) >= 3 else 2)
                prob["cs"].insert(rng.randrange(len(prob["cs"]) + 1), {"t": "same", "vs": g})
                groups = [sorted(g)]
        if groups:
            g = set(rng.choice(groups))
            outside = [v for v in range(n) if v not in g]
            kind = rng.choice(["sinks-only", "sinks-only", "sources-only", "both", "as-is"])
            nets = [[s, list(k), w] for s, k, w in prob["nets"]]
            if outside and kind == "sinks-only":
                nets = [[s if s not in g else rng.choice(outside), k, w] for s, k, w in nets]
                for _ in range(rng.choice([1, 1, 2])):
                    nets.insert(rng.randrange(len(nets) + 1),
                                [rng.choice(outside), [rng.choice(sorted(g))] + [rng.choice(outside)] * rng.choice([0, 1]),
                                 rng.choice([1, 1, 2, 0.5])])
            elif outside and kind == "sources-only":
                nets = [[s, [v if v not in g else rng.choice(outside) for v in k], w] for s, k, w in nets]
                nets.insert(rng.randrange(len(nets) + 1),
                            [rng.choice(sorted(g)), [rng.choice(outside)], rng.choice([1, 1, 2, 0.5])])
            elif kind == "both":
                a, b = rng.sample(sorted(g), 2)
                nets.insert(rng.randrange(len(nets) + 1), [a, [b] + ([rng.choice(outside)] if outside else []), 1])
                if outside:
                    nets.insert(rng.randrange(len(nets) + 1), [rng.choice(outside), [a], 1])
            prob["nets"] = nets
    if not prob["nets"] or rng.random() < 0.3:
        # a ring so that the net-using placers have something to look up
        prob["nets"] = prob["nets"] + [[v, [(v + 1) % n], 1] for v in range(n)]
    k = rng.choice([2, 2, 3, 3, 4])
    names = [rng.choice(PLACERS) for _ in range(k)]
    if rng.random() < 0.6 and not any(nm in NET_USERS for nm in names[1:]):
        names[rng.randrange(1, k)] = rng.choice(NET_USERS)
    session = {"problem": prob, "problem2": None}
    style = rng.choice(["plain", "plain", "edits", "edits", "results", "faults", "two-problems", "repeat"])
    if style == "edits" and rng.random() < 0.6:
        names = [names[-1]] * k         # the same placer before and after the caller's edits (TWINS in time)
    import json
    cur = [json.loads(json.dumps(prob))]
    if style == "two-problems":
        while True:
            p2 = c02.gen_problem(rng, big=False, unit=rng.random() < 0.3)
            if len(p2["vr"]) >= 2 and not p2["ood"]:
                break
        session["problem2"] = p2
        cur.append(json.loads(json.dumps(p2)))
    steps = []
    for i, nm in enumerate(names):
        on = i % len(cur)
        seed = rng.randrange(2 ** 30)
        after = rng.choice(["keep", "clear", "poison"]) if style == "results" else "keep"
        if style == "faults" and i < k - 1 and rng.random() < 0.6:
            fn = rng.choice(["rand", "sa-python", "sa-python", "sa-c"])
            where = "rng" if fn == "rand" else rng.choice(["rng", "callback", "kernel-run", "kernel-init"]
                                                         if fn == "sa-python" else ["rng", "callback"])
            steps.append({"on": on, "fault": [fn, seed, where, rng.choice([1, 1, 2, 3, 5, 9, 20])]})
        else:
            steps.append({"on": on, "call": [nm, seed], "after": after})
            if style == "repeat" and rng.random() < 0.7:
                steps.append({"on": on, "call": [nm, seed], "after": "keep"})
        if style == "edits" and i < k - 1:
            for _ in range(rng.choice([1, 1, 2])):
                e = gen_edit(rng, cur[on])
                if e is not None:
                    edit_json(cur[on], e)
                    steps.append({"on": on, "edit": e})
    session["steps"] = steps
    session["style"] = style
    return session


# ---------------------------------------------------------------------------
# (A) running
# ---------------------------------------------------------------------------

def _ev(v):
    from harness import c02_names
    i = c02_names.index_of(v)
    return "<%s>" % type(v).__name__ if i is None else i


def snapshot(vr, nets, machine, cs):
    """deep, order-preserving, JSON-able image of the four argument objects"""
    from rig.place_and_route.constraints import (LocationConstraint, SameChipConstraint,
                                                 ReserveResourceConstraint, RouteEndpointConstraint,
                                                 AlignResourceConstraint)
    from harness import c02_names
    rd = lambda d: sorted([c02_names.res_key(k), x] for k, x in d.items())
    ecs = []
    for c in cs:
        if isinstance(c, LocationConstraint):
            ecs.append(["loc", _ev(c.vertex), list(c.location)])
        elif isinstance(c, SameChipConstraint):
            ecs.append(["same", [_ev(v) for v in c.vertices]])
        elif isinstance(c, ReserveResourceConstraint):
            ecs.append(["res", c02_names.res_key(c.resource), c.reservation.start, c.reservation.stop,
                        None if c.location is None else list(c.location)])
        elif isinstance(c, RouteEndpointConstraint):
            ecs.append(["ep", _ev(c.vertex), int(c.route)])
        elif isinstance(c, AlignResourceConstraint):
            ecs.append(["align", c02_names.res_key(c.resource), c.alignment])
        else:
            ecs.append(["?", type(c).__name__])
    return {"vertices_resources": [[_ev(v), rd(d)] for v, d in vr.items()],
            "nets": [[_ev(nt.source), [_ev(s) for s in nt.sinks], nt.weight] for nt in nets],
            "machine": [machine.width, machine.height, rd(machine.chip_resources),
                        sorted([list(c), rd(r)] for c, r in machine.chip_resource_exceptions.items()),
                        sorted(list(c) for c in machine.dead_chips),
                        sorted([x, y, int(l)] for x, y, l in machine.dead_links)],
            "constraints": ecs}


def diff_summary(a, b):
    out = []
    for arg in ("vertices_resources", "nets", "machine", "constraints"):
        if a[arg] != b[arg]:
            if len(a[arg]) != len(b[arg]):
                out.append("%s: length %d -> %d" % (arg, len(a[arg]), len(b[arg])))
            else:
                for i, (x, y) in enumerate(zip(a[arg], b[arg])):
                    if x != y:
                        out.append("%s[%d]: %r -> %r" % (arg, i, x, y))
                        break
    return out


def call_placer(name, seed, prob, vr, nets, machine, cs):
    from harness import c02
    from rig.place_and_route.place import sequential, breadth_first, hilbert, rcm, rand
    from rig.place_and_route.place.sa import algorithm as sa_alg
    from rig.place_and_route.place.sa import python_kernel
    if name == "sequential":
        return c02.outcome(lambda: sequential.place(vr, nets, machine, cs))
    if name == "sequential-custom":
        co = [tuple(c) for c in prob["co"]]
        keys = list(vr)
        return c02.outcome(lambda: sequential.place(vr, nets, machine, cs, [keys[v] for v in prob["vo"]], iter(co)))
    if name == "breadth_first":
        return c02.outcome(lambda: breadth_first.place(vr, nets, machine, cs))
    if name == "hilbert":
        return c02.outcome(lambda: hilbert.place(vr, nets, machine, cs, breadth_first=prob["hilbert_bf"]))
    if name == "rcm":
        return c02.outcome(lambda: rcm.place(vr, nets, machine, cs))
    if name == "rand":
        return c02.outcome(lambda: rand.place(vr, nets, machine, cs, _random.Random(seed)))
    temps = [0]
    bound = (prob["max_temps"] or 8) if name == "sa-python" else 4

    def on_temp(*a):
        temps[0] += 1
        if temps[0] >= bound:
            return False
    if name == "sa-python":
        return c02.outcome(lambda: sa_alg.place(vr, nets, machine, cs, effort=prob["effort"],
                                                random=_random.Random(seed), on_temperature_change=on_temp,
                                                kernel=python_kernel.PythonKernel, kernel_kwargs={"no_warn": True}))
    try:
        from rig.place_and_route.place.sa.c_kernel import CKernel
    except ImportError:
        return None
    from harness import c02_variants
    if c02_variants.too_big_for_c(prob):
        return None                     # the C kernel stores quantities in C ints
    return c02.outcome(lambda: sa_alg.place(vr, nets, machine, cs, effort=prob["effort"],
                                            random=_random.Random(seed), on_temperature_change=on_temp,
                                            kernel=CKernel))


# ---- what the caller does between the calls --------------------------------------------------------

EDITS = ["demand", "add-vertex", "del-net", "add-net", "add-sink", "kill-chip", "revive-chip", "capacity",
         "del-constraint", "add-reserve"]


def gen_edit(rng, prob):
    """an edit of the problem that keeps it in the documented domain; None when the drawn kind does not apply"""
    n, R = len(prob["vr"]), len(prob["res"])
    kind = rng.choice(EDITS)
    dead = {tuple(c) for c in prob["dead"]}
    inside = [(x, y) for x in range(prob["w"]) for y in range(prob["h"])]
    if kind == "demand" and n and R:
        d = [rng.choice([0, 1, 1, 2]) for _ in range(R)]
        if prob.get("unit_r0") is not None:
            d = [0] * R
            d[prob["unit_r0"]] = rng.choice([0, 1])
        return ["demand", rng.randrange(n), d]
    if kind == "add-vertex" and R:
        d = [0] * R
        d[prob["unit_r0"] if prob.get("unit_r0") is not None else rng.randrange(R)] = rng.choice([0, 1])
        return ["add-vertex", d]
    if kind == "del-net" and prob["nets"]:
        return ["del-net", rng.randrange(len(prob["nets"]))]
    if kind == "add-net" and n:
        return ["add-net", rng.randrange(n), [rng.randrange(n) for _ in range(rng.choice([1, 2, 3]))], rng.choice([1, 2, 0.5])]
    if kind == "add-sink" and prob["nets"] and n:
        return ["add-sink", rng.randrange(len(prob["nets"])), rng.randrange(n)]
    if kind == "kill-chip":
        busy = {tuple(c) for c, _ in prob["exc"]} | {tuple(c["c"]) for c in prob["cs"] if c["t"] == "res" and c["c"]}
        ok = [c for c in inside if c not in dead and c not in busy]
        if len(ok) >= 2:
            return ["kill-chip", list(rng.choice(ok))]
    if kind == "revive-chip":
        ok = [c for c in inside if c in dead]
        if ok:
            return ["revive-chip", list(rng.choice(ok))]
    if kind == "capacity" and R:
        return ["capacity", [max(0, x + rng.choice([-1, 1, 2])) for x in prob["res"]]]
    if kind == "del-constraint" and prob["cs"]:
        return ["del-constraint", rng.randrange(len(prob["cs"]))]
    if kind == "add-reserve" and R and n:
        return ["add-reserve", rng.randrange(R), 1]
    return None


def edit_json(prob, e):
    k = e[0]
    if k == "demand":
        prob["vr"][e[1]] = [e[1], list(e[2]), [True] * len(e[2])]
    elif k == "add-vertex":
        n = len(prob["vr"])
        prob["vr"].append([n, list(e[1]), [True] * len(e[1])])
        prob["vo"].append(n)
    elif k == "del-net":
        del prob["nets"][e[1]]
    elif k == "add-net":
        prob["nets"].append([e[1], list(e[2]), e[3]])
    elif k == "add-sink":
        prob["nets"][e[1]][1].append(e[2])
    elif k == "kill-chip":
        prob["dead"].append(list(e[1]))
    elif k == "revive-chip":
        prob["dead"].remove(list(e[1]))
    elif k == "capacity":
        prob["res"] = list(e[1])
    elif k == "del-constraint":
        del prob["cs"][e[1]]
    elif k == "add-reserve":
        prob["cs"].append({"t": "res", "r": e[1], "amt": e[2], "c": None})


def edit_objects(prob, e, vr, nets, machine, cs):
    """the same edit, made IN PLACE on the objects the caller passed before (prob = the problem before the edit)"""
    from harness import c02, c02_names, c02_variants
    from rig.netlist import Net
    from rig.place_and_route.constraints import ReserveResourceConstraint
    RES = c02.resources(prob)
    K = c02_variants.scale_of(prob)
    keys = list(vr)
    k = e[0]
    if k == "demand":
        d = vr[keys[e[1]]]
        d.clear()
        d.update({RES[i]: x * K for i, x in enumerate(e[2])})
    elif k == "add-vertex":
        vr[c02_names.Namer(prob).obj(len(keys))] = {RES[i]: x * K for i, x in enumerate(e[1])}
    elif k == "del-net":
        del nets[e[1]]
    elif k == "add-net":
        nets.append(Net(keys[e[1]], [keys[v] for v in e[2]], e[3]))
    elif k == "add-sink":
        nets[e[1]].sinks.append(keys[e[2]])
    elif k == "kill-chip":
        machine.dead_chips.add(tuple(e[1]))
    elif k == "revive-chip":
        machine.dead_chips.discard(tuple(e[1]))
    elif k == "capacity":
        for i, x in enumerate(e[1]):
            machine.chip_resources[RES[i]] = x * K
    elif k == "del-constraint":
        del cs[e[1]]
    elif k == "add-reserve":
        cs.append(ReserveResourceConstraint(RES[e[1]], slice(3, 3 + e[2] * K)))


# ---- faults injected by the caller's own objects ----------------------------------------------------

class InjectedFault(Exception):
    pass


def faulty_call(name, seed, where, k, prob, vr, nets, machine, cs):
    """the caller's RNG / callback / kernel raises InjectedFault at its k-th use"""
    from harness import c02
    from rig.place_and_route.place import rand
    from rig.place_and_route.place.sa import algorithm as sa_alg
    from rig.place_and_route.place.sa import python_kernel
    count = [0]

    def tick():
        count[0] += 1
        if count[0] == k:
            raise InjectedFault("injected at use %d of the caller's %s" % (k, where))

    class FaultyRandom(_random.Random):
        def sample(self, *a):
            tick()
            return _random.Random.sample(self, *a)

        def shuffle(self, *a):
            tick()
            return _random.Random.shuffle(self, *a)

        def choice(self, *a):
            tick()
            return _random.Random.choice(self, *a)

        def randint(self, *a):
            tick()
            return _random.Random.randint(self, *a)

        def random(self):
            tick()
            return _random.Random.random(self)

    rng = FaultyRandom(seed) if where == "rng" else _random.Random(seed)
    if name == "rand":
        return c02.outcome(lambda: rand.place(vr, nets, machine, cs, rng))
    temps = [0]

    def on_temp(*a):
        if where == "callback":
            tick()
        temps[0] += 1
        if temps[0] >= 6:
            return False

    class FaultyKernel(python_kernel.PythonKernel):
        def __init__(self, *a, **kw):
            if where == "kernel-init":
                tick()
            python_kernel.PythonKernel.__init__(self, *a, **kw)

        def run_steps(self, *a):
            if where == "kernel-run":
                tick()
            return python_kernel.PythonKernel.run_steps(self, *a)

    kernel, kk = FaultyKernel, {"no_warn": True}
    if name == "sa-c":
        try:
            from rig.place_and_route.place.sa.c_kernel import CKernel
        except ImportError:
            return None
        from harness import c02_variants
        if c02_variants.too_big_for_c(prob):
            return None
        kernel, kk = CKernel, {}
    return c02.outcome(lambda: sa_alg.place(vr, nets, machine, cs, effort=max(prob["effort"], 0.1), random=rng,
                                            on_temperature_change=on_temp, kernel=kernel, kernel_kwargs=kk), 30)


def reload_rig():
    """a history starts from freshly executed placer modules (module-level / default-argument state of an
    earlier history cannot leak in, so a replay of the history alone reproduces it)"""
    import importlib
    im = importlib.import_module
    base = "rig.place_and_route.place."
    u, sq, bf, hl, rc, rd, pk, al = [im(base + n) for n in ("utils", "sequential", "breadth_first", "hilbert", "rcm",
                                                             "rand", "sa.python_kernel", "sa.algorithm")]
    sa_pkg = im(base + "sa")
    pr = im("rig.place_and_route")
    was_default = getattr(pr, "place", None) is getattr(sa_pkg, "place", None)
    for m in (u, sq, bf, hl, rc, rd, pk, al):
        importlib.reload(m)
    sa_pkg.place = al.place
    if was_default:
        pr.place = al.place


def session_steps(session):
    if "steps" in session:
        return session["steps"]
    return [{"on": 0, "call": c, "after": "keep"} for c in session["calls"]]


def run_session(session):
    """interpret the script of a session -> list of records of its calls"""
    import json
    from harness import c02
    reload_rig()
    slots = []
    for prob in [session["problem"]] + ([session["problem2"]] if session.get("problem2") else []):
        prob = json.loads(json.dumps(prob))
        objs = c02.build(prob)
        snap = snapshot(*objs)
        slots.append({"prob": prob, "objs": objs, "base": snap, "cur": snap, "result_edited": None})
    records, kept = [], []
    for k, st in enumerate(session_steps(session)):
        sl = slots[st.get("on", 0) % len(slots)]
        prob, (vr, nets, machine, cs) = sl["prob"], sl["objs"]
        if "edit" in st:
            edit_objects(prob, st["edit"], vr, nets, machine, cs)
            edit_json(prob, st["edit"])
            sl["base"] = sl["cur"] = snapshot(vr, nets, machine, cs)        # the caller's own edit is not a finding
            sl["modifier"] = None
            continue
        if "fault" in st:
            name, seed, where, kk = st["fault"]
            out = faulty_call(name, seed, where, kk, prob, vr, nets, machine, cs)
        else:
            name, seed = st["call"]
            out = call_placer(name, seed, prob, vr, nets, machine, cs)
        if out is None:
            continue
        after = snapshot(vr, nets, machine, cs)
        pj = json.loads(json.dumps(prob))
        pj["unit"] = pj.get("unit_r0") is not None and c02.unit_ok(pj, pj["unit_r0"])
        rec = {"k": k, "on": st.get("on", 0), "placer": name, "seed": seed, "out": out, "prob": pj,
               "fault": st.get("fault"), "args_differ": diff_summary(sl["base"], sl["cur"]),
               "changed_by_call": diff_summary(sl["cur"], after), "result_edited_before": sl["result_edited"],
               "modifier": sl.get("modifier")}
        if rec["changed_by_call"] and sl.get("modifier") is None:
            sl["modifier"] = (k, name, rec["changed_by_call"])      # first call that changed an argument
        sl["cur"] = after
        _encode(out)
        if "ok" in out and isinstance(out["ok"], dict):
            how = st.get("after", "keep")
            rec["after"] = how
            if how == "keep":
                kept.append((rec, out["ok"]))
            else:
                # the caller edits what it was handed back
                if how == "clear":
                    out["ok"].clear()
                else:
                    for v in list(out["ok"]):
                        out["ok"][v] = (prob["w"] + 7, prob["h"] + 7)
                    out["ok"]["not a vertex"] = (0, 0)
                sl["result_edited"] = k
        records.append(rec)
    # results the caller kept: still what was returned?
    for rec, d in kept:
        later = {"ok": d}
        _encode(later)
        rec["later_enc"] = later.get("enc")
    return records


def judge(ctx, prob, name, out, valid_reply):
    """-> None or (key, what): the result of one call against the problem as the caller last left it (the keys of
    the main stream)"""
    from harness import c02
    if "ok" in out:
        if out.get("enc") is None:
            return ("infeasible-placement-" + name, "%s returned a placement with a non-chip value or a foreign vertex" % name)
        if not valid_reply.get("valid"):
            return ("infeasible-placement-" + name, "%s returned an infeasible placement (%s): %r" % (
                name, valid_reply.get("why"), out["enc"]))
        return None
    if out["err"] == "DidNotReturn":
        if name in c02.TERMINATING:
            return ("did-not-return", "%s did not return: %s (the model of this placer terminates on every input)" % (
                name, out.get("msg")))
        return None
    if out["err"] not in DOCUMENTED:
        return ("%s-raises-%s" % (name, out["err"]),
                "%s raised %s (%s); only InsufficientResourceError and InvalidConstraintError are documented" % (
                    name, out["err"], out.get("msg")))
    if prob["unit"]:
        return ("incomplete-" + name,
                "%s raised %s although every vertex needs at most one unit of one resource, there are no same-chip groups, "
                "fixed vertices fit and the capacity suffices" % (name, out["err"]))
    return None


def _encode(out):
    from harness import c02
    if "ok" in out and "enc" not in out:
        p = out["ok"]
        from harness import c02_names
        out["enc"] = c02.enc_placement(p) if all(c02_names.index_of(v) is not None for v in p) else None


def eval_sessions(ctx, sessions):
    from harness import c02
    work, reqs = [], []
    for session in sessions:
        records = run_session(session)
        for rec in records:
            rec["req"] = rec["req2"] = None
            base = dict(c02.lean_problem(rec["prob"]), suite="c02", op="valid")
            if rec["out"].get("enc") is not None:
                rec["req"] = len(reqs)
                reqs.append(dict(base, p=rec["out"]["enc"]))
            if rec.get("later_enc") is not None and rec["later_enc"] != rec["out"].get("enc"):
                rec["req2"] = len(reqs)
                reqs.append(dict(base, p=rec["later_enc"]))
        work.append((session, records))
    replies = ctx.lean(reqs)
    for session, records in work:
        desc = {"session": session}
        placed = 0
        for rec in records:
            name, out, prob, k = rec["placer"], rec["out"], rec["prob"], rec["k"]
            ctx.traces += 1
            ctx.tag("session:%s:%s" % (name, "placed" if "ok" in out else out["err"]))
            if "ok" in out and rec["out"].get("enc") and len(rec["out"]["enc"]) >= 2:
                placed += 1
            if out.get("err") == "DidNotReturn" and name not in c02.TERMINATING:
                ctx.mismatch("c02.did-not-return", "%s did not return: %s" % (name, out.get("msg")), dict(desc, step=k))
            if rec["fault"]:
                # the caller's own object failed: its exception passing through is the expected outcome; what
                # matters is the continued use of the same objects afterwards (judged at the later calls)
                if out.get("err") == "InjectedFault":
                    ctx.tag("session:fault:%s:propagated" % rec["fault"][2])
                    bad = None
                elif "ok" in out or out["err"] in DOCUMENTED:
                    ctx.tag("session:fault:%s:not-reached" % rec["fault"][2])
                    bad = judge(ctx, dict(prob, unit=False), name, out, {} if rec["req"] is None else replies[rec["req"]])
                else:
                    ctx.tag("session:fault:%s:other-exception:%s" % (rec["fault"][2], out["err"]))
                    bad = None
            else:
                bad = judge(ctx, prob, name, out, {} if rec["req"] is None else replies[rec["req"]])
            if bad is not None:
                key, what = bad
                case = dict(desc, step=k, placer=name)
                mod = rec["modifier"]
                if (rec["args_differ"] and mod is not None) or rec["result_edited_before"] is not None:
                    # is the failure the consequence of what happened earlier in the session?  the same call on
                    # fresh objects built from the problem as the caller last left it
                    fresh = call_placer(name, rec["seed"], prob, *c02.build(prob)) if not rec["fault"] else None
                    if fresh is not None:
                        _encode(fresh)
                        frep = {}
                        if fresh.get("enc") is not None:
                            frep = ctx.lean([dict(c02.lean_problem(prob), suite="c02", op="valid", p=fresh["enc"])])[0]
                        if judge(ctx, prob, name, fresh, frep) is None:
                            tail = " - the same call on fresh objects built from the same problem %s" % (
                                "returns a feasible placement" if "ok" in fresh else "raises " + fresh["err"])
                            if rec["args_differ"] and mod is not None:
                                mk, mname, msum = mod
                                key = "caller-%s-modified" % msum[0].split(":")[0].split("[")[0]
                                what = ("step %d of the session, %s, modified its caller's arguments (%s); step %d on the "
                                        "same objects then failed: %s%s" % (mk + 1, mname, "; ".join(msum)[:300], k + 1,
                                                                             what, tail))
                            else:
                                key = "returned-placement-shared"
                                what = ("the caller edited the dictionary returned by step %d; step %d then failed: %s%s"
                                        % (rec["result_edited_before"] + 1, k + 1, what, tail))
                _report(ctx, key, what, case)
            # (c) a result the caller kept must still be the placement that was returned
            if rec.get("later_enc", rec["out"].get("enc")) != rec["out"].get("enc"):
                still = rec["req2"] is not None and replies[rec["req2"]].get("valid")
                ctx.tag("session:kept-result-changed:" + ("still-feasible" if still else "infeasible"))
                if not still:
                    _report(ctx, "returned-placement-changed-later",
                            "the placement returned by step %d (%s) was feasible when returned; after the later steps of "
                            "the session the same dictionary reads %r" % (k + 1, name, rec.get("later_enc")),
                            dict(desc, step=k, placer=name))
            if rec["changed_by_call"]:
                for s_ in rec["changed_by_call"]:
                    ctx.tag("session:argument-modified:%s:%s" % (name, s_.split(":")[0].split("[")[0]))
        steps = session_steps(session)
        ctx.tag("session:calls=%d" % len(records))
        for st in steps:
            if "edit" in st:
                ctx.tag("session:edit:" + st["edit"][0])
            elif "call" in st and st.get("after", "keep") != "keep":
                ctx.tag("session:result-" + st["after"])
        if session.get("problem2"):
            ctx.tag("session:two-problems-alternately")
        for kind in group_kinds(session["problem"]):
            ctx.tag("session:group:" + kind)
        if any(r["prob"]["unit"] for r in records):
            ctx.tag("session:unit-hypothesis")
        ctx.case(desc, placed >= 2)


# ---------------------------------------------------------------------------
# (B) machines differing in one aspect
# ---------------------------------------------------------------------------

def unit_problem(rng, w, h, dead, dead_links, cap, reserve):
    """exactly-filling unit-demand problem: the working chips offer exactly as many units as there are vertices"""
    working = [(x, y) for x in range(w) for y in range(h) if (x, y) not in dead]
    n1 = cap * len(working)
    # besides the vertices that fill the machine exactly, some that need nothing: {} / an explicit 0 / only a
    # resource the machine lacks (with value 0)
    z = rng.choice([0, 1, 2, 3]) if working else 0
    n = n1 + z
    vr = [[v, [1], [True]] for v in range(n1)] + [[v, [0], [rng.random() < 0.5]] for v in range(n1, n)]
    rng.shuffle(vr)
    vr = [[i, d, p] for i, (_, d, p) in enumerate(vr)]
    foreign = [v for v, d, p in vr if d == [0] and not p[0] and rng.random() < 0.5]
    nets = [[v, [(v + 1) % n], 1] for v in range(n)] if n else []
    for _ in range(rng.choice([0, 2, n])):
        if n:
            nets.append([rng.randrange(n), [rng.randrange(n) for _ in range(rng.choice([1, 2, 3]))], rng.choice([1, 2, 0.5])])
    vo = list(range(n))
    rng.shuffle(vo)
    co = list(working)
    rng.shuffle(co)
    co.insert(rng.randrange(len(co) + 1), (w + 1, 0))
    from harness import c02_names
    return _unit_variants(rng, c02_names.draw(rng, {"w": w, "h": h, "res": [cap + reserve], "exc": [], "dead": [list(c) for c in sorted(dead)],
            "dead_links": [list(l) for l in sorted(dead_links)], "foreign_zero": foreign,
            "vr": vr, "nets": nets, "cs": ([{"t": "res", "r": 0, "amt": reserve, "c": None}] if reserve else []),
            "ood": False, "unit": False, "vo": vo, "co": [list(c) for c in co],
            "seeds": [rng.randrange(2 ** 30) for _ in range(4)], "effort": rng.choice([0.1, 1.0]),
            "max_temps": rng.choice([1, 2, 3]), "hilbert_bf": rng.random() < 0.5, "unit_r0": 0}))


def _unit_variants(rng, prob):
    """container kinds and calling conventions vary; the dead links are the sequence's own aspect"""
    from harness import c02_variants
    links = prob["dead_links"]
    c02_variants.draw(rng, prob)
    prob["dead_links"] = links
    prob["var"]["links"] = "of-the-sequence"
    return prob


def gen_machine_sequence(rng, big=False):
    w = rng.choice([2, 2, 3, 3, 4, 5] + ([6, 7] if big else []))
    h = rng.choice([1, 2, 3, 3, 4, 5] + ([6, 7] if big else []))
    allchips = [(x, y) for x in range(w) for y in range(h)]
    pd = rng.choice([0.1, 0.2, 0.4])
    dead = {c for c in allchips if rng.random() < pd}
    if len(dead) == len(allchips):
        dead.discard(rng.choice(allchips))
    if not dead:
        dead.add(rng.choice(allchips))
    if len(dead) == len(allchips):
        dead = set()
    pl = rng.choice([0, 0, 0.1, 0.3])
    links = {(x, y, l) for (x, y) in allchips for l in range(6) if rng.random() < pl}
    cap = rng.choice([1, 1, 2])
    reserve = rng.choice([0, 0, 1])
    variants = [(set(dead), set(links), cap)]
    for _ in range(rng.choice([1, 2, 2, 3])):
        d, l, c = set(dead), set(links), cap
        what = rng.choice(["revive", "revive", "revive", "kill", "links", "capacity"])
        if what == "revive" and d:
            d.discard(rng.choice(sorted(d)))
        elif what == "kill" and len(d) + 1 < len(allchips):
            d.add(rng.choice([c_ for c_ in allchips if c_ not in d]))
        elif what == "links":
            x, y = rng.choice(allchips)
            l.symmetric_difference_update({(x, y, rng.randrange(6))})
        else:
            c = cap + 1
        variants.append((d, l, c))
    # the machine with more dead chips is usually seen first, sometimes not
    if rng.random() < 0.3:
        rng.shuffle(variants)
    return {"machine_sequence": [unit_problem(rng, w, h, d, l, c, reserve) for d, l, c in variants]}


class _SeqCtx(object):
    """the main evaluation reports per problem; here the replay must carry the whole sequence"""

    def __init__(self, ctx, seq):
        self.__dict__["_ctx"] = ctx
        self.__dict__["_seq"] = seq

    def __getattr__(self, k):
        return getattr(self._ctx, k)

    def __setattr__(self, k, v):
        setattr(self._ctx, k, v)

    def _wrap(self, case):
        step = None
        if isinstance(case, dict) and "problem" in case:
            for i, p in enumerate(self._seq["machine_sequence"]):
                if p["dead"] == case["problem"]["dead"] and p["dead_links"] == case["problem"].get("dead_links") \
                        and p["res"] == case["problem"]["res"]:
                    step = i
        return dict(self._seq, step=step, placer=case.get("placer") if isinstance(case, dict) else None)

    def violation(self, key, what, case):
        w = self._wrap(case)
        _report(self._ctx, key, "%s [problem %s of a sequence of %d placements on machines differing in one aspect]" % (
            what, "?" if w["step"] is None else w["step"] + 1, len(self._seq["machine_sequence"])), w)

    def mismatch(self, suite, detail, case):
        self._ctx.mismatch(suite, detail, self._wrap(case))

    def case(self, case, nontrivial, sample_every=0):
        pass


def eval_machine_sequence(ctx, seq):
    from harness import c02
    reload_rig()
    c02.eval_problems(_SeqCtx(ctx, seq), seq["machine_sequence"])
    ctx.tag("machine-sequence:len=%d" % len(seq["machine_sequence"]))
    ctx.case(seq, True)


# ---------------------------------------------------------------------------
# reporting: a replay must fail on its own
# ---------------------------------------------------------------------------
# A failure seen in a session may depend on state left in the process by EARLIER cases of the run (that is the
# very class of defect the sessions look for).  Findings are therefore collected and, per key, the first one that
# also fails when its session alone is replayed in a fresh interpreter is reported (so the replay is
# self-contained); if none of the first candidates does, the first is reported with a remark.

_PENDING = None

_ISOLATE = r"""
import json, sys, warnings
warnings.simplefilter("ignore")
sys.path.insert(0, sys.argv[1])
from harness import common
sys.path.insert(0, common.REPO)
from harness import c02_sessions
ctx = common.Ctx("C02", "quick", 0)
ctx.extended = False
c02_sessions.replay_sessions(ctx, {"case": json.load(open(sys.argv[2]))})
print("KEYS " + json.dumps(sorted({k for k, _, _ in ctx.concrete})))
"""


def _report(ctx, key, what, case):
    if _PENDING is None:
        ctx.violation(key, what, case)
    else:
        _PENDING.append((key, what, case))


def fails_alone(key, case):
    import json, os, subprocess, sys, tempfile
    from harness import common
    fd, path = tempfile.mkstemp(suffix=".json")
    try:
        with os.fdopen(fd, "w") as f:
            json.dump(case, f)
        p = subprocess.run([sys.executable, "-c", _ISOLATE, common.VERIF, path], stdout=subprocess.PIPE,
                           stderr=subprocess.PIPE, timeout=600)
        for line in p.stdout.decode().splitlines():
            if line.startswith("KEYS "):
                return key in json.loads(line[5:])
        return False
    except Exception:       # noqa - the isolation run is only used to choose among findings
        return False
    finally:
        os.unlink(path)


def _flush(ctx, pending):
    by_key = {}
    for key, what, case in pending:
        by_key.setdefault(key, []).append((what, case))
    for key, found in by_key.items():
        chosen = None
        for what, case in found[:4]:
            if fails_alone(key, case):
                chosen = (what, case)
                break
        if chosen is None:
            what, case = found[0]
            chosen = (what + " [replaying this session alone in a fresh process does not fail: the failure depends on "
                      "state left in the process by earlier placements of this run]", case)
            ctx.tag("session:finding-not-reproduced-alone")
        ctx.violation(key, chosen[0], chosen[1])
        for what, case in found:
            if case is not chosen[1]:
                ctx.violation(key, what, case)


def run_sessions(ctx):
    global _PENDING
    _PENDING = []
    try:
        _run_sessions(ctx)
    finally:
        pending, _PENDING = _PENDING, None
        _flush(ctx, pending)


def _run_sessions(ctx):
    ctx.assumptions += [
        "sessions: a placer's arguments modified in place are reported only through their effect on later results "
        "(the property text speaks about what the placers return)"]
    rng = ctx.rng
    n = ctx.scale(250, 3500)
    m = ctx.scale(40, 500)
    if ctx.extended:
        n, m = n * 4, m * 4
    sessions = [gen_session(rng, big=(not ctx.quick) and rng.random() < 0.1) for _ in range(n)]
    from harness import c02
    for i in range(0, len(sessions), 50):
        eval_sessions(ctx, sessions[i:i + 50])
        if c02.hang_verdict_reached(ctx):       # many calls did not return and the violation is recorded
            return
    for _ in range(m):
        eval_machine_sequence(ctx, gen_machine_sequence(rng, big=not ctx.quick and rng.random() < 0.2))
        if c02.hang_verdict_reached(ctx):
            return


def replay_sessions(ctx, payload):
    case = payload["case"]
    if "session" in case:
        eval_sessions(ctx, [case["session"]])
    else:
        eval_machine_sequence(ctx, {"machine_sequence": case["machine_sequence"]})
