"""Shared machinery of every check: translator run, Lean build, axiom audit,
Lean driver (line protocol), verdict logic, known findings, evidence.

Verdict logic (DESIGN 1.2):
  * a *concrete* property failure on the implementation (decided by the Lean
    oracle on the implementation's own output, or an undocumented exception)
    is a violation with that input as the replay - unless KNOWN_FINDINGS.json
    lists that finding key as "known";
  * a broken proof obligation / translator obligation / correspondence
    mismatch is not a violation by itself: the extended failing-input search
    runs; if it finds nothing the violation is reported with
    "no-failing-input-found" and the replay names what no longer checks.
Exit codes: 0 held, 1 violation, 2 infrastructure problem / timeout.
"""
import fcntl
import hashlib
import json
import os
import random
import re
import subprocess
import sys
import time

VERIF = os.path.dirname(os.path.dirname(os.path.abspath(__file__)))
REPO = os.environ.get("RIG_REPO", "/repo")
LEAN = os.path.join(VERIF, "lean")
GEN = os.path.join(LEAN, "RigModel", "Gen")
DRIVER = os.path.join(LEAN, ".lake", "build", "bin", "driver")
STD_AXIOMS = {"propext", "Classical.choice", "Quot.sound"}

TRUSTED_BASE = [
    "Lean 4.33 kernel (type-checks every theorem; leanchecker re-checks the .olean files in the thorough tier)",
    "axioms allowed: propext, Classical.choice, Quot.sound (audited with collectAxioms on every run); no native_decide/bv_decide/sorry",
    "translator harness/gen_tables.py (data tables, constants, signatures read from /repo on every run)",
    "correspondence harness (generators, recorders, canonicalisation, diff) and the line-protocol driver lean/Driver.lean",
    "CPython semantics of the constructs the hand-written models transliterate",
]


class Infra(Exception):
    """Infrastructure failure: exit 2, never a verdict."""


CPU_LIMIT_USAGE = [0.0, 0.0, 0.0]       # largest (fraction of its limit, CPU seconds used, limit) of one limited call


class ImplHang(BaseException):
    """The implementation did not return from one call within the limit (BaseException: a broad
    `except Exception` inside the implementation cannot swallow it)."""


class cpu_limit(object):
    """`with cpu_limit(seconds): call_the_implementation()` - raises ImplHang when the call uses more
    than `seconds` of CPU time (ITIMER_VIRTUAL: independent of the check's wall-clock budget alarm and of
    machine load)."""

    def __init__(self, seconds):
        self.seconds = seconds

    def _fire(self, sig, frame):
        where = ""
        f = frame
        while f is not None:
            if "/rig/" in f.f_code.co_filename:
                where = "%s:%d" % (f.f_code.co_name, f.f_lineno)
                break
            f = f.f_back
        raise ImplHang("still running after %g s of CPU time%s" % (self.seconds, " in " + where if where else ""))

    def __enter__(self):
        import signal
        import time
        self.old = signal.signal(signal.SIGVTALRM, self._fire)
        self.t0 = time.process_time()
        signal.setitimer(signal.ITIMER_VIRTUAL, self.seconds)
        return self

    def __exit__(self, *a):
        import signal
        import time
        signal.setitimer(signal.ITIMER_VIRTUAL, 0)
        signal.signal(signal.SIGVTALRM, self.old)
        # how close the calls of this run came to their limits (goes to the evidence: a limit that ordinary calls
        # approach would be a false alarm waiting for a loaded machine)
        used = time.process_time() - self.t0
        if self.seconds > 0 and used / self.seconds > CPU_LIMIT_USAGE[0]:
            CPU_LIMIT_USAGE[0], CPU_LIMIT_USAGE[1], CPU_LIMIT_USAGE[2] = used / self.seconds, used, self.seconds
        return False


def sh(cmd, timeout=None, cwd=None, env=None, inp=None):
    p = subprocess.run(cmd, shell=isinstance(cmd, str), cwd=cwd, env=env,
                       input=inp, stdout=subprocess.PIPE,
                       stderr=subprocess.STDOUT, timeout=timeout)
    return p.returncode, p.stdout.decode("utf-8", "replace")


def _json_int(o):
    """integers of any kind the implementation may hand back (NumPy fixed-width scalars when the caller's keys were
    NumPy scalars) cross the protocol as their integer VALUE"""
    if hasattr(o, "__index__"):
        return int(o.__index__())
    raise TypeError("Object of type %s is not JSON serializable" % o.__class__.__name__)


class LeanLock(object):
    def __enter__(self):
        os.makedirs(os.path.join(LEAN, ".lake"), exist_ok=True)
        self.f = open(os.path.join(LEAN, ".lake", "verif.lock"), "w")
        fcntl.flock(self.f, fcntl.LOCK_EX)
        return self

    def __exit__(self, *a):
        fcntl.flock(self.f, fcntl.LOCK_UN)
        self.f.close()


def lake_build(targets, timeout=3000):
    """Build targets; return (ok, log, broken) where broken is a list of
    'module: first error line' strings."""
    rc, out = sh(["lake", "build"] + list(targets), cwd=LEAN, timeout=timeout)
    broken = []
    if rc != 0:
        for m in re.finditer(r"error: (\S+\.lean):(\d+):(\d+): (.*)", out):
            broken.append("%s:%s: %s" % (os.path.basename(m.group(1)),
                                         m.group(2), m.group(4)[:200]))
        if not broken:
            broken.append(out[-600:])
    return rc == 0, out, broken


_AUDIT_TMPL = """import Lean
%(imports)s
open Lean in
run_cmd do
  let env ← getEnv
  for modName in [%(mods)s] do
    let some idx := env.getModuleIdx? modName | throwError "module not found"
    for n in env.header.moduleData[idx.toNat]!.constNames do
      if n.isInternal then continue
      match env.find? n with
      | some (.thmInfo _) =>
        let ax ← Lean.collectAxioms n
        IO.println s!"AUDIT {n} :: {ax.toList}"
      | _ => pure ()
"""


def props_modules(prop):
    """RigModel.Props.Cxx and every companion module RigModel.Props.Cxx<Suffix> (e.g. C02Orders)"""
    d = os.path.join(LEAN, "RigModel", "Props")
    mods = []
    for f in sorted(os.listdir(d)):
        if f.endswith(".lean") and f.startswith(prop) and (len(f) == len(prop) + 5 or not f[len(prop)].isdigit()):
            mods.append("RigModel.Props." + f[:-5])
    return mods

_FORBIDDEN = re.compile(
    r"\b(sorry|admit|native_decide|bv_decide|implemented_by|maxHeartbeats 0)\b|^\s*axiom\s|\bunsafe\s",
    re.M)


def strip_comments(src):
    src = re.sub(r"/-.*?-/", "", src, flags=re.S)
    src = re.sub(r"--.*", "", src)
    return src


def grep_forbidden():
    hits = []
    for root, _, files in os.walk(LEAN):
        if ".lake" in root:
            continue
        for fn in files:
            if fn.endswith(".lean"):
                p = os.path.join(root, fn)
                s = strip_comments(open(p).read())
                for m in _FORBIDDEN.finditer(s):
                    hits.append("%s: %s" % (os.path.relpath(p, LEAN), m.group(0).strip()))
    return hits


def audit(prop):
    """Return ({theorem: [axioms]}, problems)."""
    d = os.path.join(LEAN, ".lake", "audit")
    os.makedirs(d, exist_ok=True)
    f = os.path.join(d, "Audit%s.lean" % prop)
    mods = props_modules(prop)
    open(f, "w").write(_AUDIT_TMPL % {"imports": "\n".join("import " + m for m in mods),
                                      "mods": ", ".join("`" + m for m in mods)})
    rc, out = sh(["lake", "env", "lean", f], cwd=LEAN, timeout=900)
    thms = {}
    for m in re.finditer(r"^AUDIT (\S+) :: \[(.*)\]$", out, re.M):
        if re.search(r"\.(eq_\d+|eq_def|match_\d+.*|proof_\d+|sizeOf_spec|injEq|inj)$", m.group(1)):
            continue
        thms[m.group(1)] = [a.strip() for a in m.group(2).split(",") if a.strip()]
    problems = []
    if rc != 0:
        problems.append("audit failed: " + out[-400:])
    for t, ax in thms.items():
        extra = set(ax) - STD_AXIOMS
        if extra:
            problems.append("theorem %s depends on non-standard axioms %s" % (t, sorted(extra)))
    return thms, problems


class Driver(object):
    """Batch interface to the Lean model driver: list of JSON requests ->
    list of JSON replies (same order)."""

    def __init__(self):
        self.calls = 0

    def run(self, reqs, timeout=3000):
        if not reqs:
            return []
        data = "\n".join(json.dumps(r, separators=(",", ":"), default=_json_int) for r in reqs) + "\n"
        if os.path.exists(DRIVER):
            cmd = [DRIVER]
        else:
            cmd = ["lake", "env", "lean", "--run", "Driver.lean"]
        p = subprocess.run(cmd, cwd=LEAN, input=data.encode(),
                           stdout=subprocess.PIPE, stderr=subprocess.PIPE,
                           timeout=timeout)
        lines = p.stdout.decode().splitlines()
        if p.returncode != 0 or len(lines) != len(reqs):
            raise Infra("lean driver failed rc=%s, %d replies for %d requests: %s" % (
                p.returncode, len(lines), len(reqs), p.stderr.decode()[-500:]))
        self.calls += len(reqs)
        return [json.loads(l) for l in lines]


def canon(x):
    return json.dumps(x, sort_keys=True, separators=(",", ":"), default=_json_int)


def load_known():
    p = os.path.join(VERIF, "KNOWN_FINDINGS.json")
    if not os.path.exists(p):
        return []
    return json.load(open(p))["findings"]


class Ctx(object):
    """State of one check run."""

    def __init__(self, prop, tier, seed):
        self.prop, self.tier, self.seed = prop, tier, seed
        self.rng = random.Random((seed << 8) ^ int(prop[1:]))
        self.t0 = time.time()
        self.driver = Driver()
        self.evaluations = 0
        self.nontrivial = set()
        self.samples = []
        self.tags = {}
        self.traces = 0
        self.concrete = []      # (key, what, case) concrete property failures
        self.mismatches = []    # (suite, detail, case) model/impl disagreements
        self.broken = []        # broken proof / translator obligations
        self.theorems = {}
        self.assumptions = []
        self.extra = {}
        self.exhaustive = False
        self.quick = tier == "quick"

    # -- bookkeeping ------------------------------------------------------
    def tag(self, *names):
        for n in names:
            self.tags[n] = self.tags.get(n, 0) + 1

    def case(self, case, nontrivial, sample_every=0):
        """Count one explored case; `case` must be JSON-serialisable."""
        self.evaluations += 1
        if nontrivial:
            self.nontrivial.add(hashlib.sha1(canon(case).encode()).digest()[:10])
        if len(self.samples) < 3 or (sample_every and self.evaluations % sample_every == 0 and len(self.samples) < 8):
            self.samples.append(case)

    def violation(self, key, what, case):
        """A concrete failure of the property on the implementation."""
        self.concrete.append((key, what, case))

    def mismatch(self, suite, detail, case):
        self.mismatches.append((suite, detail, case))

    def lean(self, reqs):
        return self.driver.run(reqs)

    def sub_rng(self, *salt):
        return random.Random(canon([self.seed, self.prop] + list(salt)))

    def scale(self, quick, thorough):
        return quick if self.quick else thorough


def write_replay(prop, name, payload):
    d = os.path.join(VERIF, "replays")
    os.makedirs(d, exist_ok=True)
    p = os.path.join(d, "%s_%s.json" % (prop, name))
    json.dump(payload, open(p, "w"), indent=1, sort_keys=True, default=lambda o: int(o.__index__()) if hasattr(o, "__index__") else str(o))
    return os.path.relpath(p, VERIF)


def write_evidence(ctx, violations):
    n_ob = len(ctx.theorems) + ctx.extra.get("translator_obligations", 0)
    discharged = n_ob - len(ctx.broken) if n_ob else 0
    cov = {
        "obligations": max(n_ob, 1),
        "discharged": max(discharged, 0) if n_ob else 0,
        "checker_cmd": "cd lean && lake build RigModel.Props.%s && lake env lean .lake/audit/Audit%s.lean  (thorough: + lake env leanchecker RigModel.Props.%s)" % (ctx.prop, ctx.prop, ctx.prop),
        "trusted_base": TRUSTED_BASE + ctx.extra.get("trusted_base", []),
        "theorems": sorted(ctx.theorems),
        "axioms_used": sorted({a for ax in ctx.theorems.values() for a in ax}),
        "broken_obligations": ctx.broken,
        "evaluations": ctx.evaluations,
        "distinct_nontrivial": len(ctx.nontrivial),
        "rule": ctx.extra.get("rule", ""),
        "samples": ctx.samples[:8],
        "traces_validated_against_impl": ctx.traces,
        "model_driver_requests": ctx.driver.calls,
        "branch_tags": dict(sorted(ctx.tags.items())),
        "correspondence_mismatches": len(ctx.mismatches),
        "exhaustive": bool(ctx.exhaustive),
    }
    for k, v in ctx.extra.items():
        if k not in ("rule", "trusted_base", "translator_obligations"):
            cov[k] = v
    cov["max_cpu_limit_usage"] = {"fraction": round(CPU_LIMIT_USAGE[0], 4), "cpu_s": round(CPU_LIMIT_USAGE[1], 3),
                                  "limit_s": CPU_LIMIT_USAGE[2]}
    ev = {
        "property_id": ctx.prop,
        "tier": ctx.tier,
        "seed": ctx.seed,
        "level": "proof",
        "coverage": cov,
        "assumptions": ctx.assumptions,
        "wall_s": round(time.time() - ctx.t0, 2),
        "violations": violations,
    }
    d = os.path.join(VERIF, "evidence")
    os.makedirs(d, exist_ok=True)
    tmp = os.path.join(d, ".%s.json.tmp" % ctx.prop)
    json.dump(ev, open(tmp, "w"), indent=1, sort_keys=True, default=str)
    os.replace(tmp, os.path.join(d, "%s.json" % ctx.prop))


def conclude(ctx):
    """Apply the verdict logic, print lines, write evidence, return exit code."""
    known = [k for k in load_known() if k.get("property") == ctx.prop]
    known_keys = {k["key"]: k for k in known if k.get("status") == "known"}
    rc = 0
    nviol = 0
    seen_known = {}
    unlisted = {}
    for key, what, case in ctx.concrete:
        if key in known_keys:
            seen_known.setdefault(key, (what, case))
        else:
            unlisted.setdefault(key, (what, case))
    for key, (what, case) in sorted(seen_known.items()):
        print("KNOWN-FINDING: property=%s %s (%s)" % (ctx.prop, key, known_keys[key].get("what", what)))
    for key, (what, case) in sorted(unlisted.items()):
        path = write_replay(ctx.prop, re.sub(r"[^A-Za-z0-9_.-]", "_", key)[:60],
                            {"property": ctx.prop, "kind": "failing-input", "key": key,
                             "what": what, "case": case, "seed": ctx.seed})
        print("VIOLATION property=%s replay=%s" % (ctx.prop, path))
        print("  " + what[:400])
        nviol += 1
        rc = 1
    if not unlisted and (ctx.broken or ctx.mismatches):
        # a proof obligation or the correspondence no longer checks and the
        # failing-input search (already run by the property module, at the
        # extended size when anything was broken) found no concrete failure
        # beyond listed findings.
        payload = {"property": ctx.prop, "kind": "no-failing-input-found",
                   "broken_obligations": ctx.broken,
                   "correspondence_mismatches": [
                       {"suite": s, "detail": d, "case": c} for s, d, c in ctx.mismatches[:5]],
                   "seed": ctx.seed,
                   "search": "extended failing-input search over %d cases found no concrete failure" % ctx.evaluations}
        path = write_replay(ctx.prop, "unproved", payload)
        print("VIOLATION property=%s replay=%s no-failing-input-found" % (ctx.prop, path))
        for b in ctx.broken[:5]:
            print("  broken obligation: " + b[:300])
        for s, d, c in ctx.mismatches[:3]:
            print("  correspondence %s: %s" % (s, d[:300]))
        nviol += 1
        rc = 1
    write_evidence(ctx, nviol)
    print("%s tier=%s seed=%d evaluations=%d nontrivial=%d theorems=%d wall=%.1fs -> %s" % (
        ctx.prop, ctx.tier, ctx.seed, ctx.evaluations, len(ctx.nontrivial),
        len(ctx.theorems), time.time() - ctx.t0, "OK" if rc == 0 else "VIOLATION"))
    return rc
