"""In-process SpiNNaker stand-in (memory part), used behind harness/simnet.Net.

`SimMachine.handle(request_bytes) -> reply_bytes` executes one SCP request.
Not trusted: every request/reply pair a check relies on is also replayed
through the Lean machine specification of that check.

Memory of every chip is sparse; an unwritten byte reads as a deterministic
pseudo-random function of (chip, address) so that reads are never trivially
zero.  Subclasses add commands by defining `cmd_<number>` methods
(see property modules), signature `(self, req: dict) -> (rc, args, data)`.
"""
import struct

from harness import simnet

OK = 0x80
RC_ARG = 0x84
RC_CMD = 0x83

LINK_VEC = {0: (1, 0), 1: (1, 1), 2: (0, 1), 3: (-1, 0), 4: (-1, -1), 5: (0, -1)}


def default_byte(x, y, addr):
    v = (x * 0x9E3779B1 + y * 0x85EBCA77 + addr * 0xC2B2AE3D + 0x27D4EB2F) & 0xffffffff
    v ^= v >> 15
    v = (v * 0x2C1B3C6D) & 0xffffffff
    v ^= v >> 12
    return v & 0xff


class SimMachine(object):
    def __init__(self, width=2, height=2, buffer_size=256, root=(0, 0)):
        self.width, self.height = width, height
        self.buffer_size = buffer_size
        self.app_buffer_size = None     # what an application core's SARK reports in its own sver reply
        self.root = root
        self.mem = {}            # (x, y) -> {addr: byte}
        self.requests = []       # parsed requests in execution order
        self.access_log = []     # (kind, x, y, addr, n, dtype)

    # -- memory --------------------------------------------------------------
    def chip(self, x, y):
        if (x, y) == (255, 255):
            x, y = self.root
        return (x, y)

    def peek(self, x, y, addr, n):
        m = self.mem.get((x, y), {})
        return bytes(m[a] if a in m else default_byte(x, y, a) for a in range(addr, addr + n))

    def poke(self, x, y, addr, data):
        m = self.mem.setdefault((x, y), {})
        for i, b in enumerate(bytes(data)):
            m[addr + i] = b

    # -- dispatch ------------------------------------------------------------
    def handle(self, request):
        req = simnet.parse_scp(request)
        req["x"], req["y"] = self.chip(req["x"], req["y"])
        self.requests.append(req)
        fn = getattr(self, "cmd_%d" % req["cmd"], None)
        if fn is None:
            rc, args, data = RC_CMD, (), b""
        else:
            rc, args, data = fn(req)
        return simnet.make_reply(request, rc, args, data)

    # SVER (0)
    def cmd_0(self, req):
        x, y = req["x"], req["y"]
        arg1 = ((x << 8 | y) << 16) | (req["p"] << 8) | req["p"]
        size = self.buffer_size
        if req["p"] != 0 and self.app_buffer_size is not None:
            size = self.app_buffer_size                 # answered by that core's SARK, not by SC&MP
        arg2 = (0xffff << 16) | size                    # version 0xffff: string-encoded version
        return OK, (arg1, arg2, 1400000000), b"SC&MP/SpiNNaker\x002.1.0\x00"

    # READ (2): arg1 address, arg2 length, arg3 type
    def cmd_2(self, req):
        a, n, t = req["arg1"], req["arg2"], req["arg3"]
        if n > self.buffer_size or not self.aligned(a, n, t):
            return RC_ARG, (), b""
        self.access_log.append(("read", req["x"], req["y"], a, n, t))
        return OK, (), self.peek(req["x"], req["y"], a, n)

    # WRITE (3)
    def cmd_3(self, req):
        a, n, t = req["arg1"], req["arg2"], req["arg3"]
        if n > self.buffer_size or n != len(req["data"]) or not self.aligned(a, n, t):
            return RC_ARG, (), b""
        self.access_log.append(("write", req["x"], req["y"], a, n, t))
        self.poke(req["x"], req["y"], a, req["data"])
        return OK, (), b""

    # FILL (5): arg1 address, arg2 word, arg3 size
    def cmd_5(self, req):
        a, w, n = req["arg1"], req["arg2"], req["arg3"]
        if a % 4 or n % 4:
            return RC_ARG, (), b""
        self.access_log.append(("fill", req["x"], req["y"], a, n, 2))
        self.poke(req["x"], req["y"], a, struct.pack("<I", w) * (n // 4))
        return OK, (), b""

    def neighbour(self, x, y, link):
        dx, dy = LINK_VEC[link]
        return ((x + dx) % self.width, (y + dy) % self.height)

    # LINK_READ (17): arg1 address, arg2 length, arg3 link
    def cmd_17(self, req):
        a, n, l = req["arg1"], req["arg2"], req["arg3"]
        if a % 4 or n % 4 or n > self.buffer_size or l not in LINK_VEC:
            return RC_ARG, (), b""
        nx, ny = self.neighbour(req["x"], req["y"], l)
        self.access_log.append(("link_read", nx, ny, a, n, 2))
        return OK, (), self.peek(nx, ny, a, n)

    # LINK_WRITE (18)
    def cmd_18(self, req):
        a, n, l = req["arg1"], req["arg2"], req["arg3"]
        if a % 4 or n % 4 or n > self.buffer_size or n != len(req["data"]) or l not in LINK_VEC:
            return RC_ARG, (), b""
        nx, ny = self.neighbour(req["x"], req["y"], l)
        self.access_log.append(("link_write", nx, ny, a, n, 2))
        self.poke(nx, ny, a, req["data"])
        return OK, (), b""

    @staticmethod
    def aligned(addr, n, t):
        """hardware rule: word access needs word-aligned address and length, short likewise"""
        if t == 2:
            return addr % 4 == 0 and n % 4 == 0
        if t == 1:
            return addr % 2 == 0 and n % 2 == 0
        return t == 0


def make_controller(net, machine_kwargs=None, n_tries=5, timeout=4.0):
    """A real MachineController whose only connection talks to `net`
    (must be called inside `simnet.installed(net)`)."""
    from rig.machine_control.machine_controller import MachineController
    mc = MachineController("sim", n_tries=n_tries, timeout=timeout)
    return mc
