"""C13 - file-like memory views (MemoryIO / SlicedMemoryIO): correspondence of
rig/machine_control/machine_controller.py with the Lean model
RigModel/Model/C13.lean on operation histories, and the Lean bounded-file /
confinement specification (`checkObs`) evaluated on every observed call of the
implementation (the property oracle).

The implementation runs against a recording controller: a subclass of the real
MachineController whose read / write / sdram_free / sdram_alloc are replaced by
recorders serving bytes from a bytearray (no network).  Views are created in
three ways: MemoryIO(...) directly, MachineController.sdram_alloc_as_filelike,
and utils.sdram_alloc_for_vertices.
"""
import itertools
import warnings

CLAIM = dict(
    text=("Machine-checked proof (Lean 4) over ALL operation histories (seek/read/write/slice/tell/len/close/free on a "
          "view and on views sliced from it to any depth, any base address and length incl. zero): every controller "
          "access lies inside the issuing view's range, inside the allocation, on the allocation's chip and is "
          "non-empty (confinement); every read/write/seek/tell refines a fixed-length file with a position "
          "(bytes returned, truncation at the end with a warning, position advances by the bytes transferred, "
          "memory outside the view untouched), call by call and for whole histories on a view, INCLUDING calls whose "
          "transfer fails (the controller's read/write raises SCPError: the error propagates, the position does not "
          "move, a failed read delivers nothing, a failed write leaves exactly the bytes the machine stored); a slice covers exactly the sub-range Python's slice.indices names; "
          "after close or free every I/O operation and every slicing raises OSError and no access is ever issued again; "
          "a view is closed by close() and by leaving its with-block, normally OR through an exception (__exit__ = "
          "close(), as io.BytesIO and real files do: exit_block_is_close, dead_after_block); with TruncationWarning "
          "turned into an exception a call that would be truncated raises it, transfers nothing and moves nothing "
          "(strict_refines_file). Tied to the "
          "code by exact correspondence of whole histories against a recording controller, with the Lean "
          "specification evaluated on every observed call of the implementation."),
    design="3/C13",
    note=("read/write are modelled WITH fixes/c13-memoryio-confinement.diff (the unchanged code reads/writes below the "
          "start after a negative seek and writes past the end after a seek beyond the end; kept as decide "
          "witnesses). seek(n, 2) moves to len-n instead of len+n: known finding seek-from-end-sign (pinned by the "
          "repository's test_seek_from_end). __getitem__ is modelled WITH fixes/c13-getitem-closed.diff "
          "(@_if_not_closed): without it slicing a closed view returns a fresh open view (finding dead-view-sliced, "
          "kept as a decide witness). 'every operation fails' after close/free is claimed and proved for read, "
          "write, seek, tell, flush, address and slicing; __len__ and a repeated close() are not in the property's "
          "list of operations (they touch no memory, the code does not guard them) and are left as they are; "
          "likewise __enter__ on a closed view returns the view (io objects raise there): modelled as the code is, "
          "every operation inside such a block fails, only tagged. "
          "Hardening checklist - not applicable to this property: nothing in scope is counted in 8 or 16 bits (no "
          "257 / 65,537 counters; lengths 65,537 and 70,000 and histories of 3,000 calls are run instead); nothing in "
          "scope returns a generator/iterator or a mutable result (read returns bytes, tell/len ints), so 'results "
          "edited or consumed lazily by the caller' reduces to: views handed back earlier are re-checked at the end "
          "of every history, the dict returned by sdram_alloc_for_vertices and the dicts passed to it are cleared by "
          "the caller, a bytearray passed to write is overwritten after the call; the simulated machine has no "
          "parameter a view depends on other than chip, base, length and content (all varied, and different between "
          "the two owners of a session); no rig class is passed INTO these functions except the controller (a "
          "subclass of MachineController is used throughout). Only tagged, not judged (outside the property's text): "
          "tag/app_id/clear passed through to sdram_alloc (alloc-args, vertex-tag), keys of the dict returned by "
          "sdram_alloc_for_vertices, propagation of an allocator failure, a with-block swallowing the caller's "
          "exception. numpy.uint* arguments and objects that only define __index__ are not used (the code compares "
          "and adds its arguments; the property does not ask for more than integers)."),
    technique="Lean 4 theorems over a hand-written model + differential correspondence + Lean spec as oracle")

THEOREMS = ["step_confined", "step_WF", "run_confined", "run_confined_alloc", "slice_exact", "slice_within_parent",
            "step_refines_file", "run_refines_file", "failed_read_moves_nothing", "failed_write_moves_nothing",
            "early_offset_update_breaks_failed_read", "read_back", "close_closes", "dead_after_close", "free_frees",
            "no_access_after_free", "orig_read_escapes_below", "orig_write_escapes_above", "fix_conservative",
            "orig_slice_of_closed_view_is_open", "getitem_fix_conservative", "failed_free_moves_nothing",
            "absFileWin_eq", "seek_end_sign", "exit_block_is_close", "dead_after_block", "enter_is_noop",
            "stepS_cases", "strict_refines_file", "stepS_WF", "stepS_confined"]

RULE = ("histories of 1-14 calls (seek with all three origins and offsets from -len-3 to len+4 biased to the edges, "
        "bad origin; read default / explicit counts incl. 0, negative and beyond the end; writes of 0-2*len bytes; "
        "slices with None/negative/reversed/out-of-range bounds and steps None/1/other, nested to depth 4; "
        "non-slice keys; tell/address/len/flush; close (plain or with-block) and free at any point; FAULT INJECTION: "
        "about 15% of the reads/writes run while the recording controller's read/write raises rig's TimeoutError / "
        "FatalReturnCodeError (a failing write first stores 0..all of the bytes it was handed), followed by tell + "
        "retry, relative seek + retry, read-back, or slice + close, and then the rest of the history) on views of "
        "length 0-12 (sometimes up to 40, sometimes end < start) at bases 0, 1 and SDRAM addresses, created "
        "directly, by sdram_alloc_as_filelike and by sdram_alloc_for_vertices. GENERAL STREAMS (hardening round), all "
        "judged by the same model comparison + Lean oracle: ARGUMENT KINDS - per case a palette of integer kinds for "
        "seek/read/slice arguments, origins, steps and chip coordinates: int, bool, IntEnum members, numpy.int64, or "
        "BIG ints (+-2^31, 2^32, 2^53+1, 2^63, 2^64, 2^100 as offsets, counts, slice bounds, bad origins/steps, with "
        "bases up to 2^100); write data as bytes / bytearray (60% overwritten by the caller right after the call) / "
        "memoryview; OPTIONAL PARAMETERS and conventions - read(n_bytes=), write(bytes=), seek(n_bytes=, from_what=) "
        "positional / keyword / mixed, MemoryIO(...) positional / keyword, sdram_alloc_as_filelike positional, keyword "
        "and with x, y, app_id from the context, tag 0-255, app_id, clear; sdram_alloc_for_vertices with 1-4 vertices "
        "(identifiers int, str with % and {}, tuple, namedtuple, frozenset, object; some without SDRAM), core_as_tag "
        "given True/False/omitted, custom sdram_resource / cores_resource keys, clear, keyword call, the caller "
        "clearing every dict it passed and the dict handed back; close() plain, by with-block, by a with-block "
        "left through an exception; HISTORIES - the same call repeated (5%); SESSIONS (8%): two owners equal in all "
        "but one aspect (chip x, chip y, chip swapped, base, length, content) on ONE controller in a freshly "
        "reloaded module, used alternately or doing the same calls in either order; FAULTS - as above plus "
        "sdram_free raising inside free() (then tell, read, free again) and the allocator failing once at every "
        "vertex position before the view is created; SCALE (a handful per run) - one history of 3,000 calls, 300 "
        "(thorough 1,200) sibling slices of one view, nested slices 1,100 (1,500) deep, views of 65,537 and 70,000 "
        "bytes, views of 2^32+5, 2^64 and 2^100 bytes with sparse memory (model comparison only: the whole-view "
        "content oracle is skipped there); NON-TERMINATION - every call runs under a CPU limit (2 s, 0.3 s after "
        "three hangs): a call that does not return is reported as did-not-return (the model is total). WITH-BLOCKS "
        "(6% of steps start one): __enter__ / body / __exit__ as separate calls, blocks of a view and nested blocks of "
        "its slices (up to 3 levels), each level left normally, by the caller's exception or by an exception of the "
        "view's own operation inside the block (TruncationWarning turned into an error by the warnings filter, bad "
        "seek origin, failed transfer), the exception travelling outwards through the outer blocks; every view is "
        "used again after its block (read / write / seek / tell / flush / address / slice) and closed views are "
        "re-entered; the oracle judges the exit (the view must now be closed) and every later call on that view as "
        "a call on a closed view (keys dead-view-operates / dead-view-sliced); 5% of reads/writes elsewhere also run "
        "with TruncationWarning as an error. OBJECT LIFETIME (12% of the histories; every producer: MemoryIO(...), "
        "sdram_alloc_as_filelike, sdram_alloc_for_vertices on the recording controller, slices, slices of slices): "
        "the program drops its last reference to a view - the owner MemoryIO itself or an intermediate slice - "
        "(del + gc.collect(); the harness keeps no reference either) while the views made from it stay in use; in "
        "half of these a 'helper' creates the owner, slices it 1-3 times and hands back only the slices. Any "
        "exception that neither the model nor the specification predicts is reported (unexpected-exception). LONG "
        "TRANSFERS (200 histories per quick run, 3,000 thorough): views of 257-6,000 bytes at unaligned bases with "
        "lengths that are not multiples of 4, default reads, reads and writes of 257 bytes to several KiB, "
        "unaligned in address and length, directly and through unaligned slices, some with a failing transfer and a "
        "retry. In EVERY stream the recording controller logs (address, length/data, x, y, p) of every read, write "
        "and sdram_free, the model must predict exactly that call, and the Lean oracle judges its range against "
        "the issuing view's bounds (confinement) and against the transferred bytes (file-transfer). A history is "
        "non-trivial when at least one read or write was truncated; distinct = distinct canonical JSON of the history")

MARGIN = 16
BASES = [0, 1, 7, 0x60000000, 0x60000004, 0x61000003, 0x7ffffff0]

# priority of the clause names returned by the Lean oracle -> finding key
PRIORITY = [("confinement", "confinement"), ("confinement-memory", "confinement"),
            ("dead", "dead-view-operates"), ("not-closed", "dead-view-operates"), ("dead-sliced", "dead-view-sliced"), ("slice-range", "slice-range"), ("slice-effect", "slice-range"),
            ("seek-from-end-sign", "seek-from-end-sign"), ("failed-free", "failed-transfer"),
            ("file-transfer", "bounded-file"), ("file-result", "bounded-file"), ("file-warning", "bounded-file"),
            ("file-position", "bounded-file"), ("file-content", "bounded-file")]

WHAT = {
    "confinement": "a view issued a controller access outside its own range (or changed memory outside it)",
    "dead-view-operates": "an operation on a closed view / freed allocation did not fail with OSError (a view is "
                          "closed by close() and by leaving its with-block, normally or through an exception)",
    "dead-view-sliced": "slicing a closed view / a view of a freed allocation did not fail (it returned a fresh open view)",
    "slice-range": "a slice does not cover exactly the clipped sub-range it names",
    "seek-from-end-sign": "seek(n, 2) moves to len-n; the documented (file) semantics is len+n",
    "failed-transfer": "a read/write whose transfer failed (the controller raised) did not leave the view as "
                       "a failed file operation does: position unmoved, nothing delivered, the error raised",
    "bounded-file": "a call does not behave like the same call on a fixed-length file",
    "unexpected-exception": "a call raised an exception that neither the model nor the file specification predicts "
                            "(the only documented failures are OSError on closed/freed views, ValueError for a bad "
                            "origin or key, the controller's transfer errors, TruncationWarning when made an error)",
    "did-not-return": "a call of the implementation did not return (the model is total: every call terminates)",
}


# --------------------------------------------------------------------------
# the implementation against a recording controller
# --------------------------------------------------------------------------
_FAKE = {}
_HANGS = [0]
_SIDE_TAGS = []          # branch tags produced while running the implementation (drained by process)


def fake_class():
    """Recording MachineController (built lazily so that import failures of rig
    are attributed to the implementation; rebuilt after a module reload)."""
    if "cls" in _FAKE:
        return _FAKE["cls"]
    from rig.machine_control.machine_controller import MachineController
    from rig.utils.contexts import ContextMixin

    class Recorder(MachineController):
        def __init__(self, context):
            ContextMixin.__init__(self, context)
            self.regions = []       # one per view owner: dict(x, y, base, mem (window), far (sparse rest))
            self.log = []
            self.fault = None       # armed by the harness for one call: (bytes to store first, exception kind)
            self.allocs = []        # every sdram_alloc call: [size, tag, x, y, app_id, clear]
            self.alloc_queue = []   # addresses the next sdram_alloc calls return
            self.alloc_fault = None  # absolute index of the sdram_alloc call that fails

        def _raise(self, kind):
            from rig.machine_control import scp_connection
            if kind == "fatal":
                raise scp_connection.FatalReturnCodeError(0x86)
            raise scp_connection.TimeoutError("no response from chip (injected fault)")

        def _region(self, x, y, address):
            best = None
            for r in self.regions:
                if r["x"] == x and r["y"] == y:
                    d = 0 if r["base"] <= address < r["base"] + len(r["mem"]) else \
                        min(abs(address - r["base"]), abs(address - r["base"] - len(r["mem"])))
                    if best is None or d < best[0]:
                        best = (d, r)
            return best[1] if best else None

        def sdram_alloc(self, size, tag=0, x=None, y=None, app_id=None, clear=False):
            from rig.machine_control.machine_controller import SpiNNakerMemoryError
            n = len(self.allocs)
            self.allocs.append([size, tag, x, y, app_id, clear])
            if self.alloc_fault == n:
                raise SpiNNakerMemoryError(size, x, y, tag)
            return self.alloc_queue.pop(0) if self.alloc_queue else 0x7f000000 + 0x1000 * n

        def read(self, address, length_bytes, x=None, y=None, p=0):
            address, length_bytes, x, y, p = int(address), int(length_bytes), int(x), int(y), int(p)
            self.log.append(["r", address, length_bytes, x, y, p])
            if self.fault is not None:
                # the transfer fails (SCP timeout / fatal return code): nothing is delivered
                fault, self.fault = self.fault, None
                self._raise(fault[1])
            if length_bytes > 1 << 22:
                raise RuntimeError("harness: transfer of %d bytes is larger than any generated view" % length_bytes)
            r = self._region(x, y, address)
            if r is not None and r["base"] <= address and address + length_bytes <= r["base"] + len(r["mem"]):
                i = address - r["base"]
                return bytes(r["mem"][i:i + max(0, length_bytes)])
            out = bytearray()
            for a in range(address, address + max(0, length_bytes)):
                if r is None:
                    out.append(0)
                else:
                    i = a - r["base"]
                    out.append(r["mem"][i] if 0 <= i < len(r["mem"]) else r["far"].get(a, 0))
            return bytes(out)

        def write(self, address, data, x=None, y=None, p=0):
            data = bytes(data)
            address, x, y, p = int(address), int(x), int(y), int(p)
            self.log.append(["w", address, list(data), x, y, p])
            fault, self.fault = self.fault, None
            if fault is not None:
                # the transfer fails after the machine stored the first fault[0] bytes
                data = data[:fault[0]]
            r = self._region(x, y, address)
            for k, b in enumerate(data):
                if r is not None:
                    i = address + k - r["base"]
                    if 0 <= i < len(r["mem"]):
                        r["mem"][i] = b
                    else:
                        r["far"][address + k] = b
            if fault is not None:
                self._raise(fault[1])

        def sdram_free(self, ptr, x=None, y=None):
            self.log.append(["f", int(ptr), int(x), int(y)])
            fault, self.fault = self.fault, None
            if fault is not None:
                self._raise(fault[1])

    _FAKE["cls"] = Recorder
    return Recorder


def specs(case):
    """the view owners of a case: the case itself and its twins"""
    return [case] + list(case.get("twins", []))


def root_range(case):
    """(start, stop as handed to the constructor)"""
    if case["mode"] == "direct":
        return case["start"], case["stop"]
    if case["mode"] == "alloc":
        return case["start"], case["start"] + case["size"]
    return case["start"], case["start"] + case["s1"] - case["s0"]


_ENUMS = {}


def conv(n, kind):
    """the integer `n` in one of the kinds the API legally accepts"""
    if n is None or kind in (None, "int"):
        return n
    if kind == "bool":
        return bool(n) if n in (0, 1) else n
    if kind == "enum":
        if n not in _ENUMS:
            import enum
            _ENUMS[n] = enum.IntEnum("K%d" % len(_ENUMS), {"V": n}).V
        return _ENUMS[n]
    if kind == "np" and -2 ** 31 < n < 2 ** 31:
        import numpy
        return numpy.int64(n)
    return n


def vertex_id(kind, i):
    import collections
    if kind == "int":
        return 1000 + i
    if kind == "str":
        return "v%d %%s {} {0}" % i
    if kind == "tuple":
        return (i,) * (i % 4)
    if kind == "namedtuple":
        return collections.namedtuple("V", "a b")(i, "%d")
    if kind == "frozenset":
        return frozenset([i, "{}"])
    return type("Vertex", (object,), {})()


def make_root(spec, mc):
    """create the view the way the case says; -> (view, what the allocator was asked or None)"""
    from rig.machine_control.machine_controller import MemoryIO, SpiNNakerMemoryError
    nk = spec.get("nk")
    x, y = conv(spec["x"], nk), conv(spec["y"], nk)
    mode = spec["mode"]
    if mode == "direct":
        if spec.get("kw"):
            return MemoryIO(machine_controller=mc, x=x, y=y, start_address=spec["start"],
                            end_address=spec["stop"]), None
        return MemoryIO(mc, x, y, spec["start"], spec["stop"]), None
    start = spec["start"]

    def attempt():
        n0 = len(mc.allocs)
        if mode == "alloc":
            size, tag, app, clear = spec["size"], spec.get("tag", 0), spec.get("app_id", 66), spec.get("clear", False)
            mc.alloc_queue = [start]
            how = spec.get("conv", "kwxy")
            if how == "pos":
                v = mc.sdram_alloc_as_filelike(size, tag, x, y, app, clear)
            elif how == "kw":
                v = mc.sdram_alloc_as_filelike(size=size, tag=tag, x=x, y=y, app_id=app, clear=clear)
            elif how == "ctx":
                with mc(x=x, y=y, app_id=app):
                    v = mc.sdram_alloc_as_filelike(size, tag, clear=clear)
            else:
                v = mc.sdram_alloc_as_filelike(size, x=x, y=y)
                tag, app, clear = 0, 66, False
            _SIDE_TAGS.append("alloc-conv:" + how)
            _SIDE_TAGS.append("alloc-args:ok" if mc.allocs[n0:] == [[size, tag, x, y, app, clear]]
                              else "alloc-args:differ")
            return v, mc.allocs[n0] if len(mc.allocs) > n0 else None
        # sdram_alloc_for_vertices with several vertices, identifiers of every hashable kind, custom
        # resource keys, caller-side edits of everything passed and handed back
        from rig.machine_control.utils import sdram_alloc_for_vertices
        from rig import place_and_route
        cores_k, sdram_k = place_and_route.Cores, place_and_route.SDRAM
        if spec.get("custom_res"):
            cores_k, sdram_k = "cores %s", ("sdram", "{}")
        others = spec.get("others", [])
        pos = min(spec.get("pos", 0), len(others))
        order = others[:pos] + [None] + others[pos:]
        placements, allocations, queue, want_keys = {}, {}, [], []
        prim = None
        for i, o in enumerate(order):
            if o is None:
                vid = vertex_id(spec.get("vid", "object"), i)
                prim = vid
                placements[vid] = (x, y)
                allocations[vid] = {cores_k: slice(spec.get("core0", 1), spec.get("core0", 1) + 1),
                                    sdram_k: slice(spec["s0"], spec["s1"])}
                queue.append(start)
                want_keys.append(vid)
            else:
                vid = vertex_id(o["vid"], i)
                placements[vid] = (o["x"], o["y"])
                allocations[vid] = {cores_k: slice(o["core0"], o["core0"] + 2)}
                if o["sd"] is not None:
                    allocations[vid][sdram_k] = slice(o["sd"][0], o["sd"][1])
                    queue.append(0x70000000 + 0x10000 * i)
                    want_keys.append(vid)
        mc.alloc_queue = queue
        kw = {}
        if "core_as_tag" in spec:
            kw["core_as_tag"] = spec["core_as_tag"]
        if spec.get("custom_res"):
            kw["sdram_resource"], kw["cores_resource"] = sdram_k, cores_k
        if spec.get("clear"):
            kw["clear"] = True
        if spec.get("kw"):
            d = sdram_alloc_for_vertices(controller=mc, placements=placements, allocations=allocations, **kw)
        else:
            d = sdram_alloc_for_vertices(mc, placements, allocations, **kw)
        _SIDE_TAGS.append("vertices:%d" % len(order))
        _SIDE_TAGS.append("vertex-id:" + spec.get("vid", "object"))
        _SIDE_TAGS.append("vertex-keys:ok" if sorted(map(id, d)) == sorted(map(id, want_keys)) else "vertex-keys:differ")
        v = d[prim]
        mine = next((a for a in mc.allocs[n0:] if a[2] == x and a[3] == y and a[0] == spec["s1"] - spec["s0"]), None)
        want_tag = spec.get("core0", 1) if spec.get("core_as_tag", True) else 0
        _SIDE_TAGS.append("vertex-tag:ok" if mine is not None and mine[1] == want_tag and mine[5] == bool(spec.get("clear"))
                          else "vertex-tag:differ")
        # the caller edits what it passed and what it was handed back; the view must not care
        placements.clear()
        for a in allocations.values():
            a.clear()
        allocations.clear()
        d.clear()
        return v, mine

    if spec.get("alloc_fault") is not None:
        # the allocator fails once (at that call), the caller tries again
        mc.alloc_fault = len(mc.allocs) + spec["alloc_fault"]
        try:
            attempt()
            _SIDE_TAGS.append("alloc-fault:not-propagated")
        except SpiNNakerMemoryError:
            _SIDE_TAGS.append("alloc-fault:propagated")
        mc.alloc_fault = None
    return attempt()


def snap(v):
    return [int(v._start_address), int(v._end_address), int(v._offset), bool(v.closed)]


def canon_ret(r):
    import numbers
    if r is None:
        return None
    if isinstance(r, numbers.Integral):      # int, bool, IntEnum, numpy integers: the number they denote
        return int(r)
    if isinstance(r, (bytes, bytearray)):
        return {"b": list(r)}
    return {"err": "type:" + type(r).__name__}


class _Boom(Exception):
    """raised by the harness inside a with-block"""


_SELF = object()     # `__enter__` returned the view itself


def call(view, op):
    k = op["k"]
    nk = op.get("nk")
    kw = op.get("kw")
    if k == "seek":
        n, w = conv(op["n"], nk), conv(op["w"], nk)
        if op["w"] == 0 and op.get("short"):
            return view.seek(n_bytes=n) if kw else view.seek(n)
        if kw == "mixed":
            return view.seek(n, from_what=w)
        return view.seek(n_bytes=n, from_what=w) if kw else view.seek(n, w)
    if k == "read":
        if op.get("dflt"):
            return view.read()
        n = conv(op["n"], nk)
        return view.read(n_bytes=n) if kw else view.read(n)
    if k == "write":
        dk = op.get("dk", "bytes")
        data = bytes(op["d"])
        if dk == "bytearray":
            data = bytearray(data)
        elif dk == "memoryview":
            data = memoryview(data)
        try:
            return view.write(bytes=data) if kw else view.write(data)
        finally:
            if dk == "bytearray" and op.get("edit"):
                data[:] = b"\xee" * len(data)        # the caller re-uses its buffer
    if k == "slice":
        return view[slice(conv(op["a"], nk), conv(op["b"], nk), conv(op["s"], nk))]
    if k == "index":
        return view[(slice(0, 1), slice(1, 2))] if op.get("tuple") else view[0]
    if k == "tell":
        return view.tell()
    if k == "address":
        return view.address
    if k == "len":
        return len(view)
    if k == "flush":
        return view.flush()
    if k == "close":
        if op.get("with") == "exc":
            try:
                with view:
                    raise _Boom()
            except _Boom:
                return None
            _SIDE_TAGS.append("with-exc:swallowed")
            return None
        if op.get("with"):
            with view:
                pass
            return None
        return view.close()
    if k == "free":
        return view.free()
    if k == "enter":
        r = view.__enter__()
        return _SELF if r is view else r
    if k == "exit":
        # the with-statement protocol: __exit__(None, None, None) or __exit__(type, value, traceback)
        exc = (None, None, None)
        if op["raised"]:
            exc = op.get("_exc")
            if exc is None:
                try:
                    raise _Boom()
                except _Boom:
                    import sys
                    exc = sys.exc_info()
        if view.__exit__(*exc):
            _SIDE_TAGS.append("with-exit:swallows-the-exception")
        return None
    raise ValueError(k)


def owner_freed(ob):
    """the `_freed` flag of the allocation's owner - through the owner while the harness still holds it,
    else through any view that is still referenced (its `_parent`), else the last value seen"""
    try:
        if ob["root"] is not None:
            ob["freed_last"] = bool(ob["root"]._freed)
        else:
            u = next((u for u in ob["views"] if u is not None), None)
            if u is not None:
                ob["freed_last"] = bool(u._parent._freed)
    except Exception:
        pass
    return ob["freed_last"]


def live_ops(case, o):
    """the calls of owner `o` that can be made: not the `drop`s themselves, not calls on dropped views"""
    dropped, out = set(), []
    for op in case["ops"]:
        if op.get("o", 0) != o:
            continue
        if op["k"] == "drop":
            dropped.add(op["v"])
        elif op["v"] not in dropped:
            out.append(op)
    return out


def run_impl(case):
    """Run the history on the real code; returns dict(outs (per op), objs (per view owner))."""
    if not any(op["k"] == "drop" for op in case["ops"]):
        return _run_impl(case)
    import gc
    # histories that drop objects run the collector: everything that exists already is moved out of its
    # way first (gc.freeze), so each collection only looks at the objects of this history
    gc.freeze()
    try:
        return _run_impl(case)
    finally:
        gc.unfreeze()


def _run_impl(case):
    import gc
    import sys
    from harness import common
    if case.get("reload"):
        # a session (several owners used alternately) starts from a freshly loaded module: module- and
        # class-level state starts as in a new process, so the case and its replay are self-contained
        import importlib
        from rig.machine_control import machine_controller as mcm
        importlib.reload(mcm)
        _FAKE.clear()
        _SIDE_TAGS.append("module-reloaded")
    from rig.machine_control.machine_controller import SlicedMemoryIO, TruncationWarning
    from rig.machine_control.scp_connection import SCPError
    mc = fake_class()({"app_id": 66, "x": None, "y": None})
    objs = []
    for s in specs(case):
        start, _ = root_range(s)
        region = {"x": s["x"], "y": s["y"], "base": start - s["margin"], "mem": bytearray(s["win"]), "far": {}}
        mc.regions.append(region)
        try:
            with common.cpu_limit(5):
                root, asked = make_root(s, mc)
        except common.ImplHang as e:
            return {"create_err": "DidNotReturn: %s" % e, "hang": True}
        except (ImportError, SyntaxError):
            raise
        except Exception as e:
            return {"create_err": "%s: %s" % (type(e).__name__, e)}
        objs.append({"root": root, "views": [root], "root0": snap(root), "region": region, "steps": [],
                     "outs": [], "asked": asked, "lastwin": list(s["win"]), "final": {}, "freed_last": False,
                     "dropset": set()})
        del root
    outs = []
    v = r = None
    for k, op in enumerate(case["ops"]):
        ob = objs[op.get("o", 0)] if 0 <= op.get("o", 0) < len(objs) else None
        views = ob["views"] if ob else []
        if op["k"] == "drop":
            # OBJECT LIFETIME: the program drops its last reference to this view (for view 0: to the
            # MemoryIO that owns the allocation) and the collector runs; views sliced from it stay in use
            if ob:
                ob["dropset"].add(op["v"])
            if ob and 0 <= op["v"] < len(views) and views[op["v"]] is not None:
                ob["final"][op["v"]] = snap(views[op["v"]])
                owner_freed(ob)
                views[op["v"]] = None
                if op["v"] == 0:
                    ob["root"] = None
                ob["last_exc"] = None
                v = r = None
                gc.collect()
            outs.append({"ret": None, "warn": False, "acc": None, "dropped": True})
            continue
        if ob and op["v"] in ob["dropset"]:
            outs.append({"ret": None, "warn": False, "acc": None, "dropped": True})   # no reference left: not callable
            continue
        if not 0 <= op["v"] < len(views):
            # the history refers to a view this implementation never created (an earlier slicing
            # behaved differently from what the generator assumed): same result as the model's
            # `noSuchView`, nothing is called, the oracle skips the step
            out = {"ret": {"err": "noSuchView"}, "warn": False, "acc": None}
            outs.append(out)
            if ob:
                ob["outs"].append(out)
            continue
        v = views[op["v"]]
        pre, freed = snap(v), owner_freed(ob)
        wb = list(ob["region"]["mem"])
        if wb == ob["lastwin"]:
            wb = None
        del mc.log[:]
        nv = None
        # fault injection: the controller's read / write / sdram_free raises during this call (if it is reached)
        mc.fault = (op["fault"], op.get("exc", "timeout")) if op.get("fault") is not None else None
        strict_hit = False
        if op["k"] == "exit" and op.get("how") == "own":
            op = dict(op, _exc=ob.get("last_exc"))      # the block is left by the view's own exception
        with warnings.catch_warnings(record=True) as wl:
            warnings.simplefilter("always")
            if op.get("werr"):
                # the caller turned truncation warnings into exceptions (as the docstrings suggest)
                warnings.simplefilter("error", TruncationWarning)
            try:
                # a call takes microseconds (the model is total): still running after 2 s of CPU time =
                # it did not return (0.3 s after three such calls)
                with common.cpu_limit(2 if _HANGS[0] < 3 else 0.3):
                    r = call(v, op)
                if r is _SELF:
                    ret = {"view": op["v"]}
                elif isinstance(r, SlicedMemoryIO):
                    views.append(r)
                    nv = snap(r)
                    ret = {"view": len(views) - 1}
                else:
                    ret = canon_ret(r)
            except common.ImplHang as e:
                _HANGS[0] += 1
                ret = {"err": "DidNotReturn", "where": str(e)}
            except TruncationWarning:
                ret, strict_hit = {"err": "TruncationWarning"}, True
                ob["last_exc"] = sys.exc_info()
            except SCPError:
                ret = {"err": "TransferError"}      # the controller's documented transfer errors
                ob["last_exc"] = sys.exc_info()
            except (OSError, ValueError, AttributeError) as e:
                ret = {"err": type(e).__name__}
                ob["last_exc"] = sys.exc_info()
            except (ImportError, SyntaxError):
                raise
            except Exception as e:  # any other exception is an observation, not a harness fault
                ret = {"err": "Other:" + type(e).__name__}
        mc.fault = None
        warn = strict_hit or any(issubclass(w.category, TruncationWarning) for w in wl)
        op = {k: v for k, v in op.items() if k != "_exc"}
        out = {"ret": ret, "warn": warn, "acc": mc.log[0] if mc.log else None}
        if len(mc.log) > 1:
            out["extra_acc"] = [list(a) for a in mc.log[1:]]
        outs.append(out)
        ob["outs"].append(out)
        win = list(ob["region"]["mem"])
        unchanged = wb is None and win == ob["lastwin"]
        ob["lastwin"] = win
        ob["steps"].append({"idx": k, "j": len(ob["outs"]) - 1, "wb": wb, "root": op["v"] == 0, "pre": pre, "freed": freed, "op": op, "out": out,
                            "post": snap(v), "pfreed": owner_freed(ob), "nv": nv, "win": None if unchanged else win})
    v = r = None
    res = []
    for ob in objs:
        res.append({"steps": ob["steps"], "outs": ob["outs"],
                    "views": [ob["final"][i] if u is None else snap(u) for i, u in enumerate(ob["views"])],
                    "root0": ob["root0"], "freed": owner_freed(ob), "win": list(ob["region"]["mem"]),
                    "asked": ob["asked"]})
    return {"outs": outs, "objs": res}


# --------------------------------------------------------------------------
# evaluation: model correspondence + Lean oracle
# --------------------------------------------------------------------------
def lean_reqs(case, impl):
    """two requests (model trace, oracle) per view owner"""
    reqs = []
    for o, (s, ob) in enumerate(zip(specs(case), impl["objs"])):
        start, _ = root_range(s)
        base = start - s["margin"]
        ops = live_ops(case, o)
        tr = {"suite": "c13", "op": "trace", "x": s["x"], "y": s["y"], "base": base, "win": s["win"],
              "mode": s["mode"], "start": s["start"], "ops": ops}
        for k in ("stop", "size", "s0", "s1"):
            if k in s:
                tr[k] = s[k]
        # (memory before a step = memory after the previous executed step; skipped steps touch nothing)
        steps = [] if s.get("nooracle") else \
            [dict(t, out={k: t["out"][k] for k in ("ret", "warn", "acc")}) for t in ob["steps"]]
        ck = {"suite": "c13", "op": "check", "x": s["x"], "y": s["y"], "base": base, "win": s["win"], "steps": steps}
        if ob["asked"] is not None:
            # the view must span exactly what was allocated (sdram_alloc(size) returned `start`), on the
            # chip the allocation was made on
            ck["alloc"] = [start, int(ob["asked"][0])]
            ck["alloc_xy"] = [int(ob["asked"][2]), int(ob["asked"][3])]
            ck["root"] = ob["root0"]
        reqs += [tr, ck]
    return reqs


def key_of(fails):
    for clause, key in PRIORITY:
        if clause in fails:
            return key
    return "bounded-file"


def judge(case, impl, reps):
    """-> (mismatch detail or None, [(step index, key, clauses)])"""
    mm, viol = None, []
    for o, ob in enumerate(impl["objs"]):
        model, check = reps[2 * o], reps[2 * o + 1]
        ops = live_ops(case, o)
        if "proto_error" in model:
            mm = mm or ("model: " + model["proto_error"])
        elif mm is None:
            m_outs = model["outs"]
            i_outs = [{k: t[k] if k != "ret" or not isinstance(t[k], dict) or "where" not in t[k]
                       else {"err": t[k]["err"]} for k in ("ret", "warn", "acc")} for t in ob["outs"]]
            if m_outs != i_outs:
                k = next((i for i, (a, b) in enumerate(zip(m_outs, i_outs)) if a != b), min(len(m_outs), len(i_outs)))
                mm = "owner %d step %d (%s): impl=%r model=%r" % (
                    o, k, ops[k]["k"] if k < len(ops) else "?",
                    i_outs[k] if k < len(i_outs) else None, m_outs[k] if k < len(m_outs) else None)
            elif model["views"] != ob["views"]:
                mm = "final views differ: impl=%r model=%r" % (ob["views"], model["views"])
            elif model["freed"] != ob["freed"]:
                mm = "freed flag differs"
            elif model["win"] != ob["win"]:
                mm = "final memory differs: impl=%r model=%r" % (ob["win"], model["win"])
            if mm is None and any("extra_acc" in t for t in ob["outs"]):
                mm = "more than one controller access in one call"
        if "proto_error" in check:
            mm = mm or ("oracle: " + check["proto_error"])
        else:
            for st, fails in zip(ob["steps"], check["fails"]):
                if isinstance(st["out"]["ret"], dict) and st["out"]["ret"].get("err") == "DidNotReturn":
                    continue                        # reported once, as did-not-return (below)
                other = isinstance(st["out"]["ret"], dict) and str(st["out"]["ret"].get("err", "")).startswith("Other:")
                if not fails and other and "outs" in model and st["j"] < len(model["outs"]) and \
                        model["outs"][st["j"]]["ret"] != st["out"]["ret"]:
                    fails = ["model-predicts-no-exception"]
                if fails:
                    key = key_of(fails)
                    if key == "bounded-file" and st["op"].get("fault") is not None and st["out"]["acc"] is not None:
                        key = "failed-transfer"     # the controller raised during this call
                    if other and key in ("bounded-file", "slice-range", "dead-view-operates", "dead-view-sliced"):
                        key = "unexpected-exception"    # an exception neither the model nor the specification predicts
                    viol.append((st["idx"], key, fails + ([st["out"]["ret"]["err"]] if other else [])))
            if check.get("root"):
                viol.append((-1, "confinement", ["root-view-is-not-the-allocation"]))
        for st in ob["steps"]:
            # the model is total (Lean): a call that does not return is a finding
            if isinstance(st["out"]["ret"], dict) and st["out"]["ret"].get("err") == "DidNotReturn":
                viol.append((st["idx"], "did-not-return", [st["out"]["ret"].get("where", "")]))
            # an extra controller access in the same call: judge its confinement here
            for a in st["out"].get("extra_acc", []):
                s, e = st["pre"][0], st["pre"][1]
                n = a[2] if a[0] == "r" else len(a[2]) if a[0] == "w" else 1
                if a[0] == "f" or not (s <= a[1] and a[1] + n <= e and n > 0):
                    viol.append((st["idx"], "confinement", ["confinement"]))
    return mm, viol


def eval_cases(ctx, cases, report=True):
    """Run implementation, model and oracle on every case. Returns per-case (mm, viol, impl)."""
    impls = [run_impl(c) for c in cases]
    reqs, spans = [], []
    for c, im in zip(cases, impls):
        r = [] if "create_err" in im else lean_reqs(c, im)
        spans.append((len(reqs), len(r)))
        reqs += r
    reps = ctx.lean(reqs)
    res = []
    for c, im, (a, n) in zip(cases, impls, spans):
        if "create_err" in im:
            viol = [(-1, "did-not-return", [im["create_err"]])] if im.get("hang") else []
            res.append(("creating the view failed: " + im["create_err"], viol, dict(im, outs=[], objs=[])))
        else:
            mm, viol = judge(c, im, reps[a:a + n])
            res.append((mm, viol, im))
    return res


def drop_op(case, k, outs):
    """case without op k (indices of later views of the same owner adjusted); None if not possible.
    `outs`: what the implementation returned for each op of `case`"""
    ops = case["ops"]
    new = [dict(o) for o in ops[:k]]
    r = outs[k]["ret"] if k < len(outs) else None
    if isinstance(r, dict) and "view" in r:
        j, own = r["view"], ops[k].get("o", 0)     # index of the view this op created
        for o in ops[k + 1:]:
            o = dict(o)
            if o.get("o", 0) == own:
                if o["v"] == j:
                    return None
                if o["v"] > j:
                    o["v"] -= 1
            new.append(o)
    else:
        new += [dict(o) for o in ops[k + 1:]]
    return dict(case, ops=new)


def shrink(ctx, case, key, budget=60):
    """greedy: cut the tail after the first failing step, drop the twins, then drop single ops"""
    last = {}

    def fails(c):
        (mm, viol, im), = eval_cases(ctx, [c])
        f = [i for i, k, _ in viol if k == key]
        if f:
            last["outs"] = im["outs"]
        return f
    f = fails(case)
    if not f:
        return case
    case = dict(case, ops=case["ops"][:max(f[0], 0) + 1])
    last["outs"] = last["outs"][:len(case["ops"])]
    if case.get("twins"):
        alone = {k: v for k, v in case.items() if k != "twins"}
        alone["ops"] = [op for op in case["ops"] if op.get("o", 0) == 0]
        if fails(alone):
            case = alone
    changed = len(case["ops"]) <= 400
    while changed and budget > 0:
        changed = False
        for k in range(len(case["ops"]) - 2, -1, -1):
            c2 = drop_op(case, k, last["outs"])
            budget -= 1
            if c2 is not None and fails(c2):
                case, changed = c2, True
                break
            if budget <= 0:
                break
    return case


def process(ctx, cases):
    del _SIDE_TAGS[:]
    res = eval_cases(ctx, cases)
    for t in _SIDE_TAGS:
        ctx.tag(t)
    del _SIDE_TAGS[:]
    reported = set(k for k, _, _ in ctx.concrete)
    for c, (mm, viol, im) in zip(cases, res):
        ctx.traces += 1
        for o, op in zip(im["outs"], c["ops"]):
            r = o["ret"]
            t = op["k"]
            if isinstance(r, dict) and "err" in r:
                t += ":" + r["err"]
            elif o["warn"]:
                t += ":truncated"
            elif o["acc"]:
                t += ":access"
            ctx.tag(t)
            if op["v"] > 0 and o["acc"]:
                ctx.tag("access-through-slice")
            for f in ("nk", "kw", "dk"):
                if op.get(f) not in (None, False, "int", "bytes"):
                    ctx.tag("%s:%s" % (f, op[f]))
            if op.get("edit"):
                ctx.tag("buffer-edited-after-write")
            if op.get("big"):
                ctx.tag("big-int-argument")
            if op.get("werr"):
                ctx.tag("warnings-as-errors")
            if op["k"] == "drop":
                ctx.tag("drop:owner" if op["v"] == 0 else "drop:slice")
            n_acc = o["acc"][2] if o["acc"] and o["acc"][0] == "r" else len(o["acc"][2]) if o["acc"] and o["acc"][0] == "w" else 0
            if n_acc > 256:
                ctx.tag("transfer>256:%s:%s" % (o["acc"][0], "unaligned" if o["acc"][1] % 4 or n_acc % 4 else "aligned"))
            if op["k"] == "exit":
                ctx.tag("with-exit:" + (op.get("how") or "normal"))
            if op["k"] == "close" and op.get("with"):
                ctx.tag("with-block:" + ("exception" if op["with"] == "exc" else "normal"))
        for s in specs(c):
            ctx.tag("mode:" + s["mode"])
        for f in ("stream", "twin"):
            if c.get(f):
                ctx.tag("%s:%s" % (f, c[f]))
        nontriv = any(o["warn"] for o in im["outs"])
        ctx.case(c if len(c["ops"]) <= 60 else dict(c, ops=c["ops"][:60], win=c["win"][:80], truncated_for_evidence=True),
                 nontriv, sample_every=997)
        if mm:
            ctx.mismatch("c13.trace", mm, c)
        for key in sorted(set(k for _, k, _ in viol)):
            ctx.tag("oracle:" + key)
            if key in reported:
                continue
            reported.add(key)
            small = shrink(ctx, c, key)
            (mm2, viol2, im2), = eval_cases(ctx, [small])
            first = next(((i, cl) for i, k, cl in viol2 if k == key), None)
            detail = ""
            if first and first[0] < 0:
                detail = " | the view created for the allocation %r at %r is %r (%r)" % (
                    [ob["asked"] for ob in im2["objs"]], small["start"], [ob["root0"] for ob in im2["objs"]], first[1])
            elif first:
                st = next(t for ob in im2["objs"] for t in ob["steps"] if t["idx"] == first[0])
                detail = " | step %d: view [start,stop,offset,closed]=%r freed=%r op=%r -> %r, view after %r; failed clauses %r" % (
                    first[0], st["pre"], st["freed"], st["op"], st["out"], st["post"], first[1])
            if small["ops"] != c["ops"]:
                small = dict(small, history_before_shrinking=c["ops"])
            ctx.violation(key, WHAT.get(key, key) + detail, small)


# --------------------------------------------------------------------------
# generators
# --------------------------------------------------------------------------
BIG = [2 ** 31 - 1, 2 ** 31, 2 ** 32 - 1, 2 ** 32, 2 ** 53 + 1, 2 ** 63 - 1, 2 ** 63, 2 ** 64, 2 ** 100]
BIG_BASES = [2 ** 32 - 8, 2 ** 32, 2 ** 53 + 1, 2 ** 63 - 4, 2 ** 64 - 2, 2 ** 64, 2 ** 100]
_NUMPY = []


def have_numpy():
    if not _NUMPY:
        try:
            import numpy  # noqa: F401
            _NUMPY.append(True)
        except ImportError:
            _NUMPY.append(False)
    return _NUMPY[0]


def edge_int(rng, L):
    r = rng.random()
    if r < 0.5:
        return rng.choice([-L - 3, -L - 1, -L, -L + 1, -4, -2, -1, 0, 1, 2, L - 1, L, L + 1, L + 3, L + 4])
    return rng.randint(-L - 3, L + 4)


def big_int(rng, L):
    b = rng.choice(BIG)
    return rng.choice([b, -b, L + b, L - b, b + 1, -b - 1])


def palette(rng):
    """which kinds of integer arguments the calls of one case use"""
    r = rng.random()
    if r < 0.55:
        return {"nk": ["int"], "big": False}
    if r < 0.72:
        return {"nk": ["int"], "big": True}         # big integers (never mixed with fixed-width numpy ints)
    kinds = ["int", "bool", "enum"] + (["np", "np"] if have_numpy() else [])
    if r < 0.85:
        return {"nk": [rng.choice(kinds[1:])], "big": False}
    return {"nk": kinds, "big": False}


def new_state(L):
    """generator aid only: what the views of one owner look like under the specification"""
    return {"lens": [L], "depth": [0], "closed": [False], "freed": False, "dropped": set()}


def pick_view(rng, G):
    """a view the program still holds a reference to"""
    alive = [i for i in range(len(G["lens"])) if i not in G["dropped"]]
    return rng.choice(alive) if rng.random() < 0.7 else alive[-1]


def gen_spec(rng, pal, L=None):
    """one view owner: where it is, how it is created"""
    if L is None:
        r = rng.random()
        L = 0 if r < 0.1 else rng.randint(1, 12) if r < 0.85 else rng.randint(13, 40)
    start = rng.choice(BIG_BASES) if pal["big"] and rng.random() < 0.5 else rng.choice(BASES)
    if start < MARGIN and rng.random() < 0.5:
        start = rng.choice([MARGIN, 100, 1000])
    spec = {"x": rng.randrange(256), "y": rng.randrange(256), "margin": MARGIN, "start": start,
            "nk": rng.choice(pal["nk"])}
    if spec["nk"] == "bool":
        spec["x"], spec["y"] = rng.randrange(2), rng.randrange(2)
    m = rng.random()
    if m < 0.45:
        spec["mode"] = "direct"
        spec["stop"] = start + L
        if rng.random() < 0.08:
            spec["stop"] = start - rng.randint(1, 9)
            L = 0
        if rng.random() < 0.15:
            spec["kw"] = True
    elif m < 0.75:
        spec["mode"] = "alloc"
        spec["size"] = L
        spec["conv"] = rng.choice(["kwxy", "pos", "kw", "ctx"])
        if spec["conv"] != "kwxy":
            spec["tag"] = rng.choice([0, 1, 12, 255])
            spec["app_id"] = rng.choice([0, 30, 66, 255])
            spec["clear"] = rng.random() < 0.4
        if rng.random() < 0.08:
            spec["alloc_fault"] = 0
    else:
        spec["mode"] = "vertex"
        spec["s0"] = rng.choice([0, 4, 204, 2 ** 32]) if pal["big"] else rng.choice([0, 4, 204])
        spec["s1"] = spec["s0"] + L
        spec["vid"] = rng.choice(["object", "int", "str", "tuple", "namedtuple", "frozenset"])
        spec["core0"] = rng.randrange(18)
        n_others = rng.choice([0, 0, 1, 2, 3])
        spec["others"] = [{"vid": rng.choice(["object", "int", "str", "tuple", "namedtuple", "frozenset"]),
                           "x": rng.randrange(256), "y": rng.randrange(256), "core0": rng.randrange(16),
                           "sd": None if rng.random() < 0.3 else [0, rng.randint(0, 64)]} for _ in range(n_others)]
        spec["pos"] = rng.randint(0, n_others)
        if rng.random() < 0.5:
            spec["core_as_tag"] = rng.random() < 0.5
        spec["custom_res"] = rng.random() < 0.25
        spec["clear"] = rng.random() < 0.2
        spec["kw"] = rng.random() < 0.2
        if rng.random() < 0.08:
            n_alloc = 1 + sum(1 for o in spec["others"] if o["sd"] is not None)
            spec["alloc_fault"] = rng.randrange(n_alloc)
    spec["win"] = [rng.randrange(256) for _ in range(2 * MARGIN + L)]
    return spec, L


def gen_twin(rng, spec, L):
    """a second owner equal to the first in all but one aspect (own memory, so never the same bytes)"""
    t = {k: (list(v) if isinstance(v, list) else v) for k, v in spec.items() if k not in ("ops", "twins")}
    what = rng.choice(["chip-x", "chip-y", "chip-swapped", "base", "length", "content"])
    L2 = L
    if what == "chip-x":
        t["x"] = (spec["x"] + 1) % (2 if spec["nk"] == "bool" else 256)
    elif what == "chip-y":
        t["y"] = (spec["y"] + 1) % (2 if spec["nk"] == "bool" else 256)
    elif what == "chip-swapped" and spec["x"] != spec["y"]:
        t["x"], t["y"] = spec["y"], spec["x"]
    elif what == "length":
        L2 = L + 1
        t["start"] = spec["start"] + 0x1000
        for k, base in (("stop", t["start"]), ("size", 0), ("s1", t.get("s0", 0))):
            if k in t:
                t[k] = base + L2
        t["win"] = list(spec["win"]) + [rng.randrange(256)]
    else:
        t["start"] = spec["start"] + 0x1000
        if "stop" in t:
            t["stop"] = t["start"] + (spec["stop"] - spec["start"])
        if what == "content":
            t["win"] = [rng.randrange(256) for _ in spec["win"]]
        else:
            what = "base"
    if (t["x"], t["y"], t["start"]) == (spec["x"], spec["y"], spec["start"]):
        t["x"] = (spec["x"] + 1) % (2 if spec["nk"] == "bool" else 256)
        what = "chip-x"
    return t, L2, what


def gen_block(rng, G, o, pending):
    """with-blocks of a view (and, nested inside, of a slice of it, up to three levels), each left
    normally, by the caller's exception or by an exception of the view's own operation; then the
    views are used again (a closed view may also be re-entered).  First op returned, rest queued."""
    lens, depth, closed = G["lens"], G["depth"], G["closed"]
    v = pick_view(rng, G)
    seq, chain = [], []
    for level in range(rng.choice([1, 1, 2, 3])):
        seq.append({"k": "enter", "v": v})
        chain.append(v)
        for _ in range(rng.randint(0, 2)):
            seq.append(rng.choice([{"k": "read", "v": v, "n": rng.randint(0, 3)}, {"k": "tell", "v": v},
                                   {"k": "write", "v": v, "d": [rng.randrange(256)] * rng.randint(0, 3)},
                                   {"k": "seek", "v": v, "n": rng.randint(-1, lens[v] + 1), "w": 0}]))
        if level < 2 and depth[v] < 4:
            seq.append({"k": "slice", "v": v, "a": rng.choice([None, 0, 1]), "b": rng.choice([None, -1]), "s": None})
            if closed[v] or G["freed"]:
                break
            lo, hi, _ = slice(seq[-1]["a"], seq[-1]["b"]).indices(lens[v])
            lens.append(max(0, hi - lo))
            depth.append(depth[v] + 1)
            closed.append(False)
            v = len(lens) - 1
        else:
            break
    raised = False
    for v in reversed(chain):
        how = None
        if not raised:
            h = rng.random()
            if h < 0.3:
                raised, how = True, "boom"
            elif h < 0.6:
                # the view's own operation raises inside the block
                raised, how = True, "own"
                seq.append(rng.choice([
                    {"k": "read", "v": v, "n": lens[v] + 3, "werr": True},
                    {"k": "write", "v": v, "d": [1] * (lens[v] + 2), "werr": True},
                    {"k": "seek", "v": v, "n": 0, "w": 5},
                    {"k": "read", "v": v, "n": 2, "fault": 0, "exc": "timeout"}]))
        else:
            how = "boom" if rng.random() < 0.8 else None     # the exception travels outwards (or was handled)
            raised = how is not None
        seq.append({"k": "exit", "v": v, "raised": raised, "how": how} if raised else {"k": "exit", "v": v, "raised": False})
        if not G["freed"]:
            closed[v] = True
        # ... and the view is used after its block
        seq.append(rng.choice([{"k": "read", "v": v, "n": 1}, {"k": "tell", "v": v}, {"k": "write", "v": v, "d": [5]},
                               {"k": "seek", "v": v, "n": 0, "w": 0}, {"k": "flush", "v": v}, {"k": "address", "v": v},
                               {"k": "slice", "v": v, "a": None, "b": None, "s": None}, {"k": "enter", "v": v}]))
        if seq[-1]["k"] == "enter":
            seq += [{"k": "read", "v": v, "n": 1}, {"k": "exit", "v": v, "raised": False}]
    for p in seq:
        p["o"] = o
    pending += seq[1:]
    return seq[0]


def gen_op(rng, G, o, pal, pending, small_io=False):
    """one call on one view of owner `o` (generator state `G`); follow-ups go to `pending`"""
    lens, depth, closed = G["lens"], G["depth"], G["closed"]
    if rng.random() < 0.06 and not small_io:
        return gen_block(rng, G, o, pending)
    v = pick_view(rng, G)
    Lv = lens[v]
    big = pal["big"] and rng.random() < 0.3

    def num():
        return big_int(rng, Lv) if big else edge_int(rng, Lv)
    r = rng.random()
    if r < 0.24:
        w = rng.choice([0, 0, 0, 1, 1, 2, 2])
        if rng.random() < 0.04:
            w = rng.choice([3, -1, 7] + ([2 ** 64] if pal["big"] else []))
        op = {"k": "seek", "v": v, "n": num(), "w": w}
        if w == 0 and rng.random() < 0.5:
            op["short"] = True
        if rng.random() < 0.12:
            op["kw"] = rng.choice([True, "mixed"])
    elif r < 0.44:
        if rng.random() < 0.3 and not small_io:
            op = {"k": "read", "v": v, "n": -1, "dflt": True}
        elif small_io:
            op = {"k": "read", "v": v, "n": rng.randint(0, 40)}
        else:
            op = {"k": "read", "v": v, "n": abs(big_int(rng, Lv)) if big else rng.choice(
                [0, 1, 2, 3, Lv, Lv + 1, 2 * Lv + 1, -1, -5, rng.randint(0, Lv + 4)])}
            if rng.random() < 0.12:
                op["kw"] = True
    elif r < 0.64:
        n = rng.choice([0, 1, 2, 3, min(Lv, 40), min(Lv, 40) + 1, min(2 * Lv, 80), rng.randint(0, min(Lv, 40) + 4)])
        op = {"k": "write", "v": v, "d": [rng.randrange(256) for _ in range(n)]}
        k = rng.random()
        if k < 0.25:
            op["dk"] = "bytearray"
            op["edit"] = rng.random() < 0.6
        elif k < 0.4:
            op["dk"] = "memoryview"
        if rng.random() < 0.12:
            op["kw"] = True
        big = False
    elif r < 0.78 and depth[v] < 4:
        a = None if rng.random() < 0.25 else num()
        b = None if rng.random() < 0.25 else num()
        s = rng.choice([None, None, None, 1, 1, 2, -1, 0] + ([2 ** 64] if pal["big"] else []))
        op = {"k": "slice", "v": v, "a": a, "b": b, "s": s}
        if s in (None, 1) and not closed[v] and not G["freed"]:
            lo, hi, _ = slice(a, b).indices(Lv)
            lens.append(max(0, hi - lo))
            depth.append(depth[v] + 1)
            closed.append(False)
    elif r < 0.80:
        op = {"k": "index", "v": v, "tuple": rng.random() < 0.5}
        big = False
    elif r < 0.85:
        op = {"k": "tell", "v": v}
        big = False
    elif r < 0.88:
        op = {"k": "address", "v": v}
        big = False
    elif r < 0.91:
        op = {"k": "len", "v": v}
        big = False
    elif r < 0.93:
        op = {"k": "flush", "v": v}
        big = False
    elif r < 0.97:
        op = {"k": "close", "v": v, "with": rng.choice([False, False, True, "exc"])}
        if not G["freed"]:
            closed[v] = True
        big = False
    else:
        op = {"k": "free", "v": v if rng.random() < 0.3 or 0 in G["dropped"] else 0}
        big = False
        if op["v"] == 0 and rng.random() < 0.25:
            # the controller's sdram_free fails: nothing is freed, the views stay usable, free() again
            op["fault"], op["exc"] = 0, rng.choice(["timeout", "fatal"])
            pending += [{"k": "tell", "v": 0, "o": o}, {"k": "read", "v": 0, "n": 2, "o": o}, {"k": "free", "v": 0, "o": o}]
        if op["v"] == 0:
            G["freed"] = True           # (after the follow-ups, if any)
    if big:
        op["big"] = True
    if op["k"] in ("seek", "read", "slice"):
        nk = rng.choice(pal["nk"])
        if nk != "int":
            op["nk"] = nk
    if op["k"] in ("read", "write") and rng.random() < 0.05:
        op["werr"] = True       # the caller has turned TruncationWarning into an exception
    if op["k"] in ("read", "write") and rng.random() < 0.15:
        # fault injection: the controller raises during this call (if a transfer is made); a
        # failing write has stored `fault` bytes of what it was handed
        retry = dict(op)
        op["fault"] = rng.choice([0, 0, 1, 2, 3, Lv, 100]) if op["k"] == "write" else 0
        op["exc"] = rng.choice(["timeout", "timeout", "fatal"])
        f = rng.random()
        if f < 0.35:
            pending += [{"k": "tell", "v": v}, retry]
        elif f < 0.55:
            pending += [{"k": "seek", "v": v, "n": rng.choice([-1, 0, 1, 2]), "w": 1}, retry, {"k": "tell", "v": v}]
        elif f < 0.7 and not small_io:
            pending += [retry, {"k": "seek", "v": v, "n": 0, "w": 0, "short": True},
                        {"k": "read", "v": v, "n": -1, "dflt": True}]
        elif f < 0.8:
            pending += [{"k": "slice", "v": v, "a": None, "b": None, "s": None}, {"k": "close", "v": v}]
            if not closed[v] and not G["freed"]:
                lens.append(Lv)
                depth.append(depth[v] + 1)
                closed.append(False)
            if not G["freed"]:
                closed[v] = True
    op["o"] = o
    for p in pending:
        p.setdefault("o", o)
    return op


def gen_ops(rng, owners, target, pal, mirrored=False, small_io=False, lifetime=False):
    ops, pending = [], []
    while len(ops) < target or pending:
        if pending:
            ops.append(pending.pop(0))
            continue
        if lifetime and rng.random() < 0.12:
            # OBJECT LIFETIME: the program forgets a view (the owner itself, or an intermediate slice);
            # the views made from it stay in use
            o = rng.randrange(len(owners))
            G = owners[o]
            alive = [i for i in range(len(G["lens"])) if i not in G["dropped"]]
            if len(alive) >= 2:
                i = 0 if 0 in alive and rng.random() < 0.5 else rng.choice(alive)
                G["dropped"].add(i)
                ops.append({"k": "drop", "v": i, "o": o})
                continue
        if mirrored:
            # twins do the same thing, in either order
            op = gen_op(rng, owners[0], 0, pal, pending, small_io)
            pair = [op, dict(op, o=1)]
            if rng.random() < 0.5:
                pair.reverse()
            follow = list(pending)
            del pending[:]
            ops += pair
            for p in follow:
                ops += [p, dict(p, o=1)]
        else:
            o = rng.randrange(len(owners))
            ops.append(gen_op(rng, owners[o], o, pal, pending, small_io))
        if rng.random() < 0.05 and ops[-1]["k"] != "slice":
            ops.append(dict(ops[-1]))           # the same call repeated
    if len(owners) == 1:
        for op in ops:
            op.pop("o", None)
    return ops


def gen_case(rng):
    pal = palette(rng)
    case, L = gen_spec(rng, pal)
    owners = [new_state(L)]
    mirrored = False
    if rng.random() < 0.08:
        # a session: two owners (equal in all but one aspect) on one controller, used alternately,
        # starting from a freshly loaded module
        twin, L2, what = gen_twin(rng, case, L)
        case["twins"], case["twin"], case["reload"] = [twin], what, True
        owners.append(new_state(L2))
        mirrored = rng.random() < 0.4
    first = []
    lifetime = not mirrored and rng.random() < 0.12
    if lifetime:
        case["stream"] = "lifetime"
        if rng.random() < 0.5:
            # a helper creates the allocation's view and hands back only slices of it
            case["stream"] = "lifetime:helper-returns-slices"
            G = owners[0]
            for _ in range(rng.randint(1, 3)):
                a = None if rng.random() < 0.3 else rng.randint(0, L)
                b = None if rng.random() < 0.3 else rng.choice([rng.randint(0, L), -rng.randint(1, 3)])
                first.append({"k": "slice", "v": 0, "a": a, "b": b, "s": None})
                lo, hi, _ = slice(a, b).indices(L)
                G["lens"].append(max(0, hi - lo))
                G["depth"].append(1)
                G["closed"].append(False)
            first.append({"k": "drop", "v": 0})
            G["dropped"].add(0)
            if len(owners) > 1:
                for op in first:
                    op["o"] = 0
    case["ops"] = first + gen_ops(rng, owners, rng.randint(1, 14), pal, mirrored, lifetime=lifetime)
    return case


def long_case(rng):
    """LONG TRANSFERS: views of hundreds to thousands of bytes at unaligned bases with lengths that are
    not multiples of 4; reads and writes of more than 256 bytes, unaligned in address and in length,
    directly and through unaligned slices"""
    plain = {"nk": ["int"], "big": False}
    L = rng.choice([rng.randint(257, 700), rng.randint(257, 700), rng.randint(700, 2100), 1001, 1024, 1027, 2051,
                    4097, rng.randint(2100, 6000)])
    c, _ = gen_spec(rng, plain, L=L)
    c.pop("alloc_fault", None)
    G = new_state(L)
    lens = G["lens"]
    ops = []
    for _ in range(rng.randint(3, 8)):
        v = rng.randrange(len(lens))
        Lv = lens[v]
        r = rng.random()
        if r < 0.25:
            ops.append({"k": "seek", "v": v, "n": rng.choice([0, 1, 2, 3, 5, 7, rng.randint(0, max(0, Lv - 257)), Lv - 300]),
                        "w": 0})
        elif r < 0.55:
            if rng.random() < 0.5:
                op = {"k": "read", "v": v, "n": -1, "dflt": True}
            else:
                op = {"k": "read", "v": v, "n": rng.choice([257, 258, 259, 260, 300, 511, 513, 1000, Lv, Lv + 5,
                                                            rng.randint(257, max(258, Lv))])}
            if rng.random() < 0.1:
                op["fault"], op["exc"] = 0, "timeout"
            ops.append(op)
            if "fault" in op:
                ops += [{"k": "tell", "v": v}, {k: x for k, x in op.items() if k not in ("fault", "exc")}]
        elif r < 0.8:
            n = rng.choice([257, 259, 300, 513, 1001, rng.randint(257, max(258, min(Lv + 9, 3000)))])
            op = {"k": "write", "v": v, "d": [rng.randrange(256) for _ in range(n)]}
            if rng.random() < 0.1:
                op["fault"], op["exc"] = rng.choice([0, 5, 256, 257, n]), "timeout"
            ops.append(op)
        elif len(lens) < 4:
            a = rng.choice([None, 1, 2, 3, 5, 6, 7, rng.randint(0, Lv)])
            b = rng.choice([None, None, -1, -2, -3, rng.randint(0, Lv), Lv - 5])
            ops.append({"k": "slice", "v": v, "a": a, "b": b, "s": None})
            lo, hi, _ = slice(a, b).indices(Lv)
            lens.append(max(0, hi - lo))
        else:
            ops.append({"k": "tell", "v": v})
    c["ops"] = ops
    c["stream"] = "long-transfers"
    return c


def scale_cases(rng, quick):
    """a handful of cases far beyond the usual size"""
    plain = {"nk": ["int"], "big": False}
    mult = 1 if quick else 4
    out = []
    for _ in range(mult):
        # (a) a long history on one small view
        c, L = gen_spec(rng, plain, L=12)
        c["ops"] = gen_ops(rng, [new_state(L)], 3000, plain)
        c["stream"] = "scale:history-3000"
        out.append(c)
        # (c) hundreds of sibling slices of one view, then I/O through some of them
        c, L = gen_spec(rng, plain, L=40)
        n = 300 if quick else 1200
        ops = []
        for i in range(n):
            ops.append({"k": "slice", "v": 0, "a": rng.randint(-45, 45), "b": rng.randint(-45, 45), "s": None})
        for i in range(60):
            v = rng.randint(1, n)
            ops += [{"k": "seek", "v": v, "n": rng.randint(-2, 8), "w": 0},
                    {"k": "write", "v": v, "d": [i % 256] * rng.randint(0, 9)},
                    {"k": "seek", "v": v, "n": 0, "w": 0}, {"k": "read", "v": v, "n": -1, "dflt": True}]
        ops += [{"k": "free", "v": 0}] + [{"k": "read", "v": rng.randint(0, n), "n": 1} for _ in range(20)]
        c["ops"] = ops
        c["stream"] = "scale:siblings-%d" % n
        out.append(c)
    for depth in ([1100] if quick else [1100, 1500]):
        # (b) a chain of nested slices more than 1000 deep
        c, L = gen_spec(rng, plain, L=depth + 100)
        ops = []
        for i in range(depth):
            ops.append({"k": "slice", "v": i, "a": rng.choice([1, 1, 0, None]), "b": rng.choice([None, None, -0 or None]), "s": None})
            if i % 97 == 96:
                ops += [{"k": "seek", "v": i + 1, "n": rng.randint(-1, 3), "w": 0},
                        {"k": "write", "v": i + 1, "d": [i % 256, 1, 2]}, {"k": "tell", "v": i + 1}]
        ops += [{"k": "seek", "v": depth, "n": -2, "w": 2}, {"k": "read", "v": depth, "n": -1, "dflt": True},
                {"k": "close", "v": depth // 2}, {"k": "slice", "v": depth // 2, "a": None, "b": None, "s": None},
                {"k": "read", "v": depth, "n": 3}]
        c["ops"] = ops
        c["stream"] = "scale:depth-%d" % depth
        out.append(c)
    for L in ([65537, 70000] * mult):
        # (d) views longer than anything counted in 16 bits (transfers at the edges stay small)
        c, _ = gen_spec(rng, plain, L=L)
        c["ops"] = [{"k": "seek", "v": 0, "n": L - 3, "w": 0}, {"k": "read", "v": 0, "n": -1, "dflt": True},
                    {"k": "seek", "v": 0, "n": -5, "w": 1}, {"k": "write", "v": 0, "d": list(range(9))},
                    {"k": "slice", "v": 0, "a": -6, "b": None, "s": None}, {"k": "read", "v": 1, "n": 100},
                    {"k": "slice", "v": 0, "a": 65535, "b": 65539, "s": None}, {"k": "write", "v": 2, "d": [1, 2, 3, 4, 5, 6]},
                    {"k": "len", "v": 2}, {"k": "seek", "v": 0, "n": 65534, "w": 0}, {"k": "read", "v": 0, "n": 4}]
        c["stream"] = "scale:length-%d" % L
        out.append(c)
    bigp = {"nk": ["int"], "big": True}
    for L in ([2 ** 32 + 5, 2 ** 64, 2 ** 100] * mult):
        # (e) views longer than 2^32 / 2^64 bytes: positions, bounds and addresses are unbounded integers;
        # memory is sparse and the whole-view content oracle is skipped (the model comparison judges)
        c, _ = gen_spec(rng, bigp, L=40)
        c = {k: v for k, v in c.items() if k not in ("stop", "size", "s0", "s1", "others", "alloc_fault")}
        c["mode"], c["stop"], c["nooracle"] = "direct", c["start"] + L, True
        G = new_state(L)
        ops = [{"k": "seek", "v": 0, "n": L - 3, "w": 0}, {"k": "read", "v": 0, "n": 9},
               {"k": "seek", "v": 0, "n": L - 2, "w": 0}, {"k": "write", "v": 0, "d": [7, 7, 7, 7, 7]},
               {"k": "seek", "v": 0, "n": 2 ** 31, "w": 0}, {"k": "write", "v": 0, "d": [1, 2, 3]},
               {"k": "seek", "v": 0, "n": -3, "w": 1}, {"k": "read", "v": 0, "n": 3}]
        ops += gen_ops(rng, [G], 30, bigp, small_io=True)
        if L >= 2 ** 63:
            # CPython's len() cannot return more than sys.maxsize (OverflowError for any __len__): not a
            # statement about the views, so len() is not called on views that long
            ops = [dict(op, k="tell") if op["k"] == "len" else op for op in ops]
        c["ops"] = ops
        c["stream"] = "scale:length-2^%d" % (L.bit_length() - 1)
        out.append(c)
    return out


EXH_ALPHABET = [
    {"k": "seek", "n": -1, "w": 0}, {"k": "seek", "n": 2, "w": 0}, {"k": "seek", "n": 4, "w": 0},
    {"k": "seek", "n": -2, "w": 1}, {"k": "seek", "n": 1, "w": 1},
    {"k": "seek", "n": 0, "w": 2}, {"k": "seek", "n": -1, "w": 2}, {"k": "seek", "n": 1, "w": 2},
    {"k": "read", "n": -1, "dflt": True}, {"k": "read", "n": 2},
    {"k": "write", "d": [171]}, {"k": "write", "d": [1, 2, 3, 4]},
    {"k": "read", "n": 2, "fault": 0}, {"k": "write", "d": [7, 8], "fault": 1},
    {"k": "slice", "a": 1, "b": None, "s": None}, {"k": "slice", "a": -2, "b": -1, "s": None},
    {"k": "close"}, {"k": "close", "with": "exc"}, {"k": "free"}, {"k": "free", "fault": 0},
]


def exhaustive_cases(maxlen):
    """every sequence of <= maxlen alphabet ops on a length-3 view; an op acts on
    the most recently created view (free: on the owner)"""
    for n in range(1, maxlen + 1):
        for seq in itertools.product(range(len(EXH_ALPHABET)), repeat=n):
            ops, nv, closed, freed = [], 1, False, False
            for a in seq:
                op = dict(EXH_ALPHABET[a])
                op["v"] = 0 if op["k"] == "free" else nv - 1
                if op["k"] == "slice" and not closed and not freed:
                    nv += 1          # (slicing a closed view / freed allocation creates nothing)
                    closed = False
                elif op["k"] == "close" and not freed:
                    closed = True
                elif op["k"] == "free" and op.get("fault") is None:
                    freed = True
                ops.append(op)
            yield {"x": 3, "y": 5, "margin": 8, "mode": "direct", "start": 0x60000000, "stop": 0x60000003,
                   "win": list(range(10, 10 + 19)), "ops": ops}


def corpus_cases():
    """the probed defects of DESIGN 4 (F7, F8) and edge histories, always run first"""
    base = {"x": 1, "y": 2, "margin": MARGIN, "mode": "direct", "start": 1000, "stop": 1010,
            "win": list(range(1, 43))}
    hs = [
        [{"k": "seek", "v": 0, "n": -4, "w": 0}, {"k": "read", "v": 0, "n": 2}],
        [{"k": "seek", "v": 0, "n": -4, "w": 0}, {"k": "write", "v": 0, "d": [97, 98, 99, 100]}],
        [{"k": "seek", "v": 0, "n": -4, "w": 0}, {"k": "read", "v": 0, "n": -1, "dflt": True}],
        [{"k": "seek", "v": 0, "n": 13, "w": 0}, {"k": "write", "v": 0, "d": [1, 2, 3, 4, 5, 6, 7, 8]}],
        [{"k": "seek", "v": 0, "n": -1, "w": 2}, {"k": "tell", "v": 0}],
        [{"k": "slice", "v": 0, "a": 2, "b": 5, "s": None}, {"k": "seek", "v": 1, "n": -2, "w": 1},
         {"k": "write", "v": 1, "d": [9, 9, 9, 9, 9, 9]}, {"k": "seek", "v": 1, "n": 4, "w": 0},
         {"k": "write", "v": 1, "d": [7, 7, 7]}],
        [{"k": "write", "v": 0, "d": [5] * 12}, {"k": "seek", "v": 0, "n": 0, "w": 0, "short": True},
         {"k": "read", "v": 0, "n": 100}, {"k": "close", "v": 0}, {"k": "read", "v": 0, "n": 1}],
        [{"k": "slice", "v": 0, "a": -3, "b": None, "s": 1}, {"k": "free", "v": 0}, {"k": "read", "v": 1, "n": 1},
         {"k": "close", "v": 1}, {"k": "free", "v": 0}, {"k": "free", "v": 1}],
    ]
    cases = [dict(base, ops=h) for h in hs]
    import glob
    import json
    import os
    d = os.path.join(os.path.dirname(os.path.dirname(os.path.abspath(__file__))), "corpus", "C13")
    for f in sorted(glob.glob(os.path.join(d, "*.json"))):
        cases.append(json.load(open(f))["case"])
    return cases


def run(ctx):
    ctx.extra["rule"] = RULE
    ctx.assumptions += [
        "dropping the program's references to a view (incl. the owner) has no effect on the views made from it: "
        "the model has no such operation, `drop` steps are harness actions only",
        "a failed transfer is the controller's read/write raising SCPError (TimeoutError, FatalReturnCodeError) "
        "after storing a prefix (possibly empty, possibly all) of a write; the view lets it propagate",
        "the controller's read returns exactly the requested number of bytes and write stores exactly the given bytes (C07)",
        "'every operation fails' after close/free is claimed for read, write, seek, tell, flush, address and "
        "slicing; __len__ and a repeated close() are not among the property's operations (no memory access, not "
        "guarded by the code)",
        "a view's position may be any integer (seek does not clip, as the repository's tests require); bytes are "
        "transferred only between positions 0 and len",
    ]
    process(ctx, corpus_cases())
    n = ctx.scale(3000, 100000)
    if ctx.extended:
        n *= 4
    rng = ctx.rng
    chunk = 2000
    for i in range(0, n, chunk):
        process(ctx, [gen_case(rng) for _ in range(min(chunk, n - i))])
    for c in scale_cases(rng, ctx.quick):
        process(ctx, [c])
    n_long = ctx.scale(200, 3000) * (4 if ctx.extended else 1)
    for i in range(0, n_long, 200):
        process(ctx, [long_case(rng) for _ in range(min(200, n_long - i))])
    maxlen = ctx.scale(2, 4)
    if ctx.extended and ctx.quick:
        maxlen = 3
    buf = []
    for c in exhaustive_cases(maxlen):
        buf.append(c)
        if len(buf) >= 4000:
            process(ctx, buf)
            buf = []
    if buf:
        process(ctx, buf)
    ctx.extra["exhaustive_scope"] = "all sequences of <= %d ops from a %d-op alphabet on a length-3 view" % (
        maxlen, len(EXH_ALPHABET))


def replay(ctx, payload):
    ctx.extra["rule"] = RULE
    process(ctx, [payload["case"]])
THEOREMS += ['gen_init', 'gen_len', 'gen_address', 'gen_tell', 'gen_bytes_available', 'gen_seek', 'gen_getitem', 'gen_slice']   # translator tie: generated function bodies = model (Props/C13Gen.lean)
THEOREMS += ['gen_read', 'gen_write', 'pySlice_prefix']   # translator tie, third round (Props/C13Gen.lean)
