"""C13 - file-like memory views (MemoryIO / SlicedMemoryIO): correspondence of
rig/machine_control/machine_controller.py with the Lean model
RigModel/Model/C13.lean on operation histories, and the Lean bounded-file /
confinement specification (`checkObs`) evaluated on every observed call of the
implementation (the property oracle).

The implementation runs against a recording controller: a subclass of the real
MachineController whose read / write / sdram_free / sdram_alloc are replaced by
recorders serving bytes from a bytearray (no network).  Views are created in
three ways: MemoryIO(...) directly, MachineController.sdram_alloc_as_filelike,
and utils.sdram_alloc_for_vertices.
"""
import itertools
import warnings

CLAIM = dict(
    text=("Machine-checked proof (Lean 4) over ALL operation histories (seek/read/write/slice/tell/len/close/free on a "
          "view and on views sliced from it to any depth, any base address and length incl. zero): every controller "
          "access lies inside the issuing view's range, inside the allocation, on the allocation's chip and is "
          "non-empty (confinement); every read/write/seek/tell refines a fixed-length file with a position "
          "(bytes returned, truncation at the end with a warning, position advances by the bytes transferred, "
          "memory outside the view untouched), call by call and for whole histories on a view, INCLUDING calls whose "
          "transfer fails (the controller's read/write raises SCPError: the error propagates, the position does not "
          "move, a failed read delivers nothing, a failed write leaves exactly the bytes the machine stored); a slice covers exactly the sub-range Python's slice.indices names; "
          "after close or free every I/O operation and every slicing raises OSError and no access is ever issued again. Tied to the "
          "code by exact correspondence of whole histories against a recording controller, with the Lean "
          "specification evaluated on every observed call of the implementation."),
    design="3/C13",
    note=("read/write are modelled WITH fixes/c13-memoryio-confinement.diff (the unchanged code reads/writes below the "
          "start after a negative seek and writes past the end after a seek beyond the end; kept as decide "
          "witnesses). seek(n, 2) moves to len-n instead of len+n: known finding seek-from-end-sign (pinned by the "
          "repository's test_seek_from_end). __getitem__ is modelled WITH fixes/c13-getitem-closed.diff "
          "(@_if_not_closed): without it slicing a closed view returns a fresh open view (finding dead-view-sliced, "
          "kept as a decide witness). 'every operation fails' after close/free is claimed and proved for read, "
          "write, seek, tell, flush, address and slicing; __len__ and a repeated close() are not in the property's "
          "list of operations (they touch no memory, the code does not guard them) and are left as they are."),
    technique="Lean 4 theorems over a hand-written model + differential correspondence + Lean spec as oracle")

THEOREMS = ["step_confined", "step_WF", "run_confined", "run_confined_alloc", "slice_exact", "slice_within_parent",
            "step_refines_file", "run_refines_file", "failed_read_moves_nothing", "failed_write_moves_nothing",
            "early_offset_update_breaks_failed_read", "read_back", "close_closes", "dead_after_close", "free_frees",
            "no_access_after_free", "orig_read_escapes_below", "orig_write_escapes_above", "fix_conservative",
            "orig_slice_of_closed_view_is_open", "getitem_fix_conservative",
            "seek_end_sign"]

RULE = ("histories of 1-14 calls (seek with all three origins and offsets from -len-3 to len+4 biased to the edges, "
        "bad origin; read default / explicit counts incl. 0, negative and beyond the end; writes of 0-2*len bytes; "
        "slices with None/negative/reversed/out-of-range bounds and steps None/1/other, nested to depth 4; "
        "non-slice keys; tell/address/len/flush; close (plain or with-block) and free at any point; FAULT INJECTION: "
        "about 15% of the reads/writes run while the recording controller's read/write raises rig's TimeoutError / "
        "FatalReturnCodeError (a failing write first stores 0..all of the bytes it was handed), followed by tell + "
        "retry, relative seek + retry, read-back, or slice + close, and then the rest of the history) on views of "
        "length 0-12 (sometimes up to 40, sometimes end < start) at bases 0, 1 and SDRAM addresses, created "
        "directly, by sdram_alloc_as_filelike and by sdram_alloc_for_vertices; a history is non-trivial when at "
        "least one read or write was truncated; distinct = distinct canonical JSON of the history")

MARGIN = 16
BASES = [0, 1, 7, 0x60000000, 0x60000004, 0x61000003, 0x7ffffff0]

# priority of the clause names returned by the Lean oracle -> finding key
PRIORITY = [("confinement", "confinement"), ("confinement-memory", "confinement"),
            ("dead", "dead-view-operates"), ("dead-sliced", "dead-view-sliced"), ("slice-range", "slice-range"), ("slice-effect", "slice-range"),
            ("seek-from-end-sign", "seek-from-end-sign"),
            ("file-transfer", "bounded-file"), ("file-result", "bounded-file"), ("file-warning", "bounded-file"),
            ("file-position", "bounded-file"), ("file-content", "bounded-file")]

WHAT = {
    "confinement": "a view issued a controller access outside its own range (or changed memory outside it)",
    "dead-view-operates": "an operation on a closed view / freed allocation did not fail with OSError",
    "dead-view-sliced": "slicing a closed view / a view of a freed allocation did not fail (it returned a fresh open view)",
    "slice-range": "a slice does not cover exactly the clipped sub-range it names",
    "seek-from-end-sign": "seek(n, 2) moves to len-n; the documented (file) semantics is len+n",
    "failed-transfer": "a read/write whose transfer failed (the controller raised) did not leave the view as "
                       "a failed file operation does: position unmoved, nothing delivered, the error raised",
    "bounded-file": "a call does not behave like the same call on a fixed-length file",
}


# --------------------------------------------------------------------------
# the implementation against a recording controller
# --------------------------------------------------------------------------
_FAKE = {}


def fake_class():
    """Recording MachineController (built lazily so that import failures of rig
    are attributed to the implementation)."""
    if "cls" in _FAKE:
        return _FAKE["cls"]
    from rig.machine_control.machine_controller import MachineController
    from rig.utils.contexts import ContextMixin

    class Recorder(MachineController):
        def __init__(self, base, win, alloc_base):
            ContextMixin.__init__(self, {"app_id": 66, "x": None, "y": None})
            self.base, self.mem, self.alloc_base = base, bytearray(win), alloc_base
            self.log = []
            self.fault = None       # armed by the harness for one call: (bytes to store first, exception kind)

        def _raise(self, kind):
            from rig.machine_control import scp_connection
            if kind == "fatal":
                raise scp_connection.FatalReturnCodeError(0x86)
            raise scp_connection.TimeoutError("no response from chip (injected fault)")

        def sdram_alloc(self, size, tag=0, x=None, y=None, app_id=None, clear=False):
            self.alloc = (size, tag, x, y, clear)
            return self.alloc_base

        def read(self, address, length_bytes, x=None, y=None, p=0):
            self.log.append(["r", address, length_bytes, x, y, p])
            if self.fault is not None:
                # the transfer fails (SCP timeout / fatal return code): nothing is delivered
                fault, self.fault = self.fault, None
                self._raise(fault[1])
            out = bytearray()
            for a in range(address, address + max(0, length_bytes)):
                i = a - self.base
                out.append(self.mem[i] if 0 <= i < len(self.mem) else 0)
            return bytes(out)

        def write(self, address, data, x=None, y=None, p=0):
            data = bytes(data)
            self.log.append(["w", address, list(data), x, y, p])
            fault, self.fault = self.fault, None
            if fault is not None:
                # the transfer fails after the machine stored the first fault[0] bytes
                data = data[:fault[0]]
            for k, b in enumerate(data):
                i = address + k - self.base
                if 0 <= i < len(self.mem):
                    self.mem[i] = b
            if fault is not None:
                self._raise(fault[1])

        def sdram_free(self, ptr, x=None, y=None):
            self.log.append(["f", ptr, x, y])

    _FAKE["cls"] = Recorder
    return Recorder


def root_range(case):
    """(start, stop as handed to the constructor)"""
    if case["mode"] == "direct":
        return case["start"], case["stop"]
    if case["mode"] == "alloc":
        return case["start"], case["start"] + case["size"]
    return case["start"], case["start"] + case["s1"] - case["s0"]


def make_root(case, mc):
    from rig.machine_control.machine_controller import MemoryIO
    x, y = case["x"], case["y"]
    if case["mode"] == "direct":
        return MemoryIO(mc, x, y, case["start"], case["stop"])
    if case["mode"] == "alloc":
        return mc.sdram_alloc_as_filelike(case["size"], x=x, y=y)
    from rig.machine_control.utils import sdram_alloc_for_vertices
    from rig.place_and_route import Cores, SDRAM
    v = object()
    d = sdram_alloc_for_vertices(mc, {v: (x, y)}, {v: {Cores: slice(1, 2), SDRAM: slice(case["s0"], case["s1"])}})
    return d[v]


def snap(v):
    return [v._start_address, v._end_address, v._offset, bool(v.closed)]


def canon_ret(r, views):
    if r is None:
        return None
    if isinstance(r, bool):
        return {"err": "bool"}
    if isinstance(r, int):
        return int(r)
    if isinstance(r, (bytes, bytearray)):
        return {"b": list(r)}
    return {"err": "type:" + type(r).__name__}


def call(view, op):
    k = op["k"]
    if k == "seek":
        if op["w"] == 0 and op.get("short"):
            return view.seek(op["n"])
        return view.seek(op["n"], op["w"])
    if k == "read":
        if op.get("dflt"):
            return view.read()
        return view.read(op["n"])
    if k == "write":
        return view.write(bytes(op["d"]))
    if k == "slice":
        return view[slice(op["a"], op["b"], op["s"])]
    if k == "index":
        return view[(slice(0, 1), slice(1, 2))] if op.get("tuple") else view[0]
    if k == "tell":
        return view.tell()
    if k == "address":
        return view.address
    if k == "len":
        return len(view)
    if k == "flush":
        return view.flush()
    if k == "close":
        if op.get("with"):
            with view:
                pass
            return None
        return view.close()
    if k == "free":
        return view.free()
    raise ValueError(k)


def run_impl(case):
    """Run the history on the real code; returns dict(outs, steps, views, freed, win)."""
    from rig.machine_control.machine_controller import SlicedMemoryIO, TruncationWarning
    from rig.machine_control.scp_connection import SCPError
    start, _ = root_range(case)
    base = start - case["margin"]
    mc = fake_class()(base, case["win"], start)
    root = make_root(case, mc)
    views = [root]
    root0 = snap(root)
    outs, steps = [], []
    for k, op in enumerate(case["ops"]):
        if not 0 <= op["v"] < len(views):
            # the history refers to a view this implementation never created (an earlier slicing
            # behaved differently from what the generator assumed): same result as the model's
            # `noSuchView`, nothing is called, the oracle skips the step
            outs.append({"ret": {"err": "noSuchView"}, "warn": False, "acc": None})
            continue
        v = views[op["v"]]
        pre, freed = snap(v), bool(root._freed)
        del mc.log[:]
        nv = None
        # fault injection: the controller's read / write raises during this call (if it is reached)
        mc.fault = (op["fault"], op.get("exc", "timeout")) if op.get("fault") is not None else None
        with warnings.catch_warnings(record=True) as wl:
            warnings.simplefilter("always")
            try:
                r = call(v, op)
                if isinstance(r, SlicedMemoryIO):
                    views.append(r)
                    nv = snap(r)
                    ret = {"view": len(views) - 1}
                else:
                    ret = canon_ret(r, views)
            except SCPError:
                ret = {"err": "TransferError"}      # the controller's documented transfer errors
            except (OSError, ValueError, AttributeError) as e:
                ret = {"err": type(e).__name__}
            except Exception as e:  # any other exception is an observation, not a harness fault
                ret = {"err": "Other:" + type(e).__name__}
        mc.fault = None
        warn = any(issubclass(w.category, TruncationWarning) for w in wl)
        out = {"ret": ret, "warn": warn, "acc": mc.log[0] if mc.log else None}
        if len(mc.log) > 1:
            out["extra_acc"] = [list(a) for a in mc.log[1:]]
        outs.append(out)
        steps.append({"idx": k, "root": op["v"] == 0, "pre": pre, "freed": freed, "op": op, "out": out,
                      "post": snap(v), "pfreed": bool(root._freed), "nv": nv, "win": list(mc.mem)})
    return {"outs": outs, "steps": steps, "views": [snap(v) for v in views], "root0": root0,
            "freed": bool(root._freed), "win": list(mc.mem), "alloc": getattr(mc, "alloc", None)}


# --------------------------------------------------------------------------
# evaluation: model correspondence + Lean oracle
# --------------------------------------------------------------------------
def lean_reqs(case, impl):
    start, _ = root_range(case)
    base = start - case["margin"]
    tr = {"suite": "c13", "op": "trace", "x": case["x"], "y": case["y"], "base": base, "win": case["win"],
          "mode": case["mode"], "start": case["start"], "ops": case["ops"]}
    for k in ("stop", "size", "s0", "s1"):
        if k in case:
            tr[k] = case[k]
    ck = {"suite": "c13", "op": "check", "x": case["x"], "y": case["y"], "base": base, "win": case["win"],
          "steps": [dict(s, out={k: s["out"][k] for k in ("ret", "warn", "acc")}) for s in impl["steps"]]}
    # memory before a step = memory after the previous executed step (skipped steps touch nothing)
    if impl["alloc"] is not None:
        # the view must span exactly what was allocated: sdram_alloc(size) returned `start`
        ck["alloc"] = [start, impl["alloc"][0]]
        ck["root"] = impl["root0"]
    return [tr, ck]


def key_of(fails):
    for clause, key in PRIORITY:
        if clause in fails:
            return key
    return "bounded-file"


def judge(case, impl, model, check):
    """-> (mismatch detail or None, [(step index, key, clauses)])"""
    mm = None
    if "proto_error" in model:
        mm = "model: " + model["proto_error"]
    else:
        m_outs = model["outs"]
        i_outs = [{k: o[k] for k in ("ret", "warn", "acc")} for o in impl["outs"]]
        if m_outs != i_outs:
            k = next((i for i, (a, b) in enumerate(zip(m_outs, i_outs)) if a != b), min(len(m_outs), len(i_outs)))
            mm = "step %d (%s): impl=%r model=%r" % (k, case["ops"][k]["k"] if k < len(case["ops"]) else "?",
                                                    i_outs[k] if k < len(i_outs) else None,
                                                    m_outs[k] if k < len(m_outs) else None)
        elif model["views"] != impl["views"]:
            mm = "final views differ: impl=%r model=%r" % (impl["views"], model["views"])
        elif model["freed"] != impl["freed"]:
            mm = "freed flag differs"
        elif model["win"] != impl["win"]:
            mm = "final memory differs: impl=%r model=%r" % (impl["win"], model["win"])
        if mm is None and any("extra_acc" in o for o in impl["outs"]):
            mm = "more than one controller access in one call"
    viol = []
    if "proto_error" in check:
        mm = mm or ("oracle: " + check["proto_error"])
    else:
        for st, fails in zip(impl["steps"], check["fails"]):
            if fails:
                key = key_of(fails)
                if key == "bounded-file" and st["op"].get("fault") is not None and st["out"]["acc"] is not None:
                    key = "failed-transfer"     # the controller raised during this call
                viol.append((st["idx"], key, fails))
        if check.get("root"):
            viol.append((-1, "confinement", ["root-view-is-not-the-allocation"]))
    # an extra controller access in the same call: judge its confinement here
    for i, o in enumerate(impl["outs"]):
        for a in o.get("extra_acc", []):
            st = next(t for t in impl["steps"] if t["idx"] == i)
            s, e = st["pre"][0], st["pre"][1]
            n = a[2] if a[0] == "r" else len(a[2]) if a[0] == "w" else 1
            if a[0] == "f" or not (s <= a[1] and a[1] + n <= e and n > 0):
                viol.append((i, "confinement", ["confinement"]))
    return mm, viol


def eval_cases(ctx, cases, report=True):
    """Run implementation, model and oracle on every case. Returns per-case (mm, viol)."""
    impls = [run_impl(c) for c in cases]
    reqs = []
    for c, im in zip(cases, impls):
        reqs += lean_reqs(c, im)
    reps = ctx.lean(reqs)
    res = []
    for i, (c, im) in enumerate(zip(cases, impls)):
        mm, viol = judge(c, im, reps[2 * i], reps[2 * i + 1])
        res.append((mm, viol, im))
    return res


def drop_op(case, k, outs):
    """case without op k (indices of later views adjusted); None if not possible.
    `outs`: what the implementation returned for each op of `case`"""
    ops = case["ops"]
    new = [dict(o) for o in ops[:k]]
    r = outs[k]["ret"] if k < len(outs) else None
    if isinstance(r, dict) and "view" in r:
        j = r["view"]                       # index of the view this op created
        for o in ops[k + 1:]:
            if o["v"] == j:
                return None
            o = dict(o)
            if o["v"] > j:
                o["v"] -= 1
            new.append(o)
    else:
        new += [dict(o) for o in ops[k + 1:]]
    return dict(case, ops=new)


def shrink(ctx, case, key, budget=60):
    """greedy: cut the tail after the first failing step, then drop single ops"""
    last = {}

    def fails(c):
        (mm, viol, im), = eval_cases(ctx, [c])
        f = [i for i, k, _ in viol if k == key]
        if f:
            last["outs"] = im["outs"]
        return f
    f = fails(case)
    if not f:
        return case
    case = dict(case, ops=case["ops"][:max(f[0], 0) + 1])
    last["outs"] = last["outs"][:len(case["ops"])]
    changed = True
    while changed and budget > 0:
        changed = False
        for k in range(len(case["ops"]) - 2, -1, -1):
            c2 = drop_op(case, k, last["outs"])
            budget -= 1
            if c2 is not None and fails(c2):
                case, changed = c2, True
                break
            if budget <= 0:
                break
    return case


def process(ctx, cases):
    res = eval_cases(ctx, cases)
    reported = set(k for k, _, _ in ctx.concrete)
    for c, (mm, viol, im) in zip(cases, res):
        ctx.traces += 1
        for o, op in zip(im["outs"], c["ops"]):
            r = o["ret"]
            t = op["k"]
            if isinstance(r, dict) and "err" in r:
                t += ":" + r["err"]
            elif o["warn"]:
                t += ":truncated"
            elif o["acc"]:
                t += ":access"
            ctx.tag(t)
            if op["v"] > 0 and o["acc"]:
                ctx.tag("access-through-slice")
        ctx.tag("mode:" + c["mode"])
        nontriv = any(o["warn"] for o in im["outs"])
        ctx.case(c, nontriv, sample_every=997)
        if mm:
            ctx.mismatch("c13.trace", mm, c)
        for key in sorted(set(k for _, k, _ in viol)):
            ctx.tag("oracle:" + key)
            if key in reported:
                continue
            reported.add(key)
            small = shrink(ctx, c, key)
            (mm2, viol2, im2), = eval_cases(ctx, [small])
            first = next(((i, cl) for i, k, cl in viol2 if k == key), None)
            detail = ""
            if first and first[0] < 0:
                detail = " | the view created for an allocation of %r bytes at %r is %r" % (
                    im2["alloc"][0], small["start"], im2["root0"])
            elif first:
                st = next(t for t in im2["steps"] if t["idx"] == first[0])
                detail = " | step %d: view [start,stop,offset,closed]=%r freed=%r op=%r -> %r, view after %r; failed clauses %r" % (
                    first[0], st["pre"], st["freed"], st["op"], st["out"], st["post"], first[1])
            if small["ops"] != c["ops"]:
                small = dict(small, history_before_shrinking=c["ops"])
            ctx.violation(key, WHAT.get(key, key) + detail, small)


# --------------------------------------------------------------------------
# generators
# --------------------------------------------------------------------------
def edge_int(rng, L):
    r = rng.random()
    if r < 0.5:
        return rng.choice([-L - 3, -L - 1, -L, -L + 1, -4, -2, -1, 0, 1, 2, L - 1, L, L + 1, L + 3, L + 4])
    return rng.randint(-L - 3, L + 4)


def gen_case(rng):
    r = rng.random()
    if r < 0.1:
        L = 0
    elif r < 0.85:
        L = rng.randint(1, 12)
    else:
        L = rng.randint(13, 40)
    start = rng.choice(BASES)
    if start < MARGIN and rng.random() < 0.5:
        start = rng.choice([MARGIN, 100, 1000])
    case = {"x": rng.randrange(256), "y": rng.randrange(256), "margin": MARGIN, "start": start}
    m = rng.random()
    if m < 0.5:
        case["mode"] = "direct"
        case["stop"] = start + L
        if rng.random() < 0.08:
            case["stop"] = start - rng.randint(1, 9)
            L = 0
    elif m < 0.8:
        case["mode"] = "alloc"
        case["size"] = L
    else:
        case["mode"] = "vertex"
        case["s0"] = rng.choice([0, 4, 204])
        case["s1"] = case["s0"] + L
    case["win"] = [rng.randrange(256) for _ in range(2 * MARGIN + L)]
    lens = [L]        # generator aid only: lengths of the views created so far
    depth = [0]
    closed, freed = [False], False      # generator aid: which views the guarded code refuses to slice
    ops = []
    target = rng.randint(1, 14)
    pending = []                         # follow-ups of an injected fault (the view keeps being used)
    while len(ops) < target or pending:
        if pending:
            ops.append(pending.pop(0))
            continue
        v = rng.randrange(len(lens)) if rng.random() < 0.7 else len(lens) - 1
        Lv = lens[v]
        r = rng.random()
        if r < 0.24:
            w = rng.choice([0, 0, 0, 1, 1, 2, 2])
            if rng.random() < 0.04:
                w = rng.choice([3, -1, 7])
            op = {"k": "seek", "v": v, "n": edge_int(rng, Lv), "w": w}
            if w == 0 and rng.random() < 0.5:
                op["short"] = True
        elif r < 0.44:
            if rng.random() < 0.3:
                op = {"k": "read", "v": v, "n": -1, "dflt": True}
            else:
                op = {"k": "read", "v": v, "n": rng.choice([0, 1, 2, 3, Lv, Lv + 1, 2 * Lv + 1, -1, -5, rng.randint(0, Lv + 4)])}
        elif r < 0.64:
            n = rng.choice([0, 1, 2, 3, Lv, Lv + 1, 2 * Lv, rng.randint(0, Lv + 4)])
            op = {"k": "write", "v": v, "d": [rng.randrange(256) for _ in range(n)]}
        elif r < 0.78 and depth[v] < 4:
            a = None if rng.random() < 0.25 else edge_int(rng, Lv)
            b = None if rng.random() < 0.25 else edge_int(rng, Lv)
            s = rng.choice([None, None, None, 1, 1, 2, -1, 0])
            op = {"k": "slice", "v": v, "a": a, "b": b, "s": s}
            if s in (None, 1) and not closed[v] and not freed:
                lo, hi, _ = slice(a, b).indices(Lv)
                lens.append(max(0, hi - lo))
                depth.append(depth[v] + 1)
                closed.append(False)
        elif r < 0.80:
            op = {"k": "index", "v": v, "tuple": rng.random() < 0.5}
        elif r < 0.85:
            op = {"k": "tell", "v": v}
        elif r < 0.88:
            op = {"k": "address", "v": v}
        elif r < 0.91:
            op = {"k": "len", "v": v}
        elif r < 0.93:
            op = {"k": "flush", "v": v}
        elif r < 0.97:
            op = {"k": "close", "v": v, "with": rng.random() < 0.3}
            if not freed:
                closed[v] = True
        else:
            op = {"k": "free", "v": v if rng.random() < 0.3 else 0}
            if op["v"] == 0:
                freed = True
        if op["k"] in ("read", "write") and rng.random() < 0.15:
            # fault injection: the controller raises during this call (if a transfer is made); a
            # failing write has stored `fault` bytes of what it was handed
            retry = dict(op)
            op["fault"] = rng.choice([0, 0, 1, 2, 3, Lv, 100]) if op["k"] == "write" else 0
            op["exc"] = rng.choice(["timeout", "timeout", "fatal"])
            f = rng.random()
            if f < 0.35:
                pending += [{"k": "tell", "v": v}, retry]
            elif f < 0.55:
                pending += [{"k": "seek", "v": v, "n": rng.choice([-1, 0, 1, 2]), "w": 1}, retry, {"k": "tell", "v": v}]
            elif f < 0.7:
                pending += [retry, {"k": "seek", "v": v, "n": 0, "w": 0, "short": True},
                            {"k": "read", "v": v, "n": -1, "dflt": True}]
            elif f < 0.8:
                pending += [{"k": "slice", "v": v, "a": None, "b": None, "s": None}, {"k": "close", "v": v}]
                if not closed[v] and not freed:
                    lens.append(Lv)
                    depth.append(depth[v] + 1)
                    closed.append(False)
                if not freed:
                    closed[v] = True
        ops.append(op)
    case["ops"] = ops
    return case


EXH_ALPHABET = [
    {"k": "seek", "n": -1, "w": 0}, {"k": "seek", "n": 2, "w": 0}, {"k": "seek", "n": 4, "w": 0},
    {"k": "seek", "n": -2, "w": 1}, {"k": "seek", "n": 1, "w": 1},
    {"k": "seek", "n": 0, "w": 2}, {"k": "seek", "n": -1, "w": 2}, {"k": "seek", "n": 1, "w": 2},
    {"k": "read", "n": -1, "dflt": True}, {"k": "read", "n": 2},
    {"k": "write", "d": [171]}, {"k": "write", "d": [1, 2, 3, 4]},
    {"k": "read", "n": 2, "fault": 0}, {"k": "write", "d": [7, 8], "fault": 1},
    {"k": "slice", "a": 1, "b": None, "s": None}, {"k": "slice", "a": -2, "b": -1, "s": None},
    {"k": "close"}, {"k": "free"},
]


def exhaustive_cases(maxlen):
    """every sequence of <= maxlen alphabet ops on a length-3 view; an op acts on
    the most recently created view (free: on the owner)"""
    for n in range(1, maxlen + 1):
        for seq in itertools.product(range(len(EXH_ALPHABET)), repeat=n):
            ops, nv, closed, freed = [], 1, False, False
            for a in seq:
                op = dict(EXH_ALPHABET[a])
                op["v"] = 0 if op["k"] == "free" else nv - 1
                if op["k"] == "slice" and not closed and not freed:
                    nv += 1          # (slicing a closed view / freed allocation creates nothing)
                    closed = False
                elif op["k"] == "close" and not freed:
                    closed = True
                elif op["k"] == "free":
                    freed = True
                ops.append(op)
            yield {"x": 3, "y": 5, "margin": 8, "mode": "direct", "start": 0x60000000, "stop": 0x60000003,
                   "win": list(range(10, 10 + 19)), "ops": ops}


def corpus_cases():
    """the probed defects of DESIGN 4 (F7, F8) and edge histories, always run first"""
    base = {"x": 1, "y": 2, "margin": MARGIN, "mode": "direct", "start": 1000, "stop": 1010,
            "win": list(range(1, 43))}
    hs = [
        [{"k": "seek", "v": 0, "n": -4, "w": 0}, {"k": "read", "v": 0, "n": 2}],
        [{"k": "seek", "v": 0, "n": -4, "w": 0}, {"k": "write", "v": 0, "d": [97, 98, 99, 100]}],
        [{"k": "seek", "v": 0, "n": -4, "w": 0}, {"k": "read", "v": 0, "n": -1, "dflt": True}],
        [{"k": "seek", "v": 0, "n": 13, "w": 0}, {"k": "write", "v": 0, "d": [1, 2, 3, 4, 5, 6, 7, 8]}],
        [{"k": "seek", "v": 0, "n": -1, "w": 2}, {"k": "tell", "v": 0}],
        [{"k": "slice", "v": 0, "a": 2, "b": 5, "s": None}, {"k": "seek", "v": 1, "n": -2, "w": 1},
         {"k": "write", "v": 1, "d": [9, 9, 9, 9, 9, 9]}, {"k": "seek", "v": 1, "n": 4, "w": 0},
         {"k": "write", "v": 1, "d": [7, 7, 7]}],
        [{"k": "write", "v": 0, "d": [5] * 12}, {"k": "seek", "v": 0, "n": 0, "w": 0, "short": True},
         {"k": "read", "v": 0, "n": 100}, {"k": "close", "v": 0}, {"k": "read", "v": 0, "n": 1}],
        [{"k": "slice", "v": 0, "a": -3, "b": None, "s": 1}, {"k": "free", "v": 0}, {"k": "read", "v": 1, "n": 1},
         {"k": "close", "v": 1}, {"k": "free", "v": 0}, {"k": "free", "v": 1}],
    ]
    cases = [dict(base, ops=h) for h in hs]
    import glob
    import json
    import os
    d = os.path.join(os.path.dirname(os.path.dirname(os.path.abspath(__file__))), "corpus", "C13")
    for f in sorted(glob.glob(os.path.join(d, "*.json"))):
        cases.append(json.load(open(f))["case"])
    return cases


def run(ctx):
    ctx.extra["rule"] = RULE
    ctx.assumptions += [
        "a failed transfer is the controller's read/write raising SCPError (TimeoutError, FatalReturnCodeError) "
        "after storing a prefix (possibly empty, possibly all) of a write; the view lets it propagate",
        "the controller's read returns exactly the requested number of bytes and write stores exactly the given bytes (C07)",
        "'every operation fails' after close/free is claimed for read, write, seek, tell, flush, address and "
        "slicing; __len__ and a repeated close() are not among the property's operations (no memory access, not "
        "guarded by the code)",
        "a view's position may be any integer (seek does not clip, as the repository's tests require); bytes are "
        "transferred only between positions 0 and len",
    ]
    process(ctx, corpus_cases())
    n = ctx.scale(3000, 100000)
    if ctx.extended:
        n *= 4
    rng = ctx.rng
    chunk = 2000
    for i in range(0, n, chunk):
        process(ctx, [gen_case(rng) for _ in range(min(chunk, n - i))])
    maxlen = ctx.scale(2, 4)
    if ctx.extended and ctx.quick:
        maxlen = 3
    buf = []
    for c in exhaustive_cases(maxlen):
        buf.append(c)
        if len(buf) >= 4000:
            process(ctx, buf)
            buf = []
    if buf:
        process(ctx, buf)
    ctx.extra["exhaustive_scope"] = "all sequences of <= %d ops from a %d-op alphabet on a length-3 view" % (
        maxlen, len(EXH_ALPHABET))


def replay(ctx, payload):
    ctx.extra["rule"] = RULE
    process(ctx, [payload["case"]])
THEOREMS += ['gen_init', 'gen_len', 'gen_address', 'gen_tell', 'gen_bytes_available', 'gen_seek', 'gen_getitem', 'gen_slice']   # translator tie: generated function bodies = model (Props/C13Gen.lean)
