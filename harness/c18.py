"""C18 - commands go to the chip, core and application the caller named.

Correspondence of rig/utils/contexts.py + the decorated methods of
MachineController / BMPController with the Lean model RigModel/Model/C18.lean,
and the Lean oracles (`destOk`, `connOkMc`, `connOkBmp`, `isStop`, restore) run
on the datagrams the real controllers hand to their connections.

The controllers' SCPConnection objects are replaced by fake connection objects
(no network): each records (connection, kind, x, y, p, cmd, arg1, arg2) of every
`send_scp` / `read` / `write` and answers with a canned reply.  Programs are
with-structured (blocks, application blocks, update_current_context, calls in
every passing style, raise, try/except) and are run statement by statement on
the real controller and by the model (`exec`).
"""
import ast
import os
import re
import struct
import tempfile

CLAIM = dict(
    text=("Machine-checked proof (Lean 4), generic in the method signature and for ALL context stacks, call shapes and "
          "with-structured programs: a resolved argument is the explicit one, else that of the innermost context setting it, "
          "else the default, which is the one the source pairs with the parameter (precedence, default_param, default_kwonly, "
          "passing_styles_agree); a call with a Required argument left is rejected and emits nothing, and is "
          "accepted otherwise (required_rejected, accepted_complete, rejected_sends_nothing); after any block - any nesting, normal exit, exception at any depth, "
          "failing stop signal - the stack is exactly the one before (restore); an application block ends with a stop "
          "signal resolved to the block's application (application_stops); the connection used is the local Ethernet "
          "chip's when known, the BMP's most specific one (connection_choice).  The signature of every decorated method "
          "of both controllers is regenerated from source and proved well-formed for the decorator.  Tied to the code on "
          "every run: every decorated method x passing style (positional/keyword/context/default/mixed) x nesting, plus "
          "random programs with exceptions at every depth, run on the real controllers over recording fake connections; "
          "resolved keyword dictionaries, rejections, context snapshots compared exactly with the model, and the Lean "
          "oracles evaluated on every datagram (chip, core, application id / board mask, connection, stop signal)."),
    design="3/C18",
    note=("Per-method glue (which datagrams a method sends, and which inner decorated calls it makes) is a hand transcription "
          "validated by exhaustive-over-methods correspondence, not proved.  Inner calls that omit `p` pick it up from the "
          "context (e.g. get_processor_status under `with mc(p=3)` reads via core 3, with explicit p=3 via core 0): modelled "
          "as the code behaves and reported as an observation.  count_cores_in_state / wait_for_cores_to_reach_state / "
          "load_application cannot be driven past `collections.Iterable` on this interpreter (defect F6, property C09); "
          "their resolution and rejection are still checked.  Board arguments that are iterables are outside the generators."),
    technique="Lean 4 theorems over a hand-written model + translator for signatures/constants + differential correspondence + Lean spec as oracle")

THEOREMS = ["signatures_wellformed", "every_method_has_rule", "precedence", "precedence_accepted", "ctxLookup_innermost",
            "default_param", "default_kwonly", "passing_styles_agree",
            "required_rejected", "rejected_names_required", "accepted_complete", "rejected_sends_nothing",
            "restore", "restore_application", "restore_inner", "restore_arguments",
            "stop_targets_application", "application_stops", "connection_choice_mc", "connection_choice_bmp"]

RULE = ("systematic part: every decorated method of MachineController and BMPController x passing style (positional, keyword, "
        "context, default, mixed) x nesting (none, one block, two blocks with partial override, block left by exception then "
        "call); random part: with-structured programs of depth <= 4 with blocks over random subsets of argument names, "
        "application blocks (explicit / contextual id, failing stop), update_current_context, raise, try/except, calls of "
        "random methods in random styles (incl. calls lacking required arguments), over random connection tables (machine "
        "sizes, root chips, discovered Ethernet chips; BMP board/frame connections).  Contextual values are drawn pairwise "
        "distinct so that a swapped or stale value cannot match by accident.  Non-trivial: a program in which at least one "
        "call resolved an argument from a context or was rejected inside a block, or a block was left by exception.")

_APLX = [None]
MC_CTX = ["x", "y", "p", "app_id", "processor"]
BMP_CTX = ["cabinet", "frame", "board"]
F6_MARK = "has no attribute 'Iterable'"


# --------------------------------------------------------------------------
# fake connections
# --------------------------------------------------------------------------
class StopFailed(Exception):
    pass


class FakeTime(object):
    """stands in for the `time` module attribute of the controller modules: no real sleeping"""

    def __init__(self):
        self.now = 0.0

    def sleep(self, s):
        self.now += max(float(s), 0.0)

    def time(self):
        self.now += 0.01
        return self.now


class FakeConn(object):
    def __init__(self, name, log, mem, state):
        self.name, self.log, self.mem, self.state = name, log, mem, state

    def _reply(self, cmd, arg1, arg2, arg3):
        from rig.machine_control.packets import SCPPacket
        from rig.machine_control.consts import SCPCommands as C
        a1 = a2 = a3 = 0
        data = b""
        if cmd == C.sver:
            a2 = (0xFFFF << 16) | 256
            data = b"SC&MP/SpiNNaker\x002.1.0\x00"
        elif cmd == C.alloc_free:
            a1 = 0x60000000
        elif cmd == C.info:
            a1 = 18 | (0x3f << 8) | (1 << 25)
            data = bytes(18) + struct.pack("<HI", 0, 0x0100007f)
        elif cmd == C.iptag:
            data = bytes(32)
        elif cmd == C.link_read:
            data = bytes(arg2)
        elif cmd == C.bmp_info:
            data = bytes(struct.calcsize("<8H4h4h4hII"))
        elif cmd == C.signal:
            a1 = 1
        return SCPPacket(cmd_rc=0x80, arg1=a1, arg2=a2, arg3=a3, data=data)

    def send_scp(self, buffer_size, x, y, p, cmd, arg1=0, arg2=0, arg3=0, data=b'', expected_args=3, timeout=0.0):
        self.log.append({"kind": self.state["kind"], "conn": self.name, "x": int(x), "y": int(y), "p": int(p),
                         "cmd": int(cmd), "arg1": int(arg1), "arg2": int(arg2)})
        if self.state.get("fail_signal") and int(cmd) == 22:
            self.state["fail_signal"] = False
            raise StopFailed()
        return self._reply(cmd, arg1, arg2, arg3)

    def read(self, buffer_size, window_size, x, y, p, address, length_bytes):
        self.log.append({"kind": "mem", "conn": self.name, "x": int(x), "y": int(y), "p": int(p),
                         "cmd": 2, "arg1": int(address), "arg2": int(length_bytes)})
        v = self.mem.get(address)
        if v is not None:
            return v[:length_bytes].ljust(length_bytes, b"\0")
        return bytes(length_bytes)

    def write(self, buffer_size, window_size, x, y, p, address, data):
        self.log.append({"kind": "mem", "conn": self.name, "x": int(x), "y": int(y), "p": int(p),
                         "cmd": 3, "arg1": int(address), "arg2": len(data)})

    def close(self):
        pass


class World(object):
    """one controller with fake connections"""

    def __init__(self, cls, cfg, init):
        self.cls, self.cfg = cls, cfg
        self.log, self.mem = [], {}
        self.state = {"kind": "scp" if cls == "MachineController" else "bmp"}
        if cls == "MachineController":
            import rig.machine_control.machine_controller as m
            real = m.SCPConnection
            m.SCPConnection = lambda *a, **k: FakeConn(None, self.log, self.mem, self.state)
            try:
                self.c = m.MachineController("nohost", initial_context=py_dict(init)) if init is not None \
                    else m.MachineController("nohost")
            finally:
                m.SCPConnection = real
            self.mod = m
            sv = self.c.structs[b"sv"]
            self.mem[sv.base + sv[b"p2p_dims"].offset] = struct.pack("<H", (2 << 8) | 2)
            self.c._scp_data_length = 256
            self.apply_cfg()
        else:
            import rig.machine_control.bmp_controller as b
            real = b.SCPConnection
            b.SCPConnection = lambda host, *a, **k: FakeConn(list(host), self.log, self.mem, self.state)
            try:
                hosts = {tuple(k): tuple(k) for k in cfg["bmp_conns"]}
                self.c = b.BMPController(hosts, initial_context=py_dict(init)) if init is not None \
                    else b.BMPController(hosts)
            finally:
                b.SCPConnection = real
            self.mod = b
            self.c._scp_data_length = 256

    def apply_cfg(self):
        c, cfg = self.c, self.cfg
        dims, root = cfg.get("dims"), cfg.get("root")
        c._width, c._height = (dims[0], dims[1]) if dims else (None, None)
        c._root_chip = tuple(root) if root else None
        c.connections = {None: c.connections[None]}
        for (x, y) in cfg.get("conns", []):
            c.connections[(x, y)] = FakeConn([x, y], self.log, self.mem, self.state)


# --------------------------------------------------------------------------
# values
# --------------------------------------------------------------------------
def to_val(v):
    """Python value -> JSON value of the line protocol (Val of the model)"""
    from rig.utils.contexts import Required
    if v is Required:
        return {"req": 1}
    if v is None or isinstance(v, bool):
        return v
    if isinstance(v, int):
        return int(v)
    if isinstance(v, str) and v == _APLX[0]:
        return {"o": "<aplx>"}
    if isinstance(v, list) and v and type(v[0]).__name__ == "RoutingTableEntry":
        return {"o": "<rte>"}
    if isinstance(v, dict) and v and all(isinstance(t, list) and t and type(t[0]).__name__ == "RoutingTableEntry"
                                         for t in v.values()):
        return {"o": "<rt:%s>" % ";".join("%d,%d" % k for k in sorted(v))}
    return {"o": repr(v)[:80]}


def from_val(v, objs=None):
    """JSON value -> Python object"""
    from rig.utils.contexts import Required
    if isinstance(v, dict):
        if "req" in v:
            return Required
        t = v["o"]
        if t == "<aplx>":
            return aplx_file()
        if t == "<rte>" or t.startswith("<rt:"):
            from rig.routing_table import RoutingTableEntry, Routes
            rte = [RoutingTableEntry({Routes.east}, 1, 0xff)]
            if t == "<rte>":
                return rte
            return {tuple(int(a) for a in k.split(",")): rte for k in t[4:-1].split(";")}
        try:
            return ast.literal_eval(t)
        except Exception:
            return t
    return v


def py_dict(pairs, objs=None):
    return {k: from_val(v) for k, v in pairs}


_OBJS = {}


def obj_token(o):
    return to_val(o)


def aplx_file():
    if _APLX[0] is None or not os.path.exists(_APLX[0]):
        f = tempfile.NamedTemporaryFile(prefix="c18_", suffix=".aplx", delete=False)
        f.write(b"\0" * 64)
        f.close()
        _APLX[0] = f.name
    return _APLX[0]


def method_args(cls, name, rng):
    """plausible values of the NON-contextual parameters: ({param: value}, [extra positional])"""
    from rig.links import Links
    from rig.routing_table import RoutingTableEntry, Routes
    from rig.machine_control.consts import SCPCommands
    if cls == "BMPController":
        t = dict(send_scp=({}, [SCPCommands.sver]), get_software_version=({}, []),
                 set_power=(dict(state=rng.random() < 0.5, delay=0.0, post_power_on_delay=0.0), []),
                 set_led=(dict(led=rng.randrange(8), action=rng.choice([None, True, False])), []),
                 read_fpga_reg=(dict(fpga_num=rng.randrange(3), addr=4 * rng.randrange(64)), []),
                 write_fpga_reg=(dict(fpga_num=rng.randrange(3), addr=4 * rng.randrange(64), value=rng.randrange(1 << 32)), []),
                 read_adc=({}, []))
        return t[name]
    rte = [RoutingTableEntry({Routes.east}, 1, 0xff)]
    tx, ty = rng.randrange(2, 9), rng.randrange(2, 9)
    aligned = rng.random() < 0.5
    t = dict(
        send_scp=({}, [SCPCommands.led, 1]), discover_connections=({}, []), application=({}, []),
        get_software_version=({}, []), get_ip_address=({}, []),
        write=(dict(address=0x100, data=b"abcd"), []), read=(dict(address=0x100, length_bytes=4), []),
        write_across_link=(dict(address=0x100, data=b"abcd", link=Links.north), []),
        read_across_link=(dict(address=0x100, length_bytes=4, link=Links.north), []),
        read_struct_field=(dict(struct_name="sv", field_name="p2p_dims"), []),
        write_struct_field=(dict(struct_name="sv", field_name="p2p_dims", values=5), []),
        read_vcpu_struct_field=(dict(field_name="cpu_state"), []),
        write_vcpu_struct_field=(dict(field_name="user0", value=7), []),
        get_processor_status=({}, []), get_iobuf=({}, []), get_iobuf_bytes=({}, []), get_router_diagnostics=({}, []),
        iptag_set=(dict(iptag=1, addr="127.0.0.1", port=5000), []), iptag_get=(dict(iptag=1), []),
        iptag_clear=(dict(iptag=1), []), set_led=(dict(led=1, action=rng.choice([None, True, False])), []),
        fill=(dict(address=0x100, data=0, size=8 if aligned else 7), []),
        sdram_alloc=(dict(size=8, tag=rng.randrange(2), clear=rng.random() < 0.5), []),
        sdram_alloc_as_filelike=(dict(size=8, tag=rng.randrange(2), clear=rng.random() < 0.5), []),
        sdram_free=(dict(ptr=0x100), []),
        flood_fill_aplx=(dict(wait=rng.random() < 0.5), [aplx_file(), {(tx, ty): {3}}]),
        load_application=(dict(wait=rng.random() < 0.5, app_start_delay=0.0, n_tries=1), [aplx_file(), {(tx, ty): {3}}]),
        send_signal=(dict(signal=rng.choice(["stop", "start", "sync0"])), []),
        count_cores_in_state=(dict(state="wait"), []),
        wait_for_cores_to_reach_state=(dict(state="wait", count=1, poll_interval=0.0, timeout=None), []),
        load_routing_tables=(dict(routing_tables={(tx, ty): rte}), []),
        load_routing_table_entries=(dict(entries=rte), []),
        get_routing_table_entries=({}, []), clear_routing_table_entries=({}, []), get_p2p_routing_table=({}, []),
        get_chip_info=({}, []), get_working_links=({}, []), get_num_working_cores=({}, []), get_system_info=({}, []))
    return t[name]


# --------------------------------------------------------------------------
# closure tap: observe f(self, *args, **new_kwargs) inside the decorator's wrapper
# --------------------------------------------------------------------------
_TAP = {"depth": 0, "rec": None, "installed": {}}


def install_tap(klass):
    if klass in _TAP["installed"]:
        return _TAP["installed"][klass]
    n = 0
    for name, fn in list(vars(klass).items()):
        clo = getattr(fn, "__closure__", None)
        if not clo or "kw_only_args_defaults" not in fn.__code__.co_freevars:
            continue
        fv = fn.__code__.co_freevars
        if "f" not in fv:
            continue
        cell = clo[fv.index("f")]
        orig = cell.cell_contents
        if getattr(orig, "_c18_tap", False):
            n += 1
            continue

        def mk(orig):
            def tapped(self, *args, **kwargs):
                if _TAP["depth"] == 0 and _TAP["rec"] is None:
                    _TAP["rec"] = (len(args), list(kwargs.items()))
                _TAP["depth"] += 1
                try:
                    return orig(self, *args, **kwargs)
                finally:
                    _TAP["depth"] -= 1
            tapped._c18_tap = True
            tapped.__name__ = getattr(orig, "__name__", "f")
            return tapped
        try:
            cell.cell_contents = mk(orig)
            n += 1
        except Exception:
            pass
    _TAP["installed"][klass] = n
    return n


# --------------------------------------------------------------------------
# running a program on the real controller
# --------------------------------------------------------------------------
class Unwind(Exception):
    """the program's own `raise`"""


def merged_of(c):
    return sorted(([k, to_val(v)] for k, v in c.get_context_arguments().items()), key=lambda kv: kv[0])


def do_call(w, m, pos, kw, events, ev_id, is_app=False):
    """call a decorated method; returns (result, exception to propagate or None, rejected?)"""
    c, log = w.c, w.log
    i0 = len(log)
    _TAP["rec"], _TAP["depth"] = None, 0
    args = [from_val(v, _OBJS) for v in pos]
    kwargs = py_dict(kw, _OBJS)
    exc, out, res = None, None, None
    patched = None
    if m == "discover_connections" and w.cls == "MachineController":
        patched = w.mod.SCPConnection
        w.mod.SCPConnection = lambda *a, **k: FakeConn([-1, -1], w.log, w.mem, w.state)
    try:
        res = getattr(c, m)(*args, **kwargs)
        out = {"sent": True}
    except TypeError as e:
        exc = e
        mm = re.match(r"^(\w+): missing argument (\w+)$", str(e))
        if mm and _TAP["rec"] is None:
            out = {"rejected": {"missing": mm.group(2)}}
        elif _TAP["rec"] is None and len(log) == i0:
            out = {"rejected": "bind"}
        else:
            out = {"sent": True, "body_exc": "TypeError: " + str(e)[:80]}
    except AssertionError as e:
        exc = e
        if "No connection available" in str(e) and len(log) == i0:
            out = {"rejected": "noconn"}
        else:
            out = {"sent": True, "body_exc": "AssertionError: " + str(e)[:80]}
    except Exception as e:  # noqa
        exc = e
        out = {"sent": True, "body_exc": "%s: %s" % (type(e).__name__, str(e)[:80])}
    finally:
        if patched is not None:
            w.mod.SCPConnection = patched
            w.apply_cfg()
    if _TAP["rec"] is not None:
        out["npos"] = _TAP["rec"][0]
        out["kwargs"] = [[k, to_val(v)] for k, v in _TAP["rec"][1]]
    events.append({"ev": "call", "id": ev_id, "m": m, "out": out, "datagrams": log[i0:],
                   "skip_conn": m == "discover_connections"})
    return res, exc, "rejected" in out


def run_prog(w, prog, events):
    c = w.c
    for st in prog:
        s = st["s"]
        if s == "raise":
            raise Unwind()
        elif s == "call":
            _, exc, rejected = do_call(w, st["m"], st["pos"], st["kw"], events, st["id"])
            if rejected and not st["caught"]:
                raise exc
        elif s == "update":
            c.update_current_context(**py_dict(st["kv"], _OBJS))
        elif s == "try":
            try:
                run_prog(w, st["body"], events)
            except Exception:
                pass
        elif s in ("block", "app"):
            before = merged_of(c)
            if s == "block":
                cm = c(**py_dict(st["ctx"], _OBJS))
            else:
                n0 = len(events)
                cm, exc, rejected = do_call(w, "application", st["pos"], st["kw"], events, st["id"])
                if rejected:
                    raise exc
                events.pop()        # an accepted application() call is reported by the enter event
                assert len(events) == n0
            mark = [len(w.log)]
            entered = [False]
            try:
                with cm:
                    entered[0] = True
                    events.append({"ev": "enter", "id": st["id"], "merged": merged_of(c)})
                    try:
                        run_prog(w, st["body"], events)
                    finally:
                        mark[0] = len(w.log)
                        if s == "app" and st["stop_fails"]:
                            w.state["fail_signal"] = True
            finally:
                w.state["fail_signal"] = False
                if entered[0]:
                    events.append({"ev": "exit", "id": st["id"], "merged": merged_of(c), "before": before,
                                   "app": s == "app", "datagrams": w.log[mark[0]:]})
        else:
            raise ValueError(s)


def run_impl(case):
    w = World(case["cls"], case["cfg"], case.get("init"))
    install_tap(type(w.c))
    events = []
    raised = False
    real_time = w.mod.time
    w.mod.time = FakeTime()
    try:
        run_prog(w, case["prog"], events)
    except Unwind:
        raised = True
    except (TypeError, AssertionError, StopFailed):
        raised = True
    finally:
        w.mod.time = real_time
    stack_merged = merged_of(w.c)
    return {"events": events, "raised": raised, "merged": stack_merged}


# --------------------------------------------------------------------------
# comparing with the model, applying the oracles
# --------------------------------------------------------------------------
def model_request(case):
    init = case.get("init")
    if init is None:
        init = [["app_id", 66]] if case["cls"] == "MachineController" else [["cabinet", 0], ["frame", 0], ["board", 0]]
    return {"suite": "c18", "op": "run", "cls": case["cls"], "bmp_conns": case["cfg"].get("bmp_conns", []),
            "stack": [init], "prog": case["prog"]}


def sorted_pairs(d):
    return sorted(d, key=lambda kv: kv[0])


def ctx_names(cls):
    return MC_CTX if cls == "MachineController" else BMP_CTX


def evaluate(ctx, cases):
    """cases: list of {cls, cfg, init, prog, ...}"""
    if not cases:
        return
    impl = [run_impl(c) for c in cases]
    model = ctx.lean([model_request(c) for c in cases])
    oreqs, oidx = [], []
    for ci, (case, im, mo) in enumerate(zip(cases, impl, model)):
        desc = {k: case[k] for k in ("cls", "cfg", "init", "prog") if k in case}
        ctx.traces += 1
        if "proto_error" in mo:
            ctx.mismatch("c18.run", "model rejected the request: %s" % mo["proto_error"], desc)
            continue
        mev = {(e["ev"], e["id"]): e for e in mo["events"]}
        iev = {(e["ev"], e["id"]): e for e in im["events"]}
        nontriv = False
        if [(e["ev"], e["id"]) for e in mo["events"]] != [(e["ev"], e["id"]) for e in im["events"]]:
            ctx.mismatch("c18.events", "event sequences differ: impl=%r model=%r" % (
                [(e["ev"], e["id"]) for e in im["events"]], [(e["ev"], e["id"]) for e in mo["events"]]), desc)
        if im["raised"] != mo["raised"]:
            ctx.mismatch("c18.raised", "impl raised=%r model raised=%r" % (im["raised"], mo["raised"]), desc)
        if sorted_pairs(mo["merged"]) != im["merged"]:
            ctx.mismatch("c18.final", "final context differs: impl=%r model=%r" % (im["merged"], mo["merged"]), desc)
        for key, e in iev.items():
            m = mev.get(key)
            if m is None:
                continue
            if e["ev"] == "call":
                res, out = m["res"], e["out"]
                meth = e["m"]
                if "rejected" in res:
                    ctx.tag("rejected:%s" % (res["rejected"] if isinstance(res["rejected"], str) else "missing"))
                    if len(e["datagrams"]) > 0 or "sent" in out:
                        if isinstance(res["rejected"], dict):
                            ctx.violation("required-not-rejected",
                                          "%s.%s lacks required argument %r but was not rejected before sending "
                                          "(%d datagrams, outcome %r)" % (case["cls"], meth, res["rejected"]["missing"],
                                                                         len(e["datagrams"]), out), desc)
                        else:
                            ctx.mismatch("c18.reject", "model rejects (%r), impl outcome %r" % (res["rejected"], out), desc)
                    elif out.get("rejected") != res["rejected"]:
                        ctx.mismatch("c18.reject", "rejection differs: impl=%r model=%r" % (out.get("rejected"), res["rejected"]), desc)
                    if len(case["prog"]) and case.get("depth", 0) > 0:
                        nontriv = True
                    continue
                # model: accepted
                if "rejected" in out:
                    if isinstance(out["rejected"], dict):
                        ctx.violation("resolved-argument-rejected",
                                      "%s.%s was rejected (missing %r) although the argument is given explicitly, by a "
                                      "context or by default: model kwargs %r" % (case["cls"], meth, out["rejected"]["missing"], res["sent"]), desc)
                    else:
                        ctx.mismatch("c18.reject", "impl rejects (%r), model accepts" % (out["rejected"],), desc)
                    continue
                ctx.tag("method:%s.%s" % ("mc" if case["cls"] == "MachineController" else "bmp", meth))
                if "body_exc" in out:
                    if F6_MARK in out["body_exc"]:
                        ctx.tag("undrivable:F6:%s" % meth)
                        ctx.extra.setdefault("undrivable", {})[meth] = out["body_exc"]
                    else:
                        ctx.mismatch("c18.body", "%s.%s raised %s" % (case["cls"], meth, out["body_exc"]), desc)
                if "kwargs" in out:
                    if out["kwargs"] != res["sent"]:
                        got, want = dict(map(tuple, map(lambda kv: (kv[0], repr(kv[1])), out["kwargs"]))), \
                            dict(map(tuple, map(lambda kv: (kv[0], repr(kv[1])), res["sent"])))
                        bad = [n for n in set(got) | set(want) if got.get(n) != want.get(n)]
                        if bad:
                            ctx.violation("precedence",
                                          "%s.%s: argument(s) %r resolved to %r, but explicit > innermost context > default "
                                          "gives %r" % (case["cls"], meth, sorted(bad), {n: got.get(n) for n in bad},
                                                        {n: want.get(n) for n in bad}), desc)
                        else:
                            ctx.mismatch("c18.kwargs", "order of new_kwargs differs: impl=%r model=%r" % (out["kwargs"], res["sent"]), desc)
                    ctx.tag("tapped")
                if not e["datagrams"] and res["pats"] and "body_exc" not in out:
                    ctx.mismatch("c18.silent", "%s.%s sent nothing (model allows %d patterns)" % (case["cls"], meth, len(res["pats"])), desc)
                oreqs.append({"suite": "c18", "op": "oracle", "cls": case["cls"], "pats": res["pats"],
                              "datagrams": e["datagrams"], "cfg": case["cfg"], "bmp_conns": case["cfg"].get("bmp_conns", [])})
                oidx.append((ci, desc, e, "call", meth))
                if case.get("uses_ctx"):
                    nontriv = True
            elif e["ev"] == "enter":
                if sorted_pairs(m["merged"]) != e["merged"]:
                    ctx.mismatch("c18.enter", "context after entering block %d differs: impl=%r model=%r" % (e["id"], e["merged"], m["merged"]), desc)
            else:  # exit
                ctx.tag("exit:%s" % ("app" if e["app"] else "block"))
                if e["merged"] != e["before"]:
                    ctx.violation("context-not-restored",
                                  "after leaving block %d the arguments in force are %r, before it they were %r" % (
                                      e["id"], e["merged"], e["before"]), desc)
                if sorted_pairs(m["merged"]) != e["merged"]:
                    ctx.mismatch("c18.exit", "context after leaving block %d differs: impl=%r model=%r" % (e["id"], e["merged"], m["merged"]), desc)
                if e["app"]:
                    stop = m["stop"]
                    if stop is not None and "sent" in stop:
                        oreqs.append({"suite": "c18", "op": "oracle", "cls": case["cls"], "pats": stop["pats"],
                                      "datagrams": e["datagrams"], "cfg": case["cfg"], "bmp_conns": []})
                        oidx.append((ci, desc, e, "stop", "application"))
                    elif e["datagrams"]:
                        ctx.mismatch("c18.stop", "model: stop signal rejected, impl sent %r" % (e["datagrams"],), desc)
                elif e["datagrams"]:
                    ctx.mismatch("c18.exit", "datagrams on leaving a plain block: %r" % (e["datagrams"],), desc)
        if case.get("exc_exit"):
            nontriv = True
        case["_nontriv"] = nontriv
    for (ci, desc, e, what, meth), r in zip(oidx, ctx.lean(oreqs)):
        if "proto_error" in r:
            ctx.mismatch("c18.oracle", r["proto_error"], desc)
            continue
        cls = cases[ci]["cls"]
        if what == "stop":
            if not e["datagrams"] or not all(r["stops"]) or not r["dest"]:
                ctx.violation("application-not-stopped",
                              "leaving application block %d did not send exactly the stop signal for its application: "
                              "datagrams %r, application ids %r, stop flags %r" % (e["id"], e["datagrams"], r["extras"], r["stops"]), desc)
                continue
        if not r["dest"]:
            bad = [e["datagrams"][i] for i in r["bad"][:3]]
            ctx.violation("wrong-destination",
                          "%s.%s put on the wire %r (application id / mask %r) which is not a destination its resolved "
                          "arguments name" % (cls, meth, bad, [r["extras"][i] for i in r["bad"][:3]]), desc)
        elif not r["conn"] and not e.get("skip_conn"):
            ctx.violation("wrong-connection",
                          "%s.%s: a datagram did not travel over the connection of the board holding its target: %r" % (
                              cls, meth, e["datagrams"][:4]), desc)
    for case in cases:
        desc = {k: case[k] for k in ("cls", "cfg", "init", "prog") if k in case}
        ctx.case(desc, case.get("_nontriv", False))


# --------------------------------------------------------------------------
# generators
# --------------------------------------------------------------------------
_SIGS = {}
_SKIP = set()


def signatures():
    if not _SIGS:
        from harness import common
        from harness.gen import c18 as g
        for s in g.read_signatures(common.REPO):
            _SIGS[(s["cls"], s["name"])] = s
    return _SIGS


class UnknownMethod(Exception):
    """a decorated method (or parameter) the generators know nothing about: reported, never silently skipped"""


class Gen(object):
    def __init__(self, rng, cls, cfg):
        self.rng, self.cls, self.cfg = rng, cls, cfg
        self.nid = 0
        self.used = set()

    def fresh_id(self):
        self.nid += 1
        return self.nid

    def ctx_value(self, name):
        """contextual values pairwise distinct within a program (and away from 0 / 255 / 66)"""
        rng = self.rng
        for _ in range(200):
            if self.cls == "BMPController":
                v = rng.randrange(2) if name in ("cabinet", "frame") else rng.randrange(3)
                return v
            if name == "x":
                v = rng.randrange((self.cfg.get("dims") or [24, 24])[0])
            elif name == "y":
                v = rng.randrange((self.cfg.get("dims") or [24, 24])[1])
            elif name in ("p", "processor"):
                v = rng.randrange(1, 18)
            else:
                v = rng.randrange(16, 255)
            if v not in self.used and v not in (0, 66, 255):
                self.used.add(v)
                return v
        return v

    def call(self, name, style, ctxvals=None, caught=True):
        """a call statement of method `name`; returns (stmt, values that must come from a context)"""
        rng = self.rng
        sig = signatures()[(self.cls, name)]
        params = sig["argNames"][1:]
        kwonly = [k for k, _ in sig["kwOnly"]]
        cnames = ctx_names(self.cls)
        try:
            given, extra = method_args(self.cls, name, rng)
        except KeyError:
            raise UnknownMethod("%s.%s: the generators have no argument values for this method" % (self.cls, name))
        ndef = len(sig["defaults"])
        has_default = set(params[len(params) - ndef:]) if ndef else set()
        has_default |= {k for k, (v, _) in sig["kwOnly"] if v != {"k": "required"}}
        true = {}
        for n in params + kwonly:
            if n in cnames:
                true[n] = (ctxvals or {}).get(n, None)
                if true[n] is None:
                    true[n] = self.ctx_value(n)
        pos, kw, need_ctx = [], [], {}
        if sig["hasVarargs"]:
            pos = [obj_token(o) for o in extra]
            plan = {n: "kw" for n in kwonly}
        else:
            plan = {}
        # decide how each parameter travels
        if style == "positional":
            npos = len(params)
        elif style in ("keyword", "context", "default"):
            npos = 0
            for n in params:
                if n in cnames:
                    break
                npos += 1
        else:
            npos = rng.randrange(len(params) + 1)
        if sig["hasVarargs"]:
            npos = 0
        for i, n in enumerate(params):
            if n in true:
                v = true[n]
            elif n in given:
                v = given[n]
            else:
                raise UnknownMethod("%s.%s: no value for parameter %s" % (self.cls, name, n))
            if i < npos:
                pos.append(obj_token(v))
                continue
            if n in true:
                how = {"positional": "kw", "keyword": "kw", "context": "ctx", "default": "omit"}.get(style) or \
                    rng.choice(["kw", "ctx", "ctx", "omit"])
            else:
                how = "kw"
                if n in has_default and style == "mixed" and rng.random() < 0.5:
                    how = "omit"
                if style == "mixed" and rng.random() < 0.04:
                    how = "omit"       # a non-contextual required argument left out: rejected as well
            if how == "kw":
                kw.append([n, obj_token(v)])
            elif how == "ctx":
                need_ctx[n] = v
        for n in kwonly:
            if n in true:
                how = {"positional": "kw", "keyword": "kw", "context": "ctx", "default": "omit"}.get(style) or \
                    rng.choice(["kw", "ctx", "omit"])
                if how == "kw":
                    kw.append([n, true[n]])
                elif how == "ctx":
                    need_ctx[n] = true[n]
            elif n in given and (style != "mixed" or rng.random() < 0.7):
                kw.append([n, obj_token(given[n])])
        if style == "mixed":
            rng.shuffle(kw)
        st = {"s": "call", "id": self.fresh_id(), "m": name, "pos": pos, "kw": kw, "caught": caught}
        return st, need_ctx

    def decoys(self, names):
        return [[n, self.ctx_value(n)] for n in names]


def random_cfg(rng, cls):
    if cls == "BMPController":
        keys = [[c, f] for c in range(2) for f in range(2)] + [[c, f, b] for c in range(2) for f in range(2) for b in range(3)]
        k = [key for key in keys if rng.random() < 0.45]
        if rng.random() < 0.5 and [0, 0] not in k:
            k.append([0, 0])
        if not k:
            k = [[0, 0]]
        return {"bmp_conns": k}
    r = rng.random()
    if r < 0.25:
        return {"dims": None, "root": None, "conns": []}
    w = rng.choice([12, 24, 24, 36, 8, 16, 20])
    h = rng.choice([12, 24, 24, 36, 8, 16, 20])
    root = [rng.choice([0, 0, 4, 8, 3]), rng.choice([0, 0, 8, 4, 5])]
    if r < 0.32:
        return {"dims": [w, h], "root": None, "conns": [[0, 0]]}
    eth = []
    for bx in range(0, w + 12, 12):
        for by in range(0, h + 12, 12):
            for dx, dy in ((0, 0), (4, 8), (8, 4)):
                e = [(bx + dx + root[0]) % w, (by + dy + root[1]) % h]
                if e not in eth:
                    eth.append(e)
    conns = [e for e in eth if rng.random() < 0.6]
    if rng.random() < 0.3:
        conns.append([rng.randrange(w), rng.randrange(h)])
    return {"dims": [w, h], "root": root, "conns": [c for i, c in enumerate(conns) if c not in conns[:i]]}


def systematic_cases(ctx, rng, reps):
    cases = []
    for (cls, name), sig in sorted(signatures().items()):
        cn = [n for n in sig["argNames"][1:] + [k for k, _ in sig["kwOnly"]] if n in ctx_names(cls)]
        try:
            Gen(rng, cls, random_cfg(rng, cls)).call(name, "positional")
        except UnknownMethod as e:
            ctx.broken.append("harness: %s" % e)
            ctx.extra.setdefault("methods_not_driven", []).append("%s.%s" % (cls, name))
            _SKIP.add((cls, name))
            continue
        for rep in range(reps):
            for style in ("positional", "keyword", "context", "default", "mixed"):
                for nesting in range(4):
                    cfg = random_cfg(rng, cls)
                    g = Gen(rng, cls, cfg)
                    if name == "application":
                        # the application context manager itself, in every style
                        body_call, need2 = g.call("send_signal", "context")
                        need2.pop("app_id", None)
                        st, need = g.call("application", style)
                        app = {"s": "app", "id": st["id"], "pos": st["pos"], "kw": st["kw"],
                               "stop_fails": nesting == 3, "body": [body_call] + ([{"s": "raise"}] if nesting == 2 else [])}
                        inner = [app]
                    else:
                        st, need = g.call(name, style)
                        inner = [st]
                    ctxd = [[k, v] for k, v in need.items()]
                    rng.shuffle(ctxd)
                    exc_exit = False
                    if nesting == 0:
                        prog = ([{"s": "update", "kv": ctxd}] if ctxd else []) + inner
                    elif nesting == 1:
                        prog = [{"s": "block", "id": g.fresh_id(), "ctx": ctxd + g.decoys([n for n in cn if n not in need and rng.random() < 0.5]),
                                 "body": inner}]
                    elif nesting == 2:
                        k = rng.randrange(len(ctxd) + 1)
                        over = ctxd[:k]
                        outer = ctxd[k:] + g.decoys([n for n, _ in over]) + g.decoys([n for n in cn if n not in need and rng.random() < 0.5])
                        rng.shuffle(outer)
                        prog = [{"s": "block", "id": g.fresh_id(), "ctx": outer,
                                 "body": [{"s": "block", "id": g.fresh_id(), "ctx": over, "body": inner}] + [g.call(name, "default")[0]]}]
                    else:
                        # a block that sets decoys is left by exception; the call follows in the restored context
                        exc_exit = True
                        bad = {"s": "block", "id": g.fresh_id(), "ctx": g.decoys(cn or ctx_names(cls)[:1]),
                               "body": [{"s": "block", "id": g.fresh_id(), "ctx": g.decoys((cn or ctx_names(cls))[:1]),
                                         "body": [{"s": "raise"}]}]}
                        prog = [{"s": "block", "id": g.fresh_id(), "ctx": ctxd, "body": [{"s": "try", "body": [bad]}] + inner}]
                    cases.append({"cls": cls, "cfg": cfg, "init": None, "prog": prog, "depth": nesting,
                                  "uses_ctx": bool(need), "exc_exit": exc_exit,
                                  "label": "%s.%s/%s/n%d" % (cls, name, style, nesting)})
    return cases


def random_prog(g, depth, budget):
    rng = g.rng
    cls = g.cls
    names = sorted(n for (c, n) in signatures() if c == cls and n not in ("application", "discover_connections")
                   and (c, n) not in _SKIP)
    prog = []
    n = rng.randrange(1, 4)
    for _ in range(n):
        if budget[0] <= 0:
            break
        budget[0] -= 1
        r = rng.random()
        if r < 0.40 or depth >= 4:
            st, need = g.call(rng.choice(names), rng.choice(["mixed", "mixed", "context", "default", "keyword", "positional"]),
                              caught=rng.random() < 0.8)
            # values that must come from a context: set them on the way (block or update), or leave them out
            if need and rng.random() < 0.7:
                kv = [[k, v] for k, v in need.items() if rng.random() < 0.85]
                if rng.random() < 0.5 and kv:
                    prog.append({"s": "block", "id": g.fresh_id(), "ctx": kv, "body": [st]})
                else:
                    if kv:
                        prog.append({"s": "update", "kv": kv})
                    prog.append(st)
            else:
                prog.append(st)
        elif r < 0.62:
            pool = ctx_names(cls) + ["tag", "clear", "foo"]
            sub = [nm for nm in pool if rng.random() < 0.4]
            ctxd = g.decoys([nm for nm in sub if nm in ctx_names(cls)]) + [[nm, rng.randrange(2)] for nm in sub if nm not in ctx_names(cls)]
            if rng.random() < 0.04:
                # the sentinel itself as a context value (not for names inner calls pick up: p, processor)
                ctxd.append([rng.choice([nm for nm in ctx_names(cls) if nm not in ("p", "processor")]), {"req": 1}])
            rng.shuffle(ctxd)
            prog.append({"s": "block", "id": g.fresh_id(), "ctx": ctxd, "body": random_prog(g, depth + 1, budget)})
        elif r < 0.74 and cls == "MachineController":
            style = rng.choice(["positional", "keyword", "context"])
            st, need = g.call("application", style)
            if need and rng.random() < 0.8:
                prog.append({"s": "update", "kv": [[k, v] for k, v in need.items()]})
            prog.append({"s": "app", "id": st["id"], "pos": st["pos"], "kw": st["kw"], "stop_fails": rng.random() < 0.2,
                         "body": random_prog(g, depth + 1, budget)})
        elif r < 0.82:
            prog.append({"s": "update", "kv": g.decoys([nm for nm in ctx_names(cls) if rng.random() < 0.4])})
        elif r < 0.92:
            prog.append({"s": "try", "body": random_prog(g, depth + 1, budget)})
        else:
            prog.append({"s": "raise"})
            break
    return prog


def has_exc_exit(prog, inside=False):
    for st in prog:
        if st["s"] == "raise" and inside:
            return True
        if st["s"] in ("block", "app") and has_exc_exit(st["body"], True):
            return True
        if st["s"] == "try" and has_exc_exit(st["body"], inside):
            return True
    return False


def random_cases(ctx, rng, n):
    cases = []
    for i in range(n):
        cls = "MachineController" if rng.random() < 0.75 else "BMPController"
        cfg = random_cfg(rng, cls)
        g = Gen(rng, cls, cfg)
        init = None
        if rng.random() < 0.3:
            init = g.decoys([nm for nm in ctx_names(cls) if rng.random() < 0.5])
        prog = random_prog(g, 0, [14])
        cases.append({"cls": cls, "cfg": cfg, "init": init, "prog": prog, "depth": 1, "uses_ctx": True,
                      "exc_exit": has_exc_exit(prog)})
    return cases


def check_signature_table(ctx):
    """every decorated method has a wire rule, and the model's table is the source's table"""
    r = ctx.lean([{"suite": "c18", "op": "sigs"}])[0]
    got = {(s["cls"], s["name"]): s for s in r}
    for key in signatures():
        s = got.get(key)
        if s is None:
            ctx.broken.append("translator: %s.%s missing from Gen/Signatures.lean" % key)
        elif not s["wf"]:
            ctx.broken.append("signature of %s.%s is not well-formed for the decorator" % key)
        elif s["body"] == 0 and key[1] != "application":
            ctx.broken.append("no wire rule for %s.%s (new decorated method: extend bodyOf)" % key)
    ctx.extra["decorated_methods"] = len(signatures())


def style_probe(ctx):
    """Observation (not a verdict): methods whose wire traffic differs between passing the same contextual
    values by keyword and through an enclosing context (inner calls that omit an argument pick it up
    from the context)."""
    import random
    differs = {}
    fixed = {"x": 3, "y": 5, "p": 7, "app_id": 40, "processor": 9, "cabinet": 0, "frame": 0, "board": 1}
    for (cls, name) in sorted(signatures()):
        if (cls, name) in _SKIP or name in ("application", "discover_connections"):
            continue
        cfg = {"dims": None, "root": None, "conns": []} if cls == "MachineController" else {"bmp_conns": [[0, 0]]}
        obs = []
        for style in ("keyword", "context"):
            g = Gen(random.Random(1), cls, cfg)
            st, need = g.call(name, style, ctxvals=dict(fixed))
            prog = [{"s": "block", "id": 99, "ctx": [[k, v] for k, v in need.items()], "body": [st]}] if need else [st]
            r = run_impl({"cls": cls, "cfg": cfg, "init": None, "prog": prog})
            ev = [e for e in r["events"] if e["ev"] == "call"]
            obs.append([(d["x"], d["y"], d["p"], d["cmd"], d["arg1"], d["arg2"]) for d in ev[0]["datagrams"]] if ev else None)
        if obs[0] != obs[1]:
            differs["%s.%s" % (cls, name)] = {"keyword": [list(t[:3]) for t in (obs[0] or [])][:3],
                                              "context": [list(t[:3]) for t in (obs[1] or [])][:3]}
    ctx.extra["wire_depends_on_passing_style"] = differs


def run(ctx):
    ctx.extra["rule"] = RULE
    ctx.assumptions += [
        "each with-block uses a fresh context object (the `with c(...)` / `with mc.application(..)` idiom), exits are LIFO as `with` guarantees",
        "board / led arguments are ints (iterables of boards are outside the generators)",
        "per-method wire rules (bodyOf) are a transcription validated by exhaustive-over-methods correspondence, not proved",
        "the fake connection answers every command successfully; SCP failure paths of method bodies (e.g. failed SDRAM allocation) are not driven",
    ]
    try:
        check_signature_table(ctx)
        rng = ctx.rng
        mult = 4 if ctx.extended else 1
        cases = systematic_cases(ctx, rng, ctx.scale(1, 6) * mult)
        cases += random_cases(ctx, rng, ctx.scale(400, 40000) * mult)
        for i in range(0, len(cases), 2000):
            evaluate(ctx, cases[i:i + 2000])
        style_probe(ctx)
        tapped = ctx.tags.get("tapped", 0)
        ctx.extra["closure_tap_calls"] = tapped
        missing = [k for k in signatures() if ("method:%s.%s" % ("mc" if k[0] == "MachineController" else "bmp", k[1])) not in ctx.tags
                   and k[1] != "application"]
        ctx.extra["methods_never_accepted"] = sorted("%s.%s" % k for k in missing)
        if missing:
            ctx.mismatch("c18.coverage", "methods never driven to an accepted call: %r" % (missing,), {})
    finally:
        if _APLX[0] and os.path.exists(_APLX[0]):
            os.unlink(_APLX[0])
            _APLX[0] = None


def replay(ctx, payload):
    ctx.extra["rule"] = RULE
    case = payload["case"]
    if "prog" not in case:
        return
    try:
        # re-register argument objects for tokens: regenerate a table from every method's plausible values
        import random
        r = random.Random(0)
        for (cls, name) in signatures():
            for _ in range(8):
                given, extra = method_args(cls, name, r)
                for o in list(given.values()) + list(extra):
                    obj_token(o)
        evaluate(ctx, [dict(case)])
    finally:
        if _APLX[0] and os.path.exists(_APLX[0]):
            os.unlink(_APLX[0])
            _APLX[0] = None
