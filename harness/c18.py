"""C18 - commands go to the chip, core and application the caller named.

Correspondence of rig/utils/contexts.py + the decorated methods of
MachineController / BMPController with the Lean model RigModel/Model/C18.lean,
and the Lean oracles (`destOk`, `connOkMc`, `connOkBmp`, `isStop`, restore) run
on the datagrams the real controllers hand to their connections.

The controllers' SCPConnection objects are replaced by fake connection objects
(no network): each records (connection, kind, x, y, p, cmd, arg1, arg2) of every
`send_scp` / `read` / `write` and answers with a canned reply.  Programs are
with-structured (blocks, application blocks, update_current_context, calls in
every passing style, raise, try/except) and are run statement by statement on
the real controller and by the model (`exec`).
"""
import ast
import json
import os
import re
import struct
import tempfile

CLAIM = dict(
    text=("Machine-checked proof (Lean 4), generic in the method signature and for ALL context stacks, call shapes and "
          "with-structured programs: a resolved argument is the explicit one, else that of the innermost context setting it, "
          "else the default, which is the one the source pairs with the parameter (precedence, default_param, default_kwonly, "
          "passing_styles_agree); a call with a Required argument left is rejected and emits nothing, and is "
          "accepted otherwise (required_rejected, accepted_complete, rejected_sends_nothing); the context stack holds context OBJECTS "
          "(heap of objects + stack of object names; `o = c(..)` / `o = mc.application(..)` create, `with o:` enters - a fresh "
          "object, one that is ALREADY ACTIVE anywhere below, or one used before): after any block - any object, any nesting, any "
          "well-bracketed enter/exit history with repeated objects, normal exit, exception at any depth, method bodies that fail "
          "after sending, any sequence of before_close callbacks (which may call methods, enter blocks, update the context or "
          "raise), failing stop signal - the stack of active contexts is exactly the one before: the block removes its own, newest "
          "entry and nothing else (exec_stack / restore, restore_block, restore_application, restore_inner, block_events, "
          "failing_call_unwinds), and the arguments in force are those before it unless update_current_context changed an object "
          "that is also active below (restore_arguments, restore_arguments_static, touched_subset); leaving the block of an "
          "application object sends the stop signal resolved to that object's application before any user callback runs, also "
          "when the object is entered again inside another application block; nested application blocks stop the inner "
          "application first and then the outer one (application_stops_object, application_stops, application_events, "
          "newApp_creates, nested_applications_stop_inner_first); the connection used "
          "is the local Ethernet chip's when known, the BMP's most specific one (connection_choice); the dimensions "
          "discover_connections stores are the two independent maxima over the chips the P2P table has a route to: they cover every "
          "working chip and are tight in each direction separately, the chip with the greatest x and the one with the greatest y "
          "need not be the same (discoveredDims_covers).  THE WIRE: for EVERY decorated "
          "method of the generated signature table, every argument passing and every stack, each request the method's rule emits "
          "(directly or through inner decorated calls, which are resolved again) is addressed to the chip (x, y) bound for the call "
          "- (255, 255) for methods without chip coordinates, data-computed chips only for the four methods documented to visit "
          "many - carries the call's application id, resp. goes to the call's (cabinet, frame, board) [first board of an iterable "
          "for set_led, board 0 for set_power] with the boards' mask (wire_carries_resolved = soundness of a symbolic execution of "
          "the rules, absWire_sound, + a decide over the 46 generated signatures x rules, rules_obey_signature_rule; bound_is_resolved "
          "ties the bound value to the precedence dictionary).  x, y and the application id of a request never depend on how the "
          "arguments were passed; the core p of inner requests does for exactly 17 methods, 5 of which take p themselves "
          "(chip_independent_of_passing_style, core_from_context_methods, core_style_dependent_methods, "
          "core_independent_of_passing_style).  THE METHOD BODIES ARE READ FROM THE SOURCE: on every run a translator "
          "(harness/gen/c18.py, an abstract interpretation of the AST of every context-decorated method of both controllers, with "
          "the undecorated helpers - _send_ffs/_send_ffcs/_send_ffd/_send_ffe, _get_vcpu_field_and_address - and the root_chip "
          "property inlined) extracts every self._send_scp(..), every connection.read/write on the connection of "
          "self._get_connection(x, y) and every inner decorated call, with its destination arguments classified as parameter / "
          "literal / data-computed / 1 << board or sum-of-shifts mask / first element, the application id resp. board mask read "
          "out of the command's packed argument (alloc_free, router load, signal, flood_fill_end; power, led), positional vs "
          "keyword, into Gen/C18Bodies.lean (genBody); the wire theorems are generic in the table of bodies and are "
          "re-established for the GENERATED one (gen_rules_obey_signature_rule, gen_rules_chip_known, gen_wire_carries_resolved, "
          "gen_chip_independent_of_passing_style, gen_core_independent_of_passing_style, gen_core_from_context_methods), and the "
          "hand-written bodyOf - kept as the table the oracle judges datagrams by, so that the judge does not follow the code - is "
          "proved to induce exactly the same set of symbolic requests (kind, chip, core, application id / cabinet, frame, board, "
          "mask) for every method (gen_rules_eq_hand, gen_wire_within_hand_rules, hand_wire_within_gen_rules); every decorated "
          "method is scanned and no send is left unclassified (gen_scanned_all, gen_no_unknown: a send the translator cannot "
          "classify becomes an explicit `unknown` request that fails every obligation); the only sends deferred to a callback are "
          "application's stop signal, the only lazy probe left out is scp_data_length's sver to (255, 255, 0) (gen_deferred, "
          "gen_lazy).  The two _send_scp primitives are read from the source too: MachineController's hands its own (x, y, p) to the "
          "connection _get_connection(x, y) names for the same chip (gen_mc_send); the model's bmpConnection IS the chain of "
          "lookups BMPController._send_scp performs - (cabinet, frame, board), then (cabinet, frame), else an error - for all "
          "connection tables and coordinates, and the datagram is addressed (0, 0, board) (gen_bmpConnection, gen_bmp_dest).  "
          "This covers all seven BMPController commands (which cabinet / frame / board and mask each carries, board 0 "
          "for set_power, first board for set_led).  The signature of every decorated method of both controllers is regenerated from "
          "source and proved well-formed for the decorator; every decorated method a decorated method calls directly in the "
          "source (AST, incl. bound methods handed to map) must be an inner call of its wire rule - count_cores_in_state's "
          "per-state self-dispatch included - else the check reports a broken obligation.  Tied to the code on every run: every decorated method x passing style "
          "(positional/keyword/context/default/mixed) x nesting, boards passed as lists / tuples, injected SCP failures at the "
          "n-th request, failed SDRAM / router allocation, applications that do not load, IOBUF chains, before_close callbacks "
          "(raising, re-entrant, on application contexts, registered once on a kept object), nested application blocks, context "
          "objects kept and entered again while active / after exit / from nested application blocks / with exceptions and "
          "update_current_context inside, an 'explicit != context != default' stream over ALL decorated methods (every contextual "
          "argument explicit, positionally and by keyword, under a block that sets every contextual name to something else), "
          "collection-valued arguments (boards, leds, states) as int / list / tuple / set / range / iterator / generator / map by "
          "position, keyword and context, discover_connections run for real on fake "
          "machines of several sizes (dead chips, Ethernet down, boards that do not answer) with every later datagram judged "
          "against the connection table in force when it was sent, plus random programs with all of these, run on the real "
          "controllers over recording fake connections; resolved keyword dictionaries, rejections, context snapshots compared "
          "exactly with the model, and the Lean oracles evaluated on every datagram (chip, core, application id / board mask, "
          "connection, stop signal)."),
    design="3/C18",
    note=("The per-method rules are no longer a hand transcription only: `genBody` is extracted from the source on every run and "
          "the theorems hold for it; `bodyOf` (hand-written, used by the oracle) is proved to give the same symbolic requests.  "
          "Trusted in that tie: the translator's abstract interpretation (statement order, branch joins - names assigned "
          "differently in two branches become `dyn` except the two isinstance(board, int) idioms -, loops kill the names they "
          "assign, comprehension targets are local, lambdas / nested functions are deferred, each shifted term of a packed "
          "argument fits below the next one), that sends happen only through self._send_scp / the connection of "
          "self._get_connection, and the command -> field table that mirrors the model's appOf / maskOf.  The rules are sets of "
          "requests: how often and in which order a method sends, and which branch sends, is still only validated by the "
          "exhaustive-over-methods correspondence (every datagram of the real method must match a pattern of the rule, and a "
          "method that sends nothing where the rule has patterns is a mismatch); values the rule marks `dyn` "
          "(addresses, chips found in tables) are not compared.  When the extracted rule of a method differs from the hand-written "
          "one the check reports a broken obligation naming the method and adds a focused stream (that method and every method "
          "whose rule calls it x every passing style x faults, under a block setting every contextual name to another value).  "
          "Observation, not a violation (the property speaks of the "
          "contextual arguments of the command the caller issued; x / y / app_id are unaffected - proved and observed): inner "
          "decorated calls that omit `p` take it from the context stack, so e.g. `mc.get_processor_status(3, 1, 2)` reads via core "
          "0 but `with mc(x=1, y=2, p=3): mc.get_processor_status()` via core 3; the 17 methods the model proves affected are "
          "exactly the ones observed (evidence: wire_depends_on_passing_style, core_follows_ambient_p).  Whether a method body "
          "fails (network error, failed allocation) is an input of the model taken from the run, not predicted.  After "
          "discover_connections the root chip and the SET of known connections are observed per datagram (connections are "
          "identified by the host they were opened to), but the machine DIMENSIONS are not taken from the controller: the Lean "
          "model computes them from the fake machine's P2P table as the code does (`discoveredDims`: table size minus the chips "
          "without a route at the time discover_connections read it), so a controller that stored other dimensions is judged by "
          "the right wrap-around.  F6 is fixed in the pinned tree: count_cores_in_state / "
          "wait_for_cores_to_reach_state / load_application are driven like every other method.  Restore verdict: after leaving "
          "a block the arguments in force must equal those before it whenever the Lean model says they are restored (they are "
          "not only when update_current_context inside the block changed an object that is also active below it - documented "
          "aliasing: an update made through an object that is also active below IS the caller updating that enclosing context; "
          "tagged exit:aliased-update, compared with the model exactly).  The board mask is the model's `maskVal` (the code's "
          "sum of 1 << b over the boards named, in whatever collection they come); that every named board's bit is set is "
          "checked on every datagram by exact comparison with it, not stated as a separate theorem.  A single-pass iterable "
          "serves one command (it is exhausted afterwards - also in the unchanged code): the generators give it one.  Not driven: one context object shared by "
          "two controllers (a context pushes onto the stack of the controller that created it), callbacks registered while the "
          "block is running.  HARDENING CHECKLIST - what each stream validates: (1 kinds) contextual ints also as 0 / False / True, "
          "IntEnum members and numpy.int64 (tags kind:*), chips over the full byte range on machines up to 256x256 and 1xN / Nx1, "
          "BMP coordinates up to cabinet/frame 255 and board 23, boards / leds / states as list, tuple, set, frozenset, range, "
          "dict keys view, iterator, generator, map, data as bytes / bytearray / memoryview, context names containing '%' and "
          "'{}', controllers that are instances of a user subclass; NOT applicable: ints beyond a byte (chip, core, application, "
          "board travel in 8-bit or narrower wire fields: app_id >= 256 overlaps the signal bits by design of the packet, so "
          "larger values are illegal, not unbounded), 32-bit numpy ints (`app_id << 24` overflows in numpy, not in rig), numpy "
          "ints as `board` of set_led / set_power (documented `int or iterable`, tested with isinstance), hashable identifiers "
          "other than str (context names are Python keyword names), subclasses of RoutingTableEntry etc. (data of a command, not "
          "its destination); (2 options) non-default values somewhere for: initial_context, get_software_version x/y/processor, "
          "read/write p, set_led action, sdram_alloc tag/clear, flood_fill_aplx wait, load_application wait / n_tries 0-2 / "
          "app_start_delay / use_count, wait_for_cores_to_reach_state count / poll_interval / timeout, set_power delay / "
          "post_power_on_delay, send_scp's pass-through arguments, discover_connections / get_system_info x/y, BMP hosts as one "
          "host name; left at default: scp_port, boot_port, n_tries, timeout, structs of the constructors (they go to the real "
          "SCPConnection / struct reader, which the recording fakes replace; C07 covers them), iptag_set addr (name resolution); "
          "(3 scale) 1100-1500 nested blocks (left by exception in half), contexts with 257-400 names, update with 300 names, "
          "connection tables of 256x256 / 240x252 machines (~1400 boards), 24x24 machines discovered for real; nothing in scope "
          "is counted in 8 or 16 bits except the wire fields above; (4 histories) every case is a history on one controller; "
          "twins A B A differing in one contextual argument (explicit / context); a second controller of the same class with its "
          "own block open, used alternately (judged as a case of its own); constructor defaults compared after every history "
          "(`default-context-changed` pins a leak between controllers on the history that caused it, so that a replay "
          "reproduces); (5 caller keeps and edits) the caller clears and re-uses the dictionaries it passed as initial_context / "
          "hosts, keeps the first 6 dictionaries get_context_arguments() handed back (re-checked at the end: c18.kept) and "
          "scribbles on all later ones; kept context objects are the re-entry streams; nothing in scope returns a lazy "
          "iterator; a list / iterator the caller put INTO a context is the caller's (aliasing like update_current_context); "
          "(6 faults) the n-th request of every MachineController method lost for n = 0..6, allocation failures, cores not "
          "loading, failing stop signal, raising callbacks, boards not answering during discovery - all followed by further "
          "commands on the same controller; (7 configuration) buffer size 16-1024, window size, per-chip core counts / link "
          "masks / version strings / system variables that differ between the chips of one case, machine sizes and roots; NOT "
          "varied: `_scp_data_length = None` (the lazily issued sver to (255, 255, 0) on first use is C07's subject and not part "
          "of the wire rules here); (8 non-termination) every method call runs under common.cpu_limit(5 s; 1 s after 3 hangs), "
          "`did-not-return` is a violation (the model's exec / wire are total functions), polling loops are also bounded by the "
          "fake clock; undocumented exceptions of a method body are reported as model/implementation mismatches (the property "
          "names no permitted failures other than the rejection of a missing argument)."),
    technique="Lean 4 theorems over a hand-written model + translator for signatures/constants/method bodies (wire rules) + differential correspondence + Lean spec as oracle")
CLAIM["note"] += (" UNOBSERVED RUNS (third session): every program of the reuse stream (kept context objects entered again: the canonical "
                  "loop `core = mc(p=3); for x, y in chips: with mc(x=x, y=y), core: command`, update / nested re-entry beneath a kept object, "
                  "random interleavings with optional commands) is run a second time with the harness NOT calling get_context_arguments() at "
                  "the block boundaries - the question itself can refresh what the implementation remembers between two commands; such runs "
                  "are judged by their commands (wire oracle) and the final context.")

THEOREMS = ["signatures_wellformed", "every_method_has_rule", "precedence", "precedence_accepted", "ctxLookup_innermost",
            "default_param", "default_kwonly", "passing_styles_agree",
            "required_rejected", "rejected_names_required", "accepted_complete", "rejected_sends_nothing",
            "restore", "restore_application", "restore_inner", "restore_arguments",
            "stop_targets_application", "application_stops", "connection_choice_mc", "connection_choice_bmp",
            # context objects (re-entered / reused)
            "restore_block", "restore_arguments_static", "enter_events", "application_stops_object", "newApp_creates",
            "discoveredDims_covers",
            # deepening round
            "application_events", "nested_applications_stop_inner_first", "block_events", "failing_call_unwinds",
            "rules_obey_signature_rule", "rules_chip_known", "carries_of_ruleOk", "wire_carries_resolved",
            "sent_carries_resolved", "bound_is_resolved", "chip_independent_of_passing_style",
            "core_from_context_methods", "core_style_dependent_methods", "core_independent_of_passing_style"]

RULE = ("systematic part: every decorated method of MachineController and BMPController x passing style (positional, keyword, "
        "context, default, mixed) x nesting (none, one block, two blocks with partial override, block left by exception then "
        "call), boards of set_power / set_led as ints, lists and tuples; every MachineController method x injected fault (SCP "
        "error at request 0 and at a later request, allocation returning 0, cores not reaching wait, IOBUF chain) inside a block "
        "with / without callbacks, caught / uncaught; 8 callback programs (callback calling a method in the closing context, body "
        "raising, callback raising with a later callback skipped, callback opening blocks and updating the context, user callback "
        "on an application context, failing stop signal, nested application blocks left by exception, BMP); discover_connections "
        "on fake machines up to 24x12 with dead chips / Ethernet down / boards not answering, followed by commands to chips of "
        "the machine over the discovered table; discover_connections on 12x12, 24x12, 12x24, 24x24, 36x24, 20x16, 13x17, 8x8, 16x28 "
        "machines (root at (0,0) / (4,8) / (8,4)) with dead chips drawn anywhere and preferably where the dimensions are read off "
        "(top of the last column, right end of the top row, whole last column / top row, the four corners, Ethernet chips; the top "
        "right corner dead in half of them), some Ethernet chips down / not answering, followed by commands to chips of EVERY board "
        "(its Ethernet chip, far corner, chips across the wrap-around), then another dead set, discover_connections again, commands "
        "again - every datagram judged against the dimensions computed from the P2P table; all other streams that use a fake "
        "machine draw dead chips the same way; 10 programs with kept context OBJECTS (a / b with the same arguments / a again "
        "with a command after every exit; application a / application(b) / a again; object used again after exit with an update "
        "made during the first use; one object entered from nested application blocks; exception raised inside the re-entered "
        "block; update_current_context inside the re-entered block; callbacks registered once on a kept object; BMP; a b a b a; "
        "random interleavings of three objects with overlapping arguments, blocks and raises); set_led / set_power x board as int, "
        "list, tuple, set, range, iterator, generator, map x positional / keyword / context (one command per context); every "
        "decorated method x {positional, keyword} with ALL its contextual arguments explicit inside a block that sets every "
        "contextual name of the controller to other values (initial context changed too in half of them), with random faults, "
        "application() included; leds and states (count_cores_in_state, wait_for_cores_to_reach_state) drawn from single "
        "values, lists, tuples, sets, frozensets, ranges, dict key views and single-pass iterables of names or AppState numbers in "
        "every generator; contextual ints now and then 0 / bool / IntEnum / numpy.int64; scale (a handful per run): 1100-1500 "
        "nested blocks, 257-400 names in one context, connection tables of 256x256 / 240x252 / 1x255 machines; twins A B A on one "
        "controller differing in one contextual argument, half of them with a second controller of the same class used "
        "alternately; every MachineController method with the n-th request lost, n = 0..6; environments (buffer size, window, "
        "per-chip replies, subclassed controllers, BMP single host name) drawn per case; random part: with-structured programs of depth <= 4 with blocks over random "
        "subsets of argument names, a pool of kept context / application objects entered any number of times, before_close "
        "callbacks, application blocks (explicit / contextual id, failing stop, user "
        "callbacks), update_current_context, raise, try/except, calls of random methods (incl. discover_connections) in random "
        "styles (incl. calls lacking required arguments) with random faults, over random connection tables (machine sizes, root "
        "chips, discovered Ethernet chips; BMP board/frame connections).  Contextual values are drawn pairwise distinct so that a "
        "swapped or stale value cannot match by accident.  Non-trivial: a program in which at least one call resolved an argument "
        "from a context or was rejected inside a block, or a block was left by exception.")

_APLX = [None]
MC_CTX = ["x", "y", "p", "app_id", "processor"]
BMP_CTX = ["cabinet", "frame", "board"]


# --------------------------------------------------------------------------
# fake connections
# --------------------------------------------------------------------------
class StopFailed(Exception):
    pass


class FakeTime(object):
    """stands in for the `time` module attribute of the controller modules: no real sleeping"""

    def __init__(self):
        self.now = 0.0
        self.calls = 0

    def sleep(self, s):
        self.calls += 1
        if self.calls > 5000:
            raise RuntimeError("runaway polling loop")
        self.now += max(float(s), 0.0)

    def time(self):
        self.now += 0.01
        return self.now


def fault_exceptions():
    from rig.machine_control.scp_connection import SCPError
    import rig.machine_control.machine_controller as m
    return (SCPError, m.SpiNNakerMemoryError, m.SpiNNakerRouterError, m.SpiNNakerLoadingError)


def fault_name(f):
    return "machine" if f is None else f if isinstance(f, str) else f[0]


def host_name(host):
    """connection name from the host string: `10.0.x.y` is the address the fake machine reports for chip (x, y)"""
    if isinstance(host, str) and host.startswith("10.0."):
        a = host.split(".")
        return [int(a[2]), int(a[3])]
    return None


class FakeConn(object):
    def __init__(self, name, log, mem, state):
        self.name, self.log, self.mem, self.state = name, log, mem, state

    def _record(self, entry):
        w = self.state.get("world")
        if w is not None and w.cls == "MachineController":
            snap = w.snapshot()
            if snap != w.base_snap:
                entry["cfg"] = snap      # the connection table in force now is not the one of the case
        self.log.append(entry)
        # fault injection: the n-th request of this call is not answered
        f = self.state.get("fault")
        n = self.state.get("req_no", 0)
        self.state["req_no"] = n + 1
        if isinstance(f, list) and f[0] == "scp_err" and f[1] == n:
            from rig.machine_control.scp_connection import SCPError
            raise SCPError("injected: no reply")

    def _reply(self, x, y, cmd, arg1, arg2, arg3, p=0):
        from rig.machine_control.packets import SCPPacket
        from rig.machine_control.consts import SCPCommands as C
        from rig.machine_control.scp_connection import SCPError
        mach = self.state.get("machine") or {}
        fault = self.state.get("fault")
        a1 = a2 = a3 = 0
        data = b""
        if cmd == C.sver:
            if self.name is not None and len(self.name) == 2 and self.name in mach.get("sver_fail", []):
                raise SCPError("injected: board does not answer")
            rx, ry = mach.get("root", [0, 0])
            px, py = (rx, ry) if (x, y) == (255, 255) else (x, y)
            a1 = (px << 24) | (py << 16)
            a2 = (0xFFFF << 16) | 256
            env = self.state.get("env") or {}
            data = (b"SARK/SpiNNaker\x002.0.1\x00" if env.get("chip_vars") and p % 2 else b"SC&MP/SpiNNaker\x002.1.0\x00")
        elif cmd == C.alloc_free:
            a1 = 0 if fault == "alloc0" else 0x60000000
        elif cmd == C.info:
            if [x, y] in mach.get("info_fail", []):
                raise SCPError("injected: chip does not answer")
            up = 0 if [x, y] in mach.get("eth_down", []) else (1 << 25)
            env = mach.get("env") or self.state.get("env") or {}
            cores = 1 + (x * 7 + y * 3 + env.get("salt", 0)) % 18 if env.get("chip_vars") else 18
            a1 = cores | (((x * 5 + y) % 64 if env.get("chip_vars") else 0x3f) << 8) | up
            ip = 10 | ((x & 0xff) << 16) | ((y & 0xff) << 24)
            data = bytes(18) + struct.pack("<HI", 0, ip)
        elif cmd == C.iptag:
            data = bytes(32)
        elif cmd == C.link_read:
            data = bytes(arg2)
        elif cmd == C.bmp_info:
            data = bytes(struct.calcsize("<8H4h4h4hII"))
        elif cmd == C.signal:
            a1 = 0 if fault == "notwait" else 1
        return SCPPacket(cmd_rc=0x80, arg1=a1, arg2=a2, arg3=a3, data=data)

    def send_scp(self, buffer_size, x, y, p, cmd, arg1=0, arg2=0, arg3=0, data=b'', expected_args=3, timeout=0.0):
        self._record({"kind": self.state["kind"], "conn": self.name, "x": int(x), "y": int(y), "p": int(p),
                      "cmd": int(cmd), "arg1": int(arg1), "arg2": int(arg2)})
        if self.state.get("fail_signal") and int(cmd) == 22:
            self.state["fail_signal"] = False
            raise StopFailed()
        return self._reply(int(x), int(y), cmd, arg1, arg2, arg3, int(p))

    def read(self, buffer_size, window_size, x, y, p, address, length_bytes):
        self._record({"kind": "mem", "conn": self.name, "x": int(x), "y": int(y), "p": int(p),
                      "cmd": 2, "arg1": int(address), "arg2": int(length_bytes)})
        v = self.mem.get(address)
        if v is not None:
            return v[:length_bytes].ljust(length_bytes, b"\0")
        if length_bytes == 1 and self.state.get("fault") != "notwait":
            return b"\x05"                      # a core's cpu_state: AppState.wait (the application loaded)
        if self.state.get("fault") == "iobuf" and length_bytes == 4:
            return struct.pack("<I", 0x1000)    # non-zero IOBUF pointer: get_iobuf_bytes follows it once
        if length_bytes == 4 and (self.state.get("env") or {}).get("chip_vars"):
            # per-chip system variables (vcpu_base, sdram_sys, iobuf_size, ...) differ from chip to chip
            return struct.pack("<I", 0x60000000 + 0x1000 * ((int(x) * 31 + int(y)) % 97))
        return bytes(length_bytes)

    def write(self, buffer_size, window_size, x, y, p, address, data):
        self._record({"kind": "mem", "conn": self.name, "x": int(x), "y": int(y), "p": int(p),
                      "cmd": 3, "arg1": int(address), "arg2": len(data)})

    def close(self):
        pass


class World(object):
    """one controller with fake connections"""

    def __init__(self, cls, cfg, init):
        self.cls, self.cfg = cls, cfg
        self.log, self.mem = [], {}
        self.objs, self.active = {}, []      # kept context objects by name; the with-blocks being executed
        self.entered = set()
        self.state = {"kind": "scp" if cls == "MachineController" else "bmp", "world": self,
                      "machine": dict(cfg["machine"]) if cfg.get("machine") else None, "env": cfg.get("env")}
        self.dims_seen, self.dims_src, self.dead_at_discover = None, None, []
        self.base_snap = None
        if cls == "MachineController":
            import rig.machine_control.machine_controller as m
            self.real_conn = m.SCPConnection
            # every SCPConnection the controller opens (the initial one, and those of discover_connections)
            # is a recording fake named after the host it was opened to
            m.SCPConnection = lambda host, *a, **k: FakeConn(host_name(host), self.log, self.mem, self.state)
            klass = m.MachineController
            if cfg.get("subclass"):
                # an application's own subclass of the controller (the context mechanism is inherited)
                class Sub(m.MachineController):
                    def __init__(self, *a, **k):
                        super(Sub, self).__init__(*a, **k)
                        self.own_attribute = 1
                klass = Sub
            try:
                init_d = py_dict(init) if init is not None else None
                self.c = klass("nohost", initial_context=init_d) if init is not None else klass("nohost")
                if init_d is not None:
                    init_d.clear()                  # the caller goes on using its own dictionary
                    init_d["x"] = 12345
            except Exception:
                m.SCPConnection = self.real_conn
                raise
            self.mod = m
            env = cfg.get("env") or {}
            self.c._scp_data_length = env.get("buf", 256)
            self.c._window_size = env.get("win")
            self.load_machine()
            self.apply_cfg()
            self.base_snap = self.snapshot()
        else:
            import rig.machine_control.bmp_controller as b
            real = b.SCPConnection
            b.SCPConnection = lambda host, *a, **k: FakeConn([0, 0] if isinstance(host, str) else list(host),
                                                             self.log, self.mem, self.state)
            klass = b.BMPController
            if cfg.get("subclass"):
                class SubB(b.BMPController):
                    pass
                klass = SubB
            try:
                # a single host name stands for all boards of cabinet 0, frame 0
                hosts = "bmp-host" if cfg.get("host_str") else {tuple(k): tuple(k) for k in cfg["bmp_conns"]}
                init_d = py_dict(init) if init is not None else None
                self.c = klass(hosts, initial_context=init_d) if init is not None else klass(hosts)
                if init_d is not None:
                    init_d.clear()
                    init_d["board"] = 12345
                if isinstance(hosts, dict):
                    hosts.clear()                   # the caller's dictionary of hosts is its own
            finally:
                b.SCPConnection = real
            self.mod = b
            self.c._scp_data_length = (cfg.get("env") or {}).get("buf", 256)

    def close(self):
        if self.cls == "MachineController":
            self.mod.SCPConnection = self.real_conn

    def load_machine(self):
        """memory image of the fake machine: P2P table dimensions and routes (dead chips have no route)"""
        from rig.machine_control import consts
        mach = self.state.get("machine") or {}
        mw, mh = mach.get("dims", [2, 2])
        sv = self.c.structs[b"sv"]
        self.mem[sv.base + sv[b"p2p_dims"].offset] = struct.pack("<H", (mw << 8) | mh)
        dead = {tuple(d) for d in mach.get("dead", [])}
        for col in range(mw):
            words = []
            for w0 in range(0, mh, 8):
                word = 0
                for e in range(min(8, mh - w0)):
                    if (col, w0 + e) in dead:
                        word |= 6 << (3 * e)
                words.append(word)
            self.mem[consts.SPINNAKER_RTR_P2P + (((256 * col) // 8) * 4)] = struct.pack("<%dI" % len(words), *words)

    def apply_cfg(self):
        c, cfg = self.c, self.cfg
        dims, root = cfg.get("dims"), cfg.get("root")
        c._width, c._height = (dims[0], dims[1]) if dims else (None, None)
        c._root_chip = tuple(root) if root else None
        c.connections = {None: c.connections[None]}
        for (x, y) in cfg.get("conns", []):
            c.connections[(x, y)] = FakeConn([x, y], self.log, self.mem, self.state)

    def set_dead(self, dead):
        """chips of the fake machine die / come back: the P2P table changes"""
        self.state["machine"] = dict(self.state.get("machine") or {}, dead=[list(d) for d in dead])
        self.load_machine()

    def snapshot(self):
        """what `_get_connection` looks at, now.  Root chip and the set of known connections are read off the
        controller; the DIMENSIONS are not: once discover_connections has (re)written them, the snapshot names the
        machine they were computed from (its P2P table size and the chips that had no route when it was read) and
        the Lean model computes what the code computes from that (`discoveredDims`) - a controller that stored
        something else picks its connections by the wrong wrap-around"""
        c = self.c
        obs = (c._width, c._height)
        if self.dims_seen is None:
            self.dims_seen = obs            # (first call: the dimensions apply_cfg installed)
        elif obs != self.dims_seen:
            self.dims_seen = obs
            mach = self.state.get("machine") or {}
            self.dims_src = {"mdims": list(mach.get("dims", [2, 2])), "dead": sorted(self.dead_at_discover)}
        dims = [c._width, c._height] if c._width is not None and c._height is not None else None
        root = [int(c._root_chip[0]), int(c._root_chip[1])] if c._root_chip is not None else None
        snap = {"dims": dims, "root": root, "conns": sorted([int(k[0]), int(k[1])] for k in c.connections if k is not None)}
        if self.dims_src is not None and dims is not None:
            snap["from_machine"] = self.dims_src
        return snap


# --------------------------------------------------------------------------
# values
# --------------------------------------------------------------------------
_WRAPPED = {}      # id(one-shot iterator) -> the protocol value it was made from
_KEEP = []         # keeps those iterators alive (ids must stay unique during a run)
ONE_SHOT = ("iter", "gen", "map")
REITERABLE = ("list", "tuple", "set", "frozenset", "range", "keys")
KINDS = REITERABLE + ONE_SHOT
INT_KINDS = ("enum", "np64")      # (32-bit numpy ints overflow in `app_id << 24`: numpy semantics, not rig's)
_ENUMS = {}


def int_of_kind(n, kind):
    """the int `n` as an IntEnum member / numpy integer (both are legal wherever rig takes an int)"""
    if kind == "enum":
        if n not in _ENUMS:
            import enum
            _ENUMS[n] = enum.IntEnum("K%s" % str(n).replace("-", "m"), {"member": n})
        return _ENUMS[n].member
    import numpy
    return numpy.int64(n) if kind == "np64" else numpy.int32(n)


def wrap(kind, items, canon):
    """the Python collection of `kind` holding `items` (in this iteration order)"""
    items = list(items)
    if kind == "list":
        return items
    if kind == "tuple":
        return tuple(items)
    if kind == "set":
        return set(items)
    if kind == "frozenset":
        return frozenset(items)
    if kind == "keys":
        return dict.fromkeys(items).keys()
    if kind in ("bytearray", "memoryview"):
        return bytearray(items) if kind == "bytearray" else memoryview(bytes(items))
    if kind == "range":
        return range(items[0], items[-1] + 1)
    o = iter(items) if kind == "iter" else (t for t in items) if kind == "gen" else map(lambda t: t, items)
    _WRAPPED[id(o)] = canon       # a single-pass iterable cannot be looked into without consuming it
    _KEEP.append(o)
    return o


def ints_token(items, kind, rng=None):
    """protocol value for a collection of ints of the given kind (the model sees the iteration order)"""
    items = list(items)
    if kind in ("set", "frozenset"):
        items = list(set(items))
    if kind == "range":
        items = list(range(min(items), min(items) + len(set(items))))
    return {"l": items} if kind == "list" else {"l": items, "k": kind}


def to_val(v):
    """Python value -> JSON value of the line protocol (Val of the model)"""
    from rig.utils.contexts import Required
    if v is Required:
        return {"req": 1}
    if id(v) in _WRAPPED:
        return _WRAPPED[id(v)]
    if isinstance(v, (set, frozenset, range, type({}.keys()))) and v and \
            all(isinstance(t, int) and not isinstance(t, bool) for t in v):
        return {"l": [int(t) for t in v]}
    if isinstance(v, (bytearray, memoryview)):
        return {"o": repr(bytes(v))}
    if not isinstance(v, (int, bool)) and type(v).__module__ == "numpy" and hasattr(v, "__index__"):
        return int(v)
    if v is None or isinstance(v, bool):
        return v
    if isinstance(v, int):
        return int(v)
    if isinstance(v, (list, tuple)) and v and all(isinstance(t, int) and not isinstance(t, bool) for t in v):
        return {"l": [int(t) for t in v]}
    if isinstance(v, str) and v == _APLX[0]:
        return {"o": "<aplx>"}
    if isinstance(v, list) and v and type(v[0]).__name__ == "RoutingTableEntry":
        return {"o": "<rte>"}
    if isinstance(v, dict) and v and all(isinstance(t, list) and t and type(t[0]).__name__ == "RoutingTableEntry"
                                         for t in v.values()):
        return {"o": "<rt:%s>" % ";".join("%d,%d" % k for k in sorted(v))}
    return {"o": repr(v)[:80]}


def from_val(v, objs=None):
    """JSON value -> Python object"""
    from rig.utils.contexts import Required
    if isinstance(v, dict):
        if "req" in v:
            return Required
        if "l" in v:
            return wrap(v.get("k") or ("tuple" if v.get("t") else "list"), v["l"], {"l": list(v["l"])})
        if "n" in v:
            return int_of_kind(v["n"], v.get("k"))
        t = v["o"]
        if v.get("k") in ONE_SHOT + ("bytearray", "memoryview"):
            return wrap(v["k"], ast.literal_eval(t), {"o": t})
        if t == "<aplx>":
            return aplx_file()
        if t == "<rte>" or t.startswith("<rt:"):
            from rig.routing_table import RoutingTableEntry, Routes
            rte = [RoutingTableEntry({Routes.east}, 1, 0xff)]
            if t == "<rte>":
                return rte
            return {tuple(int(a) for a in k.split(",")): rte for k in t[4:-1].split(";")}
        try:
            return ast.literal_eval(t)
        except Exception:
            return t
    return v


def py_dict(pairs, objs=None):
    return {k: from_val(v) for k, v in pairs}


_OBJS = {}


def obj_token(o):
    if isinstance(o, dict) and ("l" in o or "o" in o or "n" in o):
        return o                     # already a protocol value (a collection of ints, a one-shot iterable)
    return to_val(o)


def aplx_file():
    if _APLX[0] is None or not os.path.exists(_APLX[0]):
        f = tempfile.NamedTemporaryFile(prefix="c18_", suffix=".aplx", delete=False)
        f.write(b"\0" * 64)
        f.close()
        _APLX[0] = f.name
    return _APLX[0]


def some_bytes(rng):
    """`data` as bytes, bytearray, memoryview"""
    r = rng.random()
    return b"abcd" if r < 0.5 else {"o": "b'abcd'", "k": "bytearray" if r < 0.75 else "memoryview"}


def some_leds(rng):
    """`led : int or iterable`"""
    if rng.random() < 0.5:
        return rng.randrange(8)
    return ints_token(rng.sample(range(8), rng.randrange(1, 4)), rng.choice(KINDS))


def some_states(rng):
    """`state : string, AppState value or iterable of them`"""
    r = rng.random()
    if r < 0.25:
        return rng.choice(["wait", "run", 7])
    names = rng.sample(["wait", "run", "sync0", "sync1", "pause", "init"], rng.randrange(1, 4))
    if r < 0.45:
        return names
    if r < 0.6:
        return tuple(names)
    if r < 0.8:
        return {"o": repr(names), "k": rng.choice(ONE_SHOT)}
    return ints_token(rng.sample([4, 5, 6, 7, 8, 9], rng.randrange(1, 4)), rng.choice(KINDS))


def method_args(cls, name, rng):
    """plausible values of the NON-contextual parameters: ({param: value}, [extra positional])"""
    from rig.links import Links
    from rig.routing_table import RoutingTableEntry, Routes
    from rig.machine_control.consts import SCPCommands
    if cls == "BMPController":
        t = dict(send_scp=({}, [SCPCommands.sver]), get_software_version=({}, []),
                 set_power=(dict(state=rng.random() < 0.5, delay=rng.choice([0.0, 0.05]),
                                 post_power_on_delay=rng.choice([0.0, 0.5])), []),
                 set_led=(dict(led=some_leds(rng), action=rng.choice([None, True, False])), []),
                 read_fpga_reg=(dict(fpga_num=rng.randrange(3), addr=4 * rng.randrange(64)), []),
                 write_fpga_reg=(dict(fpga_num=rng.randrange(3), addr=4 * rng.randrange(64), value=rng.randrange(1 << 32)), []),
                 read_adc=({}, []))
        return t[name]
    rte = [RoutingTableEntry({Routes.east}, 1, 0xff)]
    tx, ty = rng.randrange(2, 9), rng.randrange(2, 9)
    aligned = rng.random() < 0.5
    t = dict(
        send_scp=(dict(__extra_kw__=rng.choice([{}, {"expected_args": 0}, {"arg2": 5, "timeout": 0.25}])),
                  rng.choice([[SCPCommands.led, 1], [SCPCommands.ver if hasattr(SCPCommands, "ver") else SCPCommands.sver]])),
        discover_connections=({}, []), application=({}, []),
        get_software_version=({}, []), get_ip_address=({}, []),
        write=(dict(address=0x100, data=some_bytes(rng)), []), read=(dict(address=0x100, length_bytes=4), []),
        write_across_link=(dict(address=0x100, data=some_bytes(rng), link=rng.choice(list(Links))), []),
        read_across_link=(dict(address=0x100, length_bytes=4, link=Links.north), []),
        read_struct_field=(dict(struct_name="sv", field_name="p2p_dims"), []),
        write_struct_field=(dict(struct_name="sv", field_name="p2p_dims", values=5), []),
        read_vcpu_struct_field=(dict(field_name="cpu_state"), []),
        write_vcpu_struct_field=(dict(field_name="user0", value=7), []),
        get_processor_status=({}, []), get_iobuf=({}, []), get_iobuf_bytes=({}, []), get_router_diagnostics=({}, []),
        iptag_set=(dict(iptag=1, addr="127.0.0.1", port=5000), []), iptag_get=(dict(iptag=1), []),
        iptag_clear=(dict(iptag=1), []), set_led=(dict(led=some_leds(rng), action=rng.choice([None, True, False])), []),
        fill=(dict(address=0x100, data=0, size=8 if aligned else 7), []),
        sdram_alloc=(dict(size=8, tag=rng.randrange(2), clear=rng.random() < 0.5), []),
        sdram_alloc_as_filelike=(dict(size=8, tag=rng.randrange(2), clear=rng.random() < 0.5), []),
        sdram_free=(dict(ptr=0x100), []),
        flood_fill_aplx=(dict(wait=rng.random() < 0.5), [aplx_file(), {(tx, ty): {3}}]),
        load_application=(dict(wait=rng.random() < 0.5, app_start_delay=rng.choice([0.0, 0.01]), n_tries=rng.choice([0, 1, 2]),
                               __extra_kw__=rng.choice([{}, {}, {"use_count": False}, {"use_count": True}])),
                          [aplx_file(), {(tx, ty): {3}}]),
        send_signal=(dict(signal=rng.choice(["stop", "start", "sync0"])), []),
        count_cores_in_state=(dict(state=some_states(rng)), []),
        wait_for_cores_to_reach_state=(dict(state=some_states(rng), count=rng.choice([0, 1, 1]),
                                            poll_interval=rng.choice([0.0, 0.5]), timeout=rng.choice([None, 2.0])), []),
        load_routing_tables=(dict(routing_tables={(tx, ty): rte}), []),
        load_routing_table_entries=(dict(entries=rte), []),
        get_routing_table_entries=({}, []), clear_routing_table_entries=({}, []), get_p2p_routing_table=({}, []),
        get_chip_info=({}, []), get_working_links=({}, []), get_num_working_cores=({}, []), get_system_info=({}, []))
    return t[name]


# --------------------------------------------------------------------------
# closure tap: observe f(self, *args, **new_kwargs) inside the decorator's wrapper
# --------------------------------------------------------------------------
_TAP = {"depth": 0, "rec": None, "installed": {}}
_HANGS = [0]


def install_tap(klass):
    if klass in _TAP["installed"]:
        return _TAP["installed"][klass]
    n = 0
    for name, fn in list(vars(klass).items()):
        clo = getattr(fn, "__closure__", None)
        if not clo or "kw_only_args_defaults" not in fn.__code__.co_freevars:
            continue
        fv = fn.__code__.co_freevars
        if "f" not in fv:
            continue
        cell = clo[fv.index("f")]
        orig = cell.cell_contents
        if getattr(orig, "_c18_tap", False):
            n += 1
            continue

        def mk(orig):
            def tapped(self, *args, **kwargs):
                if _TAP["depth"] == 0 and _TAP["rec"] is None:
                    _TAP["rec"] = (len(args), list(kwargs.items()))
                _TAP["depth"] += 1
                try:
                    return orig(self, *args, **kwargs)
                finally:
                    _TAP["depth"] -= 1
            tapped._c18_tap = True
            tapped.__name__ = getattr(orig, "__name__", "f")
            return tapped
        try:
            cell.cell_contents = mk(orig)
            n += 1
        except Exception:
            pass
    _TAP["installed"][klass] = n
    return n


# --------------------------------------------------------------------------
# running a program on the real controller
# --------------------------------------------------------------------------
class Unwind(Exception):
    """the program's own `raise`"""


_UNOBSERVED = [False]


def merged_of(c):
    """`get_context_arguments()`, canonical; the caller then keeps the dictionary it was handed (the first few,
    re-checked at the end of the history) or scribbles on it (all others).
    In an UNOBSERVED case (case["unobserved"]) the harness does not ask: a user's program issues commands, it does not
    call get_context_arguments() at every block boundary, and the question itself may refresh what the implementation
    remembers between two commands; such cases are judged by their commands (wire oracle) and the final context only."""
    if _UNOBSERVED[0]:
        return None
    try:
        d = c.get_context_arguments()
    except Exception as e:      # (RecursionError on a deep stack, ...): shows up as a difference from the model
        return [["<get_context_arguments>", {"o": type(e).__name__}]]
    out = sorted(([k, to_val(v)] for k, v in d.items()), key=lambda kv: kv[0])
    kept = c.__dict__.setdefault("_c18_kept", [])
    if len(kept) < 6:
        kept.append((d, dict(d)))
    else:
        d.clear()
        d["x"] = d["app_id"] = d["board"] = "scribbled"
    return out


def do_call(w, m, pos, kw, events, ev_id, fault=None):
    """call a decorated method; returns (result, exception to propagate or None, rejected?, body failed?)"""
    c, log = w.c, w.log
    i0 = len(log)
    _TAP["rec"], _TAP["depth"] = None, 0
    args = [from_val(v, _OBJS) for v in pos]
    kwargs = py_dict(kw, _OBJS)
    exc, out, res = None, None, None
    w.state["fault"], w.state["req_no"] = fault, 0
    if m == "discover_connections":
        # the P2P table this call is going to read
        w.dead_at_discover = [list(d) for d in (w.state.get("machine") or {}).get("dead", [])]
    from harness import common
    try:
        # the model's `exec` / `wire` are total; a call of the implementation takes milliseconds here: one that is
        # still running after 5 s of CPU time (1 s once that has happened 3 times) is reported as not returning
        with common.cpu_limit(5 if _HANGS[0] < 3 else 1):
            res = getattr(c, m)(*args, **kwargs)
        out = {"sent": True}
    except common.ImplHang as e:
        _HANGS[0] += 1
        exc = RuntimeError(str(e))
        out = {"sent": True, "hang": str(e)[:120], "failed": "DidNotReturn"}
    except TypeError as e:
        exc = e
        mm = re.match(r"^(\w+): missing argument (\w+)$", str(e))
        if mm and _TAP["rec"] is None:
            out = {"rejected": {"missing": mm.group(2)}}
        elif _TAP["rec"] is None and len(log) == i0:
            out = {"rejected": "bind"}
        else:
            out = {"sent": True, "body_exc": "TypeError: " + str(e)[:80]}
    except AssertionError as e:
        exc = e
        if "No connection available" in str(e) and len(log) == i0:
            out = {"rejected": "noconn"}
        else:
            out = {"sent": True, "body_exc": "AssertionError: " + str(e)[:80]}
    except fault_exceptions() as e:
        exc = e
        out = {"sent": True, "failed": type(e).__name__}
        if fault is None and "injected" not in str(e):
            out["body_exc"] = "%s: %s" % (type(e).__name__, str(e)[:80])
    except Exception as e:  # noqa
        exc = e
        out = {"sent": True, "body_exc": "%s: %s" % (type(e).__name__, str(e)[:80])}
    finally:
        w.state["fault"] = None
    if "body_exc" in out:
        out["failed"] = out["body_exc"].split(":")[0]
    if _TAP["rec"] is not None:
        out["npos"] = _TAP["rec"][0]
        out["kwargs"] = [[k, to_val(v)] for k, v in _TAP["rec"][1]]
    events.append({"ev": "call", "id": ev_id, "m": m, "out": out, "datagrams": log[i0:], "fault": fault})
    return res, exc, "rejected" in out, "failed" in out


def register_callbacks(w, cm, cb, events):
    """`cm.before_close(fn)`: fn runs the statements of `cb` inside the context being closed - on EVERY exit of
    this context object (callbacks stay registered on the object)"""
    def callback():
        top = w.active[-1]
        if top["cbmark"] is None:
            top["cbmark"] = len(w.log)
        run_prog(w, cb, events)
    cm.before_close(callback)


def enter_object(w, st, cm, is_app, events, body_fn=None):
    """`with cm: body` for a context object that may be fresh, active already, or used before"""
    c = w.c
    before = merged_of(c)
    frame = {"cbmark": None, "cm": cm}
    kind = "active-already" if any(f["cm"] is cm for f in w.active) else "used-before" if id(cm) in w.entered else "fresh"
    w.entered.add(id(cm))
    mark = [len(w.log)]
    entered = [False]
    try:
        with cm:
            entered[0] = True
            w.active.append(frame)
            events.append({"ev": "enter", "id": st["id"], "merged": merged_of(c), "object": kind})
            try:
                if body_fn is not None:
                    body_fn()
                else:
                    run_prog(w, st["body"], events)
            finally:
                mark[0] = len(w.log)
                if is_app and st.get("stop_fails"):
                    w.state["fail_signal"] = True
    finally:
        w.state["fail_signal"] = False
        if entered[0]:
            w.active.pop()
            end = frame["cbmark"] if frame["cbmark"] is not None else len(w.log)
            events.append({"ev": "exit", "id": st["id"], "merged": merged_of(c), "before": before,
                           "app": is_app, "datagrams": w.log[mark[0]:end], "cb": frame["cbmark"] is not None})


def run_prog(w, prog, events, hook=None):
    c = w.c
    for st in prog:
        if hook is not None:
            hook()          # (top level only: the other controller's next command)
        s = st["s"]
        if s == "raise":
            raise Unwind()
        elif s == "call":
            _, exc, rejected, failed = do_call(w, st["m"], st["pos"], st["kw"], events, st["id"], st.get("fault"))
            if (rejected or failed) and not st["caught"]:
                raise exc
        elif s == "update":
            c.update_current_context(**py_dict(st["kv"], _OBJS))
        elif s == "try":
            try:
                run_prog(w, st["body"], events)
            except Exception:
                pass
        elif s in ("block", "new"):
            cm = c(**py_dict(st["ctx"], _OBJS))
            if st.get("cb"):
                register_callbacks(w, cm, st["cb"], events)
            if s == "new":
                w.objs[st["oid"]] = (cm, False)      # kept: entered by later `enter` statements, any number of times
            else:
                enter_object(w, st, cm, False, events)
        elif s in ("app", "newapp"):
            n0 = len(events)
            cm, exc, rejected, _ = do_call(w, "application", st["pos"], st["kw"], events, st["id"])
            if rejected:
                raise exc
            events.pop()        # an accepted application() call is reported by the enter event
            assert len(events) == n0
            if st.get("cb"):
                register_callbacks(w, cm, st["cb"], events)
            if s == "newapp":
                w.objs[st["oid"]] = (cm, True)
            else:
                enter_object(w, st, cm, True, events)
        elif s == "machine":
            w.set_dead(st["dead"])
        elif s == "enter":
            cm, is_app = w.objs[st["oid"]]
            enter_object(w, st, cm, is_app, events)
        elif s == "deep":
            # st["n"] nested `with c(**ctxs[i % k]):` blocks around the body (written flat: neither the harness
            # nor the JSON encoder should be what limits the depth)
            import contextlib

            def left(sid, before):
                events.append({"ev": "exit", "id": sid, "merged": merged_of(c), "before": before, "app": False,
                               "datagrams": [], "cb": False})
            with contextlib.ExitStack() as stack:
                for i in range(st["n"]):
                    cm = c(**py_dict(st["ctxs"][i % len(st["ctxs"])], _OBJS))
                    stack.callback(left, st["id"] + i, merged_of(c))
                    stack.enter_context(cm)
                    events.append({"ev": "enter", "id": st["id"] + i, "merged": merged_of(c), "object": "fresh"})
                run_prog(w, st["body"], events)
        else:
            raise ValueError(s)


def run_impl(case):
    _WRAPPED.clear()
    del _KEEP[:]
    if _DEFAULTS[0] is None:
        _DEFAULTS[0] = default_contexts()
    w = World(case["cls"], case["cfg"], case.get("init"))
    _UNOBSERVED[0] = bool(case.get("unobserved"))
    events = []
    raised = [False]
    real_time = w.mod.time
    w.mod.time = FakeTime()
    comp, w2, events2 = case.get("companion"), None, []

    def first(hook=None):
        try:
            run_prog(w, case["prog"], events, hook)
        except Unwind:
            raised[0] = True
        except (TypeError, AssertionError, StopFailed, RuntimeError) + fault_exceptions():
            raised[0] = True
    try:
        install_tap([k for k in type(w.c).__mro__ if k.__module__.startswith("rig.")][0])
        if comp is None:
            first()
        else:
            # a second controller of the same class, with a block of its own open during the whole program of the
            # first one; its commands are issued between the first one's top-level statements
            w2 = World(case["cls"], case["cfg"], comp["init"])
            todo = list(comp["calls"])

            def other():
                if todo:
                    st = todo.pop(0)
                    do_call(w2, st["m"], st["pos"], st["kw"], events2, st["id"])

            def both():
                first(other)
                while todo:
                    other()
            enter_object(w2, {"id": 900000}, w2.c(**py_dict(comp["ctx"], _OBJS)), False, events2, body_fn=both)
    finally:
        w.mod.time = real_time
        if w2 is not None:
            w2.close()
        w.close()
    _UNOBSERVED[0] = False
    stack_merged = merged_of(w.c)
    res = {"events": events, "raised": raised[0], "merged": stack_merged}
    if w2 is not None:
        res["companion"] = {"events": events2, "raised": False, "merged": merged_of(w2.c)}
    changed = [(dict(d), cp) for d, cp in w.c.__dict__.get("_c18_kept", []) if d != cp]
    if changed:
        res["kept_changed"] = [[sorted(map(str, a)), sorted(map(str, b))] for a, b in changed[:2]]
    now = default_contexts()
    if now != _DEFAULTS[0]:
        res["defaults_changed"] = [repr(_DEFAULTS[0]), repr(now)]
    return res


def default_contexts():
    """the constructors' default arguments (the documented initial contexts are among them)"""
    import copy
    import rig.machine_control.machine_controller as m
    import rig.machine_control.bmp_controller as b
    from rig.utils.contexts import ContextMixin
    return copy.deepcopy([repr(k.__init__.__defaults__) for k in (m.MachineController, b.BMPController, ContextMixin)])


_DEFAULTS = [None]


# --------------------------------------------------------------------------
# comparing with the model, applying the oracles
# --------------------------------------------------------------------------
def with_failures(prog, failed, cbs=None):
    """the program as the model reads it: `fails` set on the calls whose method body raised in the implementation
    run (whether the network answers is an input of the model, not something it predicts); the callbacks
    registered on a kept context object repeated on every `enter` of it"""
    cbs = {} if cbs is None else cbs
    out = []
    for st in prog:
        st = dict(st)
        if st["s"] == "call":
            st["fails"] = bool(failed.get(st["id"]))
        if st["s"] in ("new", "newapp"):
            cbs[st["oid"]] = st.get("cb", [])
        if st["s"] == "enter":
            st["cb"] = cbs.get(st["oid"], [])
        for k in ("body", "cb"):
            if k in st:
                st[k] = with_failures(st[k], failed, cbs)
        out.append(st)
    return out


def model_request(case, im=None):
    init = case.get("init")
    if init is None:
        init = [["app_id", 66]] if case["cls"] == "MachineController" else [["cabinet", 0], ["frame", 0], ["board", 0]]
    failed = {e["id"]: True for e in (im or {}).get("events", []) if e["ev"] == "call" and "failed" in e["out"]}
    return {"suite": "c18", "op": "run", "cls": case["cls"], "bmp_conns": case["cfg"].get("bmp_conns", []),
            "stack": [init], "prog": with_failures(case["prog"], failed)}


def sorted_pairs(d):
    return sorted(d, key=lambda kv: kv[0])


def ctx_names(cls):
    return MC_CTX if cls == "MachineController" else BMP_CTX


def desc_of(case):
    return case.get("_desc") or {k: case[k] for k in ("cls", "cfg", "init", "prog", "companion") if k in case}


def evaluate(ctx, cases):
    """cases: list of {cls, cfg, init, prog, ...}"""
    if not cases:
        return
    impl = [run_impl(c) for c in cases]
    # the second controller of a case is judged like a case of its own (its program: one block around its commands)
    cases = list(cases)
    for c, im in list(zip(cases, impl)):
        if "companion" in im:
            comp = c["companion"]
            cases.append({"cls": c["cls"], "cfg": c["cfg"], "init": comp["init"], "_desc": desc_of(c), "uses_ctx": True,
                          "prog": [{"s": "block", "id": 900000, "ctx": comp["ctx"], "body": comp["calls"]}],
                          "label": "companion"})
            impl.append(im.pop("companion"))
    model = ctx.lean([model_request(c, im) for c, im in zip(cases, impl)])
    oreqs, oidx = [], []
    for ci, (case, im, mo) in enumerate(zip(cases, impl, model)):
        desc = desc_of(case)
        ctx.traces += 1
        if "proto_error" in mo:
            ctx.mismatch("c18.run", "model rejected the request: %s" % mo["proto_error"], desc)
            continue
        mev = {(e["ev"], e["id"]): e for e in mo["events"]}
        iev = {(e["ev"], e["id"]): e for e in im["events"]}
        nontriv = False
        if [(e["ev"], e["id"]) for e in mo["events"]] != [(e["ev"], e["id"]) for e in im["events"]]:
            ctx.mismatch("c18.events", "event sequences differ: impl=%r model=%r" % (
                [(e["ev"], e["id"]) for e in im["events"]], [(e["ev"], e["id"]) for e in mo["events"]]), desc)
        if "kept_changed" in im:
            ctx.mismatch("c18.kept", "a dictionary get_context_arguments() handed back changed afterwards: %r" % (im["kept_changed"],), desc)
        if "defaults_changed" in im:
            ctx.violation("default-context-changed",
                          "after this history a NEW controller no longer starts with the documented default arguments: "
                          "constructor defaults were %s, are now %s" % tuple(im["defaults_changed"]), desc)
            _DEFAULTS[0] = None
        if im["raised"] != mo["raised"]:
            ctx.mismatch("c18.raised", "impl raised=%r model raised=%r" % (im["raised"], mo["raised"]), desc)
        if sorted_pairs(mo["merged"]) != im["merged"]:
            ctx.mismatch("c18.final", "final context differs: impl=%r model=%r" % (im["merged"], mo["merged"]), desc)
        if [(e["ev"], e["id"]) for e in mo["events"]] == [(e["ev"], e["id"]) for e in im["events"]]:
            pairs = list(zip(im["events"], mo["events"]))      # (a kept object's callbacks repeat their ids)
        else:
            pairs = [(e, mev.get(key)) for key, e in iev.items()]
        for e, m in pairs:
            if m is None:
                continue
            if e["ev"] == "call":
                res, out = m["res"], e["out"]
                meth = e["m"]
                if "rejected" in res:
                    ctx.tag("rejected:%s" % (res["rejected"] if isinstance(res["rejected"], str) else "missing"))
                    if len(e["datagrams"]) > 0 or "sent" in out:
                        if isinstance(res["rejected"], dict):
                            ctx.violation("required-not-rejected",
                                          "%s.%s lacks required argument %r but was not rejected before sending "
                                          "(%d datagrams, outcome %r)" % (case["cls"], meth, res["rejected"]["missing"],
                                                                         len(e["datagrams"]), out), desc)
                        else:
                            ctx.mismatch("c18.reject", "model rejects (%r), impl outcome %r" % (res["rejected"], out), desc)
                    elif out.get("rejected") != res["rejected"]:
                        ctx.mismatch("c18.reject", "rejection differs: impl=%r model=%r" % (out.get("rejected"), res["rejected"]), desc)
                    if len(case["prog"]) and case.get("depth", 0) > 0:
                        nontriv = True
                    continue
                # model: accepted
                if "rejected" in out:
                    if isinstance(out["rejected"], dict):
                        ctx.violation("resolved-argument-rejected",
                                      "%s.%s was rejected (missing %r) although the argument is given explicitly, by a "
                                      "context or by default: model kwargs %r" % (case["cls"], meth, out["rejected"]["missing"], res["sent"]), desc)
                    else:
                        ctx.mismatch("c18.reject", "impl rejects (%r), model accepts" % (out["rejected"],), desc)
                    continue
                ctx.tag("method:%s.%s" % ("mc" if case["cls"] == "MachineController" else "bmp", meth))
                lab = case.get("label", "")
                if lab.startswith(("scale/", "twins/", "companion", "discover-boards/")):
                    ctx.tag("stream:" + lab)
                for kv in list(out.get("kwargs", [])):
                    if kv[1] is True or kv[1] is False:
                        if kv[0] in ctx_names(case["cls"]):
                            ctx.tag("kind:bool-as-int")
                    elif kv[1] == 0 and kv[0] in ctx_names(case["cls"]):
                        ctx.tag("kind:zero")
                if case["cfg"].get("subclass"):
                    ctx.tag("cfg:subclass")
                if case["cfg"].get("env"):
                    ctx.tag("cfg:env-buf%s%s" % (case["cfg"]["env"]["buf"], "+chip-vars" if case["cfg"]["env"]["chip_vars"] else ""))
                if case["cfg"].get("host_str"):
                    ctx.tag("cfg:bmp-single-host")
                if "hang" in out:
                    ctx.violation("did-not-return", "%s.%s did not return: %s" % (case["cls"], meth, out["hang"]), desc)
                elif "body_exc" in out:
                    ctx.mismatch("c18.body", "%s.%s raised %s" % (case["cls"], meth, out["body_exc"]), desc)
                elif "failed" in out:
                    ctx.tag("fault:%s:%s" % (fault_name(e["fault"]), out["failed"]))
                elif e.get("fault"):
                    ctx.tag("fault:%s:survived" % fault_name(e["fault"]))
                if "kwargs" in out:
                    if out["kwargs"] != res["sent"]:
                        got, want = dict(map(tuple, map(lambda kv: (kv[0], repr(kv[1])), out["kwargs"]))), \
                            dict(map(tuple, map(lambda kv: (kv[0], repr(kv[1])), res["sent"])))
                        bad = [n for n in set(got) | set(want) if got.get(n) != want.get(n)]
                        if bad:
                            ctx.violation("precedence",
                                          "%s.%s: argument(s) %r resolved to %r, but explicit > innermost context > default "
                                          "gives %r" % (case["cls"], meth, sorted(bad), {n: got.get(n) for n in bad},
                                                        {n: want.get(n) for n in bad}), desc)
                        else:
                            ctx.mismatch("c18.kwargs", "order of new_kwargs differs: impl=%r model=%r" % (out["kwargs"], res["sent"]), desc)
                    ctx.tag("tapped")
                if not e["datagrams"] and res["pats"] and "failed" not in out:
                    ctx.mismatch("c18.silent", "%s.%s sent nothing (model allows %d patterns)" % (case["cls"], meth, len(res["pats"])), desc)
                oreqs.append({"suite": "c18", "op": "oracle", "cls": case["cls"], "pats": res["pats"],
                              "datagrams": e["datagrams"], "cfg": case["cfg"], "bmp_conns": case["cfg"].get("bmp_conns", [])})
                oidx.append((ci, desc, e, "call", meth))
                if any("cfg" in d for d in e["datagrams"]):
                    ctx.tag("conn:judged-against-rewritten-table")
                if any("from_machine" in d.get("cfg", {}) for d in e["datagrams"]):
                    ctx.tag("conn:dimensions-computed-from-p2p-table")
                    fm = [d["cfg"]["from_machine"] for d in e["datagrams"] if "from_machine" in d.get("cfg", {})][0]
                    if [fm["mdims"][0] - 1, fm["mdims"][1] - 1] in fm["dead"]:
                        ctx.tag("conn:top-right-corner-dead")
                if any(d["conn"] is not None for d in e["datagrams"]) and case["cls"] == "MachineController":
                    ctx.tag("conn:over-discovered-connection")
                if any(isinstance(kv[1], dict) and "l" in kv[1] for kv in res["sent"]):
                    ctx.tag("boards-as-iterable:%s" % meth)
                if case.get("label", "").startswith(("boards/", "explicit/")):
                    ctx.tag(case["label"].split("/")[0] + ":" + "/".join(case["label"].split("/")[2:]) if case["label"].startswith("boards/")
                            else "explicit-stream")
                if case.get("uses_ctx"):
                    nontriv = True
            elif e["ev"] == "enter":
                ctx.tag("enter:object-%s" % e.get("object", "fresh"))
                if e["merged"] is None:
                    ctx.tag("enter:unobserved")
                elif sorted_pairs(m["merged"]) != e["merged"]:
                    ctx.mismatch("c18.enter", "context after entering block %d differs: impl=%r model=%r" % (e["id"], e["merged"], m["merged"]), desc)
            else:  # exit
                ctx.tag("exit:%s" % ("app" if e["app"] else "block"))
                if e.get("cb"):
                    ctx.tag("exit:with-callbacks")
                if e["merged"] is None or e["before"] is None:
                    pass        # unobserved case: judged by its commands and the final context
                elif sorted_pairs(m["before"]) != e["before"]:
                    ctx.mismatch("c18.exit", "context before block %d differs: impl=%r model=%r" % (e["id"], e["before"], m["before"]), desc)
                if e["merged"] is None or e["before"] is None:
                    pass
                elif e["merged"] != e["before"]:
                    if m["restored"]:
                        ctx.violation("context-not-restored",
                                      "after leaving block %d the arguments in force are %r, before it they were %r" % (
                                          e["id"], e["merged"], e["before"]), desc)
                    else:
                        # update_current_context inside the block changed an object that is also active below it
                        ctx.tag("exit:aliased-update")
                if e["merged"] is not None and sorted_pairs(m["merged"]) != e["merged"]:
                    ctx.mismatch("c18.exit", "context after leaving block %d differs: impl=%r model=%r" % (e["id"], e["merged"], m["merged"]), desc)
                if e["app"]:
                    stop = m["stop"]
                    if stop is not None and "sent" in stop:
                        oreqs.append({"suite": "c18", "op": "oracle", "cls": case["cls"], "pats": stop["pats"],
                                      "datagrams": e["datagrams"], "cfg": case["cfg"], "bmp_conns": []})
                        oidx.append((ci, desc, e, "stop", "application"))
                    elif e["datagrams"]:
                        ctx.mismatch("c18.stop", "model: stop signal rejected, impl sent %r" % (e["datagrams"],), desc)
                elif e["datagrams"]:
                    ctx.mismatch("c18.exit", "datagrams on leaving a plain block: %r" % (e["datagrams"],), desc)
        if case.get("exc_exit"):
            nontriv = True
        case["_nontriv"] = nontriv
        js = json.dumps([case["prog"], case.get("init")])
        for kind in INT_KINDS + KINDS + ("bytearray", "memoryview"):
            if '"k": "%s"' % kind in js:
                ctx.tag("kind:%s" % kind)
        if '"fault"' in js:
            for n in range(7):
                if '"fault": ["scp_err", %d]' % n in js:
                    ctx.tag("fault-at-request:%d" % n)
    for (ci, desc, e, what, meth), r in zip(oidx, ctx.lean(oreqs)):
        if "proto_error" in r:
            ctx.mismatch("c18.oracle", r["proto_error"], desc)
            continue
        cls = cases[ci]["cls"]
        if what == "stop":
            if not e["datagrams"] or not all(r["stops"]) or not r["dest"]:
                ctx.violation("application-not-stopped",
                              "leaving application block %d did not send exactly the stop signal for its application: "
                              "datagrams %r, application ids %r, stop flags %r" % (e["id"], e["datagrams"], r["extras"], r["stops"]), desc)
                continue
        if not r["dest"]:
            bad = [e["datagrams"][i] for i in r["bad"][:3]]
            ctx.violation("wrong-destination",
                          "%s.%s put on the wire %r (application id / mask %r) which is not a destination its resolved "
                          "arguments name" % (cls, meth, bad, [r["extras"][i] for i in r["bad"][:3]]), desc)
        elif not r["conn"]:
            ctx.violation("wrong-connection",
                          "%s.%s: a datagram did not travel over the connection of the board holding its target: %r" % (
                              cls, meth, e["datagrams"][:4]), desc)
    for case in cases:
        desc = desc_of(case)
        ctx.case(desc, case.get("_nontriv", False))


# --------------------------------------------------------------------------
# generators
# --------------------------------------------------------------------------
_SIGS = {}
_SKIP = set()


def signatures():
    if not _SIGS:
        from harness import common
        from harness.gen import c18 as g
        for s in g.read_signatures(common.REPO):
            _SIGS[(s["cls"], s["name"])] = s
    return _SIGS


class UnknownMethod(Exception):
    """a decorated method (or parameter) the generators know nothing about: reported, never silently skipped"""


class Gen(object):
    def __init__(self, rng, cls, cfg):
        self.rng, self.cls, self.cfg = rng, cls, cfg
        self.nid = 0
        self.used = set()

    def fresh_id(self):
        self.nid += 1
        return self.nid

    def ctx_value(self, name):
        """contextual values pairwise distinct within a program (and away from 0 / 255 / 66)"""
        rng = self.rng
        if self.cls == "BMPController":
            # coordinates of the boards the controller has connections for, and a few others
            i = BMP_CTX.index(name)
            have = sorted({k[i] for k in self.cfg.get("bmp_conns", []) if len(k) > i})
            return rng.choice(have + have + list(range(2 if i < 2 else 3)))
        if rng.random() < 0.08:
            return 0        # falsy: chip (0, *), core 0, application 0 are as good as any other
        for _ in range(200):
            if name == "x":
                v = rng.randrange((self.cfg.get("dims") or [24, 24])[0])
            elif name == "y":
                v = rng.randrange((self.cfg.get("dims") or [24, 24])[1])
            elif name in ("p", "processor"):
                v = rng.randrange(1, 18)
            else:
                v = rng.randrange(16, 255)
            if v not in self.used and v not in (0, 66, 255):
                self.used.add(v)
                return v
        return v

    def call(self, name, style, ctxvals=None, caught=True):
        """a call statement of method `name`; returns (stmt, values that must come from a context)"""
        rng = self.rng
        sig = signatures()[(self.cls, name)]
        params = sig["argNames"][1:]
        kwonly = [k for k, _ in sig["kwOnly"]]
        cnames = ctx_names(self.cls)
        try:
            given, extra = method_args(self.cls, name, rng)
        except KeyError:
            raise UnknownMethod("%s.%s: the generators have no argument values for this method" % (self.cls, name))
        ndef = len(sig["defaults"])
        has_default = set(params[len(params) - ndef:]) if ndef else set()
        has_default |= {k for k, (v, _) in sig["kwOnly"] if v != {"k": "required"}}
        true = {}
        for n in params + kwonly:
            if n in cnames:
                true[n] = (ctxvals or {}).get(n, None)
                if true[n] is None:
                    true[n] = self.kinded(n, self.ctx_value(n))
        if self.cls == "BMPController" and name in ("set_power", "set_led") and "board" in true \
                and not (ctxvals and "board" in ctxvals) and rng.random() < 0.45:
            # boards given as an iterable (list or tuple) of distinct board numbers
            # (kinds that can be iterated again: the context may serve several calls)
            true["board"] = ints_token(rng.sample(range(3), rng.randrange(1, 4)), rng.choice(("list", "tuple", "set", "range")))
        pos, kw, need_ctx = [], [], {}
        if sig["hasVarargs"]:
            pos = [obj_token(o) for o in extra]
            plan = {n: "kw" for n in kwonly}
        else:
            plan = {}
        # decide how each parameter travels
        if style == "positional":
            npos = len(params)
        elif style in ("keyword", "context", "default"):
            npos = 0
            for n in params:
                if n in cnames:
                    break
                npos += 1
        else:
            npos = rng.randrange(len(params) + 1)
        if sig["hasVarargs"]:
            npos = 0
        for i, n in enumerate(params):
            if n in true:
                v = true[n]
            elif n in given:
                v = given[n]
            else:
                raise UnknownMethod("%s.%s: no value for parameter %s" % (self.cls, name, n))
            if i < npos:
                pos.append(obj_token(v))
                continue
            if n in true:
                how = {"positional": "kw", "keyword": "kw", "context": "ctx", "default": "omit"}.get(style) or \
                    rng.choice(["kw", "ctx", "ctx", "omit"])
            else:
                how = "kw"
                if n in has_default and style == "mixed" and rng.random() < 0.5:
                    how = "omit"
                if style == "mixed" and rng.random() < 0.04:
                    how = "omit"       # a non-contextual required argument left out: rejected as well
            if how == "kw":
                kw.append([n, obj_token(v)])
            elif how == "ctx":
                need_ctx[n] = v
        for n in kwonly:
            if n in true:
                how = {"positional": "kw", "keyword": "kw", "context": "ctx", "default": "omit"}.get(style) or \
                    rng.choice(["kw", "ctx", "omit"])
                if how == "kw":
                    kw.append([n, true[n]])
                elif how == "ctx":
                    need_ctx[n] = true[n]
            elif n in given and (style != "mixed" or rng.random() < 0.7):
                kw.append([n, obj_token(given[n])])
        if sig["hasKeywords"]:
            kw += [[k, obj_token(v)] for k, v in sorted(given.get("__extra_kw__", {}).items())]
        if style == "mixed":
            rng.shuffle(kw)
        st = {"s": "call", "id": self.fresh_id(), "m": name, "pos": pos, "kw": kw, "caught": caught}
        return st, need_ctx

    def kinded(self, name, v):
        """now and then the int as bool / IntEnum member / numpy integer"""
        rng = self.rng
        if not isinstance(v, int) or isinstance(v, bool) or rng.random() > 0.12:
            return v
        if v in (0, 1) and rng.random() < 0.5:
            return bool(v)
        kinds = ("enum",) if (self.cls, name) == ("BMPController", "board") else INT_KINDS
        return {"n": v, "k": rng.choice(kinds)}        # (set_led / set_power: `isinstance(board, int)`)

    def decoys(self, names):
        return [[n, self.kinded(n, self.ctx_value(n))] for n in names]


def random_cfg(rng, cls):
    cfg = random_cfg0(rng, cls)
    if rng.random() < 0.15:
        cfg["subclass"] = True
    if rng.random() < 0.4:
        # what the (simulated) machine fixes: buffer size, window, and per-chip replies that differ between chips
        cfg["env"] = {"buf": rng.choice([16, 64, 256, 512, 1024]), "win": rng.choice([None, 1, 8]),
                      "chip_vars": rng.random() < 0.6, "salt": rng.randrange(18)}
    if cls == "BMPController" and rng.random() < 0.08:
        cfg["bmp_conns"], cfg["host_str"] = [[0, 0]], True
    return cfg


def random_cfg0(rng, cls):
    if cls == "BMPController":
        keys = [[c, f] for c in range(2) for f in range(2)] + [[c, f, b] for c in range(2) for f in range(2) for b in range(3)]
        k = [key for key in keys if rng.random() < 0.45]
        if rng.random() < 0.5 and [0, 0] not in k:
            k.append([0, 0])
        if not k:
            k = [[0, 0]]
        if rng.random() < 0.25:
            # other cabinets / frames / boards (a frame holds 24 boards)
            co, fo, bmap = rng.choice([0, 3, 255]), rng.choice([0, 7, 255]), rng.choice([[0, 1, 2], [0, 5, 23], [23, 11, 0]])
            k = [[key[0] + co, key[1] + fo] + [bmap[key[2]] for _ in key[2:]] for key in k]
        return {"bmp_conns": k}
    r = rng.random()
    if r < 0.25:
        return {"dims": None, "root": None, "conns": []}
    w = rng.choice([12, 24, 24, 36, 8, 16, 20])
    h = rng.choice([12, 24, 24, 36, 8, 16, 20])
    if rng.random() < 0.06:
        # the extremes: one chip wide / high, the largest machine the 8-bit coordinates allow
        w, h = rng.choice([(1, 240), (240, 1), (2, 255), (256, 256), (255, 12), (1, 1)])
    root = [rng.choice([0, 0, 4, 8, 3]) % w, rng.choice([0, 0, 8, 4, 5]) % h]
    if r < 0.32:
        return {"dims": [w, h], "root": None, "conns": [[0, 0]]}
    eth = []
    for bx in range(0, w + 12, 12):
        for by in range(0, h + 12, 12):
            for dx, dy in ((0, 0), (4, 8), (8, 4)):
                e = [(bx + dx + root[0]) % w, (by + dy + root[1]) % h]
                if e not in eth:
                    eth.append(e)
    conns = [e for e in eth if rng.random() < 0.6]
    if rng.random() < 0.3:
        conns.append([rng.randrange(w), rng.randrange(h)])
    return {"dims": [w, h], "root": root, "conns": [c for i, c in enumerate(conns) if c not in conns[:i]]}


def random_machine(rng, big=False):
    """the fake machine behind the initial connection: what discover_connections / get_system_info find"""
    w, h = rng.choice([(8, 8), (12, 12), (24, 12), (12, 24), (20, 16), (24, 24)] if big else [(2, 2), (2, 2), (8, 8), (3, 5)])
    root = [rng.choice([0, 0, 4, 8, 3]) % w, rng.choice([0, 0, 8, 4, 5]) % h]
    chips = [[x, y] for x in range(w) for y in range(h)]
    pick = lambda pr: [c for c in chips if rng.random() < pr]
    eth = []
    for bx in range(0, w + 12, 12):
        for by in range(0, h + 12, 12):
            for dx, dy in ((0, 0), (4, 8), (8, 4)):
                e = [(bx + dx + root[0]) % w, (by + dy + root[1]) % h]
                if e not in eth:
                    eth.append(e)
    some = lambda pr: [e for e in eth if rng.random() < pr]
    return {"dims": [w, h], "root": root, "dead": dead_chips(rng, w, h, eth), "eth_down": some(0.2), "sver_fail": some(0.2),
            "info_fail": some(0.15) + pick(0.02), "eth": eth}


def dead_chips(rng, w, h, eth):
    """chips without a route in the P2P table: anywhere, and preferably where the dimensions are read off - the
    corners, the last column / top row (partly or wholly), Ethernet chips"""
    dead = set()
    for _ in range(rng.randrange(0, 4)):
        r = rng.random()
        if r < 0.25:
            dead |= {(w - 1, h - 1 - i) for i in range(rng.randrange(1, max(2, h // 2)))}       # top of the last column
        elif r < 0.4:
            dead |= {(w - 1 - i, h - 1) for i in range(rng.randrange(1, max(2, w // 2)))}       # right end of the top row
        elif r < 0.5:
            dead |= {(w - 1, y) for y in range(h)} if rng.random() < 0.5 else {(x, h - 1) for x in range(w)}
        elif r < 0.65:
            dead |= {rng.choice([(0, 0), (0, h - 1), (w - 1, 0), (w - 1, h - 1)])}
        elif r < 0.8:
            dead |= {tuple(e) for e in eth if rng.random() < 0.3}
        else:
            dead |= {(rng.randrange(w), rng.randrange(h)) for _ in range(max(1, w * h // 30))}
    if len(dead) >= w * h:
        dead = set(list(dead)[1:])
    return sorted([x, y] for (x, y) in dead)


BOARD = [(x, y) for x in range(8) for y in range(8) if x - y <= 4 and y - x <= 3]      # the 48 chips of a SpiNN-5 board


def discover_cases(ctx, rng, reps):
    """discover_connections on multi-board machines with dead chips where the dimensions are read off; then a
    command to chips of EVERY board - the Ethernet chip, the far corner, chips that lie across the wrap-around;
    then chips die, discover_connections runs again, and commands follow again.  Every datagram is judged by the
    Lean connection oracle against the dimensions the code computes from the machine's P2P table."""
    cases = []
    mc = "MachineController"
    for rep in range(reps):
        for (w, h) in [(12, 12), (24, 12), (12, 24), (24, 24), (36, 24), (20, 16), (13, 17), (8, 8), (16, 28)]:
            cfg = random_cfg(rng, mc) if rng.random() < 0.3 else {"dims": None, "root": None, "conns": []}
            mach = random_machine(rng, big=True)
            root = [rng.choice([0, 0, 0, 4, 8]) % w, rng.choice([0, 0, 0, 8, 4]) % h]
            eth = []
            for bx in range(0, w + 12, 12):
                for by in range(0, h + 12, 12):
                    for dx, dy in ((0, 0), (4, 8), (8, 4)):
                        e = [(bx + dx + root[0]) % w, (by + dy + root[1]) % h]
                        if e not in eth:
                            eth.append(e)
            few = lambda pr: [e for e in eth if rng.random() < pr]
            mach = {"dims": [w, h], "root": root, "dead": dead_chips(rng, w, h, eth), "eth": eth,
                    "eth_down": few(0.1), "sver_fail": few(0.1), "info_fail": few(0.1)}
            if rng.random() < 0.5:
                mach["dead"] = sorted(mach["dead"] + [[w - 1, h - 1]])[:]       # greatest x and greatest y: different chips
                mach["dead"] = [list(t) for t in sorted({tuple(d) for d in mach["dead"]})]
            cfg["machine"] = mach
            g = Gen(rng, mc, cfg)
            g.cfg = {"dims": [w, h]}

            def commands(dead, per_board):
                out = []
                deadset = {tuple(d) for d in dead}
                for e in eth:
                    offs = [(0, 0), (7, 7), (7, 3), (4, 7), (0, 3), (4, 0)] + rng.sample(BOARD, 3)
                    wrapping = [o for o in offs if e[0] + o[0] >= w or e[1] + o[1] >= h]
                    chosen = (wrapping[:1] if wrapping else []) + rng.sample(offs, per_board)
                    for (dx, dy) in chosen[:per_board + 1]:
                        t = ((e[0] + dx) % w, (e[1] + dy) % h)
                        if t in deadset:
                            continue
                        g.used = set()
                        st, nd = g.call(rng.choice(["read", "sdram_free", "get_chip_info", "iptag_get", "write"]), "context")
                        nd["x"], nd["y"] = t
                        out.append({"s": "block", "id": g.fresh_id(), "ctx": [[k, v] for k, v in nd.items()], "body": [st]})
                return out
            disc = lambda: g.call("discover_connections", rng.choice(["default", "keyword", "positional"]))[0]
            prog = [disc()] + commands(mach["dead"], 2)
            # chips die (or come back), the machine is looked at again
            dead2 = dead_chips(rng, w, h, eth)
            prog += [{"s": "machine", "dead": dead2}, disc()] + commands(dead2, 1)
            cases.append({"cls": mc, "cfg": cfg, "init": None, "prog": prog, "depth": 1, "uses_ctx": True,
                          "exc_exit": False, "label": "discover-boards/%dx%d" % (w, h)})
    return cases


FAULTS = {
    # method -> faults that are worth injecting (what the fake connection does differently for this one call)
    "sdram_alloc": ["alloc0"], "sdram_alloc_as_filelike": ["alloc0"],
    "load_routing_table_entries": ["alloc0"], "load_routing_tables": ["alloc0"],
    "load_application": ["notwait"],
    "get_iobuf": ["iobuf"], "get_iobuf_bytes": ["iobuf"],
}


def random_fault(rng, name):
    r = rng.random()
    if name in FAULTS and r < 0.5:
        return rng.choice(FAULTS[name])
    return ["scp_err", rng.randrange(4)]


def extra_cases(ctx, rng, reps):
    """failure paths of method bodies, `before_close` callbacks, nested application blocks,
    discover_connections rewriting the connection table"""
    cases = []
    mc, bmp = "MachineController", "BMPController"
    for rep in range(reps):
        # (a) every method with an injected fault, inside a block, followed by a call in the restored context
        for (cls, name), sig in sorted(signatures().items()):
            if (cls, name) in _SKIP or name == "application":
                continue
            # the n-th request of the call is lost, for every n the longest operations reach
            faults = (FAULTS.get(name, []) + [["scp_err", n] for n in range(7)]) if cls == mc else [None]
            if name == "wait_for_cores_to_reach_state":
                faults = faults + ["notwait"]       # polls until the timeout (set below) expires
            for fault in faults:
                cfg = random_cfg(rng, cls)
                if name in ("discover_connections", "get_system_info"):
                    cfg["machine"] = random_machine(rng)
                g = Gen(rng, cls, cfg)
                st, need = g.call(name, rng.choice(["context", "mixed", "keyword"]), caught=rng.random() < 0.5)
                if name == "wait_for_cores_to_reach_state":
                    st["kw"] = [kv for kv in st["kw"] if kv[0] != "timeout"] + [["timeout", 1]]
                    st["pos"] = st["pos"][:2]
                if fault == "alloc0" and name.startswith("sdram_alloc"):
                    st["kw"] = [kv for kv in st["kw"] if kv[0] != "tag"]
                    if len(st["pos"]) > 1:
                        st["pos"][1] = 1
                    else:
                        st["kw"].append(["tag", 1])     # tag != 0: the failure path reads the tag table
                st["fault"] = fault
                # (BMP: the same method again - a board iterable in the context suits set_power / set_led only)
                probe = "send_signal" if cls == mc else name
                after, need2 = g.call("send_signal" if cls == mc else "read_adc", "default")
                blk = {"s": "block", "id": g.fresh_id(), "ctx": [[k, v] for k, v in need.items()],
                       "body": [st, g.call(probe, "default")[0]]}
                if rng.random() < 0.5:
                    blk["cb"] = [g.call(probe, "default")[0]]
                cases.append({"cls": cls, "cfg": cfg, "init": None, "prog": [{"s": "try", "body": [blk]}, after],
                              "depth": 1, "uses_ctx": bool(need), "exc_exit": not st["caught"],
                              "label": "%s.%s/fault=%r" % (cls, name, fault)})
        # (b) callbacks: a decorated method called from a callback resolves against the closing context;
        #     a raising callback; callbacks of application contexts; nested applications
        for variant in range(8):
            cls = mc if variant != 7 else bmp
            cfg = random_cfg(rng, cls)
            g = Gen(rng, cls, cfg)
            probe = "send_signal" if cls == mc else "set_led"
            inner, need = g.call("read" if cls == mc else "set_led", "context")
            cb_call, need_cb = g.call(probe, "context")
            ctxd = [[k, v] for k, v in dict(list(need.items()) + list(need_cb.items())).items()]
            after = g.call(probe, "default")[0]
            if variant in (0, 7):
                prog = [{"s": "block", "id": g.fresh_id(), "ctx": ctxd, "body": [inner], "cb": [cb_call]}, after]
            elif variant == 1:      # the body raises; callbacks still run; then the exception goes on
                prog = [{"s": "try", "body": [{"s": "block", "id": g.fresh_id(), "ctx": ctxd,
                                                "body": [inner, {"s": "raise"}], "cb": [cb_call]}]}, after]
            elif variant == 2:      # the first callback raises: the second one is skipped, the context still removed
                prog = [{"s": "try", "body": [{"s": "block", "id": g.fresh_id(), "ctx": ctxd, "body": [inner],
                                                "cb": [cb_call, {"s": "raise"}, g.call(probe, "context")[0]]}]}, after]
            elif variant == 3:      # a callback opens blocks / updates the context that is being closed
                prog = [{"s": "block", "id": g.fresh_id(), "ctx": ctxd, "body": [inner],
                         "cb": [{"s": "update", "kv": g.decoys(["app_id"])}, g.call(probe, "default")[0],
                                {"s": "block", "id": g.fresh_id(), "ctx": g.decoys(["app_id", "x"]),
                                 "body": [g.call(probe, "default")[0]]}]}, after]
            elif variant == 4:      # application context with a user callback (runs after the stop signal)
                a, _ = g.call("application", "positional")
                prog = [{"s": "app", "id": a["id"], "pos": a["pos"], "kw": a["kw"], "stop_fails": False,
                         "body": [g.call(probe, "default")[0]],
                         "cb": [{"s": "update", "kv": g.decoys(["app_id"])}, g.call(probe, "default")[0]]}, after]
            elif variant == 5:      # failing stop signal: the user's callbacks are skipped
                a, _ = g.call("application", "keyword")
                prog = [{"s": "try", "body": [{"s": "app", "id": a["id"], "pos": a["pos"], "kw": a["kw"], "stop_fails": True,
                                                "body": [g.call(probe, "default")[0]], "cb": [g.call(probe, "default")[0]]}]}, after]
            else:                   # nested application blocks with different ids, inner left by exception
                a, _ = g.call("application", "positional")
                b, _ = g.call("application", "keyword")
                innerapp = {"s": "app", "id": b["id"], "pos": b["pos"], "kw": b["kw"], "stop_fails": False,
                            "body": [g.call(probe, "default")[0]] + ([{"s": "raise"}] if rng.random() < 0.5 else []),
                            "cb": [g.call(probe, "default")[0]]}
                prog = [{"s": "app", "id": a["id"], "pos": a["pos"], "kw": a["kw"], "stop_fails": False,
                         "body": [{"s": "try", "body": [innerapp]}, g.call(probe, "default")[0]]}, after]
            cases.append({"cls": cls, "cfg": cfg, "init": None, "prog": prog, "depth": 1, "uses_ctx": True,
                          "exc_exit": variant in (1, 2, 5, 6), "label": "callbacks/%d" % variant})
        # (c) discover_connections on machines of several sizes, then commands over the discovered table
        for k in range(3):
            cfg = random_cfg(rng, mc) if k else {"dims": None, "root": None, "conns": []}
            cfg["machine"] = random_machine(rng, big=True)
            g = Gen(rng, mc, cfg)
            g.cfg = {"dims": cfg["machine"]["dims"]}      # chips of the machine that will be discovered
            disc, need = g.call("discover_connections", rng.choice(["default", "keyword", "context"]))
            prog = [{"s": "block", "id": g.fresh_id(), "ctx": [[kk, v] for kk, v in need.items()], "body": [disc]}]
            # one command to every Ethernet chip of the machine (over its own connection if it was discovered),
            # then commands to random chips of the machine
            targets = [e for e in cfg["machine"]["eth"] if e[0] < cfg["machine"]["dims"][0] and e[1] < cfg["machine"]["dims"][1]][:9]
            for t in targets + [None] * 4:
                g.used = set()
                st, nd = g.call(rng.choice(["read", "write", "get_chip_info", "sdram_alloc", "get_software_version",
                                            "iptag_get", "fill", "load_routing_table_entries"]), "context")
                if t is not None:
                    nd["x"], nd["y"] = t
                prog.append({"s": "block", "id": g.fresh_id(), "ctx": [[kk, v] for kk, v in nd.items()], "body": [st]})
            cases.append({"cls": mc, "cfg": cfg, "init": None, "prog": prog, "depth": 1, "uses_ctx": True,
                          "exc_exit": False, "label": "discover/%d" % k})
    return cases


def collection_cases(ctx, rng, reps):
    """boards named by every kind of collection - int, list, tuple, set, range and the single-pass ones (iterator,
    generator, map) - passed positionally, by keyword and through the enclosing context: one command per context"""
    cases = []
    cls = "BMPController"
    for rep in range(reps):
        for name in ("set_led", "set_power"):
            for kind in ("int",) + KINDS:
                for style in ("positional", "keyword", "context"):
                    cfg = random_cfg(rng, cls)
                    g = Gen(rng, cls, cfg)
                    bs = rng.sample(range(3), rng.randrange(1, 4))
                    board = bs[0] if kind == "int" else ints_token(bs, kind)
                    st, need = g.call(name, style, ctxvals={"board": board})
                    ctxd = [[k, v] for k, v in need.items()] + g.decoys([n for n in BMP_CTX if n not in need])
                    rng.shuffle(ctxd)
                    cases.append({"cls": cls, "cfg": cfg, "init": None,
                                  "prog": [{"s": "block", "id": g.fresh_id(), "ctx": ctxd, "body": [st]}],
                                  "depth": 1, "uses_ctx": bool(need), "exc_exit": False,
                                  "label": "boards/%s/%s/%s" % (name, kind, style)})
    return cases


def explicit_cases(ctx, rng, reps):
    """explicit != context != default, for EVERY decorated method of the signature table: every contextual
    argument is given in the call (positionally, then by keyword) while an enclosing block sets ALL contextual
    names of the controller to other values (and both differ from the defaults): every datagram of the - possibly
    composite - operation must carry the explicit values, whatever the method body re-dispatches to"""
    cases = []
    for rep in range(reps):
        for (cls, name) in sorted(signatures()):
            if (cls, name) in _SKIP:
                continue
            for style in ("positional", "keyword"):
                cfg = random_cfg(rng, cls)
                if name in ("discover_connections", "get_system_info"):
                    cfg["machine"] = random_machine(rng)
                g = Gen(rng, cls, cfg)
                st, need = g.call(name, style)
                assert not need
                if name == "application":
                    probe = g.call("send_signal", "default")[0]
                    st = {"s": "app", "id": st["id"], "pos": st["pos"], "kw": st["kw"], "stop_fails": False, "body": [probe]}
                elif cls == "MachineController" and rng.random() < 0.3:
                    st["fault"] = random_fault(rng, name)
                    if name == "wait_for_cores_to_reach_state":
                        st["fault"] = None
                ctxd = g.decoys(ctx_names(cls))
                rng.shuffle(ctxd)
                cases.append({"cls": cls, "cfg": cfg, "init": g.decoys(["app_id"]) if cls == "MachineController" and rng.random() < 0.5 else None,
                              "prog": [{"s": "block", "id": g.fresh_id(), "ctx": ctxd, "body": [st]}],
                              "depth": 1, "uses_ctx": True, "exc_exit": False,
                              "label": "explicit/%s.%s/%s" % (cls, name, style)})
    return cases


def changed_cases(ctx, rng, reps):
    """only when the wire rule extracted from the source differs from the hand-written one for some methods: those
    methods, and every method whose rule calls them, in every passing style - under a block that sets every contextual
    name to another value, with an ambient core, with and without faults"""
    cases = []
    if not _CHANGED:
        return cases
    r = ctx.lean([{"suite": "c18", "op": "sigs"}])[0]
    callers = {(s["cls"], s["name"]): set(s["calls"]) for s in r}
    todo = set(_CHANGED)
    for _ in range(4):
        todo |= {k for k, cs in callers.items() if any((k[0], c) in todo for c in cs)}
    for rep in range(reps):
        for (cls, name) in sorted(todo):
            if (cls, name) in _SKIP or (cls, name) not in signatures() or name == "application":
                continue
            for style in ("positional", "keyword", "context", "mixed"):
                for fault in [None] + FAULTS.get(name, []) + ([["scp_err", rep % 5]] if cls == "MachineController" else []):
                    cfg = random_cfg(rng, cls)
                    if name in ("discover_connections", "get_system_info"):
                        cfg["machine"] = random_machine(rng)
                    g = Gen(rng, cls, cfg)
                    st, need = g.call(name, style)
                    if fault is not None and name != "wait_for_cores_to_reach_state":
                        st["fault"] = fault
                    ctxd = [[k, v] for k, v in need.items()] + g.decoys([n for n in ctx_names(cls) if n not in need])
                    rng.shuffle(ctxd)
                    cases.append({"cls": cls, "cfg": cfg, "init": None,
                                  "prog": [{"s": "block", "id": g.fresh_id(), "ctx": ctxd, "body": [st]}],
                                  "depth": 1, "uses_ctx": True, "exc_exit": False,
                                  "label": "changed/%s.%s/%s" % (cls, name, style)})
    return cases


def scale_cases(ctx, rng, reps):
    """a handful of cases far beyond the usual size: > 1000 nested blocks, contexts with hundreds of names,
    connection tables of the largest machines"""
    cases = []
    for rep in range(reps):
        for cls in ("MachineController", "BMPController"):
            cfg = random_cfg0(rng, cls)
            g = Gen(rng, cls, cfg)
            names = ctx_names(cls)
            probe = lambda: g.call("sdram_free" if cls == "MachineController" else "read_adc", "default", caught=True)[0]
            ctxs = [g.decoys([n for n in names if rng.random() < 0.5]) for _ in range(7)] + [g.decoys(names)]
            n = rng.choice([1100, 1500]) if cls == "MachineController" else 257
            body = [probe()] + ([{"s": "raise"}] if rng.random() < 0.5 else [])
            prog = [{"s": "try", "body": [{"s": "deep", "id": 10000, "n": n, "ctxs": ctxs, "body": body}]}, probe()]
            cases.append({"cls": cls, "cfg": cfg, "init": None, "prog": prog, "depth": 1, "uses_ctx": True,
                          "exc_exit": len(body) > 1, "label": "scale/deep"})
            # a context with hundreds of names (most of them no argument of anything)
            g = Gen(rng, cls, cfg)
            wide = [["n%d" % i, i] for i in range(rng.choice([257, 400]))] + g.decoys(names)
            rng.shuffle(wide)
            prog = [{"s": "block", "id": g.fresh_id(), "ctx": wide, "body": [
                probe(), {"s": "update", "kv": [["m%d" % i, i] for i in range(300)]}, probe(),
                {"s": "block", "id": g.fresh_id(), "ctx": g.decoys(names[:1]), "body": [probe()]}, probe()]}, probe()]
            cases.append({"cls": cls, "cfg": cfg, "init": None, "prog": prog, "depth": 1, "uses_ctx": True,
                          "exc_exit": False, "label": "scale/wide"})
        # the largest connection tables: every board of a 256 x 256 / 240 x 252 machine discovered
        for (w, h) in ((256, 256), (240, 252), (1, 255)):
            root = [rng.choice([0, 4, 8]) % w, rng.choice([0, 8, 4]) % h]
            eth = []
            for bx in range(0, w + 12, 12):
                for by in range(0, h + 12, 12):
                    for dx, dy in ((0, 0), (4, 8), (8, 4)):
                        e = [(bx + dx + root[0]) % w, (by + dy + root[1]) % h]
                        eth.append(e)
            eth = [list(t) for t in sorted({tuple(e) for e in eth})]
            cfg = {"dims": [w, h], "root": root, "conns": [e for e in eth if rng.random() < 0.9]}
            g = Gen(rng, "MachineController", cfg)
            prog = []
            for _ in range(12):
                st, need = g.call(rng.choice(["read", "sdram_free", "get_chip_info", "fill", "iptag_get"]), "context")
                g.used = set()
                prog.append({"s": "block", "id": g.fresh_id(), "ctx": [[k, v] for k, v in need.items()], "body": [st]})
            cases.append({"cls": "MachineController", "cfg": cfg, "init": None, "prog": prog, "depth": 1, "uses_ctx": True,
                          "exc_exit": False, "label": "scale/table"})
    return cases


def twin_cases(ctx, rng, reps):
    """TWINS on one controller: the same command three times, the middle one differing in exactly one contextual
    argument (A B A) - given explicitly, and through the enclosing context; and a second controller of the same
    class, in the same process, kept inside a block of its own and used alternately (its commands must not be
    touched by the first one's contexts, nor the other way round)"""
    import copy
    cases = []
    for rep in range(reps):
        for (cls, name) in sorted(signatures()):
            if (cls, name) in _SKIP or name in ("application", "discover_connections", "get_system_info"):
                continue
            sig = signatures()[(cls, name)]
            cn = [n for n in sig["argNames"][1:] + [k for k, _ in sig["kwOnly"]] if n in ctx_names(cls)]
            if not cn:
                continue
            cfg = random_cfg(rng, cls)
            g = Gen(rng, cls, cfg)
            style = rng.choice(["keyword", "context"])
            a, need = g.call(name, style)
            twin = rng.choice(cn)
            other = g.kinded(twin, g.ctx_value(twin))

            def variant(st, need, change):
                st, need = copy.deepcopy(st), dict(need)
                st["id"] = g.fresh_id()
                if change:
                    if twin in need:
                        need[twin] = other
                    else:
                        st["kw"] = [[k, other if k == twin else v] for k, v in st["kw"]]
                return {"s": "block", "id": g.fresh_id(), "ctx": [[k, v] for k, v in need.items()], "body": [st]}
            order = [False, True, False] if rng.random() < 0.5 else [True, False, True]
            prog = [variant(a, need, ch) for ch in order]
            case = {"cls": cls, "cfg": cfg, "init": None, "prog": prog, "depth": 1, "uses_ctx": bool(need),
                    "exc_exit": False, "label": "twins/%s" % style}
            if rng.random() < 0.5:
                # the second controller: its own initial context, one block open all the time, one command between
                # every two statements of the first controller's program
                g2 = Gen(rng, cls, cfg)
                case["companion"] = {"init": g2.decoys([n for n in ctx_names(cls) if rng.random() < 0.5]),
                                     "ctx": g2.decoys(ctx_names(cls)),
                                     "calls": [g2.call(name, rng.choice(["default", "keyword", "mixed"]))[0] for _ in range(4)]}
                case["label"] += "+companion"
            cases.append(case)
    return cases


def reuse_cases(ctx, rng, reps):
    """context OBJECTS kept and entered more than once: again while already active (with another block that
    sets the same arguments in between), later after having been left, from nested application blocks, with
    exceptions raised inside, with update_current_context inside a re-entered block, with callbacks"""
    cases = []
    mc, bmp = "MachineController", "BMPController"

    def mk(cls, cfg, prog, label, exc=False):
        cases.append({"cls": cls, "cfg": cfg, "init": None, "prog": prog, "depth": 1, "uses_ctx": True,
                      "exc_exit": exc, "label": "reuse/" + label})

    for rep in range(reps):
        for variant in range(13):
            cls = bmp if variant in (7, 12) else mc
            cfg = random_cfg(rng, cls)
            g = Gen(rng, cls, cfg)
            if cls == mc:
                names = ["x", "y"]
                probe = lambda: g.call("sdram_free", "default", caught=True)[0]

                def alloc():
                    st = g.call("sdram_alloc", "keyword", caught=True)[0]
                    st["kw"] = [kv for kv in st["kw"] if kv[0] != "app_id"]      # application id from the context
                    return st
            else:
                names = ["frame", "board"]
                probe = lambda: g.call("read_adc", "default", caught=True)[0]
                alloc = probe
            fid = g.fresh_id
            A, B = g.decoys(names), g.decoys(names)
            new = lambda oid, ctxd, **k: dict({"s": "new", "oid": oid, "ctx": ctxd}, **k)
            enter = lambda oid, body, **k: dict({"s": "enter", "id": fid(), "oid": oid, "body": body}, **k)
            block = lambda ctxd, body: {"s": "block", "id": fid(), "ctx": ctxd, "body": body}
            if variant in (0, 7):
                # a; b (same arguments); a again: after the inner block b's values are in force again
                prog = [new(1, A), enter(1, [probe(), block(B, [probe(), enter(1, [probe()]), probe()]), probe()]), probe()]
            elif variant == 1:
                # application objects: app a / application(b) / app a again
                ia, ib = g.ctx_value("app_id"), g.ctx_value("app_id")
                prog = [{"s": "newapp", "id": fid(), "oid": 1, "pos": [ia], "kw": []},
                        enter(1, [{"s": "app", "id": fid(), "pos": [], "kw": [["app_id", ib]], "stop_fails": False,
                                   "body": [alloc(), enter(1, [alloc()]), alloc()]}, alloc()]), alloc()]
            elif variant == 2:
                # kept and used again after it was left; an update made during the first use stays in the object
                prog = [new(1, A), enter(1, [{"s": "update", "kv": g.decoys([names[0]])}, probe()]), probe(),
                        enter(1, [probe()]), probe()]
            elif variant == 3:
                # the same object used from nested application blocks
                ia, ib = g.ctx_value("app_id"), g.ctx_value("app_id")
                app = lambda i, body: {"s": "app", "id": fid(), "pos": [i], "kw": [], "stop_fails": False, "body": body}
                prog = [new(1, A), app(ia, [enter(1, [alloc(), app(ib, [enter(1, [probe(), alloc()]), alloc()]), alloc()])]), alloc()]
            elif variant == 4:
                # an exception raised inside the re-entered block: every block on the way removes its own entry
                prog = [new(1, A), enter(1, [block(B, [{"s": "try", "body": [enter(1, [probe(), {"s": "raise"}])]}, probe()]), probe()]),
                        {"s": "try", "body": [enter(1, [block(B, [enter(1, [{"s": "raise"}])])])]}, probe()]
            elif variant == 5:
                # update_current_context inside the re-entered block changes the ONE object, also where it is active below
                prog = [new(1, A), enter(1, [block(g.decoys(names[:1]), [enter(1, [{"s": "update", "kv": g.decoys(names)}, probe()]),
                                                                       probe()]), probe()]), probe()]
            elif variant == 6:
                # callbacks registered once on a kept object run on every exit of it, in the context being closed
                prog = [new(1, A, cb=[probe()]), enter(1, [block(B, [enter(1, [probe()]), probe()])]), enter(1, []), probe()]
            elif variant in (10, 12):
                # the canonical loop `core = mc(p=3); for x, y in chips: with mc(x=x, y=y), core: command`: the SAME kept
                # object on top of DIFFERENT enclosing blocks in consecutive commands, no command in between (a merge
                # of the stack remembered per top-of-stack object would be stale here)
                inner = g.decoys(names[:1])
                prog = [new(1, inner)] + [block(g.decoys(names), [enter(1, [probe()] * rng.randrange(1, 3))])
                                          for _ in range(rng.randrange(2, 5))] + [probe()]
            elif variant == 11:
                # the same, with what lies beneath the kept object changed by update_current_context, by a nested
                # re-entry and by leaving the enclosing block - again without a command in between
                inner = g.decoys(names[:1])
                prog = [new(1, inner),
                        block(g.decoys(names), [enter(1, [probe()]), {"s": "update", "kv": g.decoys(names[1:])},
                                                enter(1, [probe(), block(g.decoys(names[1:]), [enter(1, [probe()])]), probe()])]),
                        enter(1, [probe()]), probe()]
            elif variant == 8:
                # two kept objects interleaved: a b a b a, left one by one with a command after each exit
                def nest(seq):
                    if not seq:
                        return [probe()]
                    return [probe(), enter(seq[0], nest(seq[1:])), probe()]
                prog = [new(1, A), new(2, B)] + nest([1, 2, 1, 2, 1][:rng.randrange(3, 6)]) + [probe()]
            else:
                # random interleavings of three kept objects (over-lapping argument subsets), blocks, raises
                objs = {1: A, 2: B, 3: g.decoys(names[:1])}

                def rnd(depth):
                    # commands are optional at every point: two consecutive commands may see the same object on top of
                    # the stack with different blocks beneath it
                    maybe = lambda: [probe()] if rng.random() < 0.6 else []
                    out = maybe()
                    for _ in range(rng.randrange(1, 3)):
                        r = rng.random()
                        if depth >= 5 or r < 0.15:
                            out.append(probe())
                        elif r < 0.75:
                            out += [enter(rng.choice(sorted(objs)), rnd(depth + 1))] + maybe()
                        elif r < 0.9:
                            out += [block(g.decoys([rng.choice(names)]), rnd(depth + 1))] + maybe()
                        else:
                            out += [{"s": "try", "body": [enter(rng.choice(sorted(objs)), rnd(depth + 1) + [{"s": "raise"}])]}, probe()]
                    return out
                prog = [new(k, v) for k, v in sorted(objs.items())] + rnd(0)
            mk(cls, cfg, prog, str(variant), exc=variant in (4, 9))
            if not any(st.get("cb") for st in prog):
                # the same program with the harness NOT asking get_context_arguments() at the block boundaries
                cases.append(dict(cases[-1], unobserved=True, label=cases[-1]["label"] + "/unobserved"))
    return cases


def systematic_cases(ctx, rng, reps):
    cases = []
    for (cls, name), sig in sorted(signatures().items()):
        cn = [n for n in sig["argNames"][1:] + [k for k, _ in sig["kwOnly"]] if n in ctx_names(cls)]
        try:
            Gen(rng, cls, random_cfg(rng, cls)).call(name, "positional")
        except UnknownMethod as e:
            ctx.broken.append("harness: %s" % e)
            ctx.extra.setdefault("methods_not_driven", []).append("%s.%s" % (cls, name))
            _SKIP.add((cls, name))
            continue
        for rep in range(reps):
            for style in ("positional", "keyword", "context", "default", "mixed"):
                for nesting in range(4):
                    cfg = random_cfg(rng, cls)
                    g = Gen(rng, cls, cfg)
                    if name == "application":
                        # the application context manager itself, in every style
                        body_call, need2 = g.call("send_signal", "context")
                        need2.pop("app_id", None)
                        st, need = g.call("application", style)
                        app = {"s": "app", "id": st["id"], "pos": st["pos"], "kw": st["kw"],
                               "stop_fails": nesting == 3, "body": [body_call] + ([{"s": "raise"}] if nesting == 2 else [])}
                        inner = [app]
                    else:
                        st, need = g.call(name, style)
                        inner = [st]
                    ctxd = [[k, v] for k, v in need.items()]
                    rng.shuffle(ctxd)
                    exc_exit = False
                    if nesting == 0:
                        prog = ([{"s": "update", "kv": ctxd}] if ctxd else []) + inner
                    elif nesting == 1:
                        prog = [{"s": "block", "id": g.fresh_id(), "ctx": ctxd + g.decoys([n for n in cn if n not in need and rng.random() < 0.5]),
                                 "body": inner}]
                    elif nesting == 2:
                        k = rng.randrange(len(ctxd) + 1)
                        over = ctxd[:k]
                        outer = ctxd[k:] + g.decoys([n for n, _ in over]) + g.decoys([n for n in cn if n not in need and rng.random() < 0.5])
                        rng.shuffle(outer)
                        prog = [{"s": "block", "id": g.fresh_id(), "ctx": outer,
                                 "body": [{"s": "block", "id": g.fresh_id(), "ctx": over, "body": inner}] + [g.call(name, "default")[0]]}]
                    else:
                        # a block that sets decoys is left by exception; the call follows in the restored context
                        exc_exit = True
                        bad = {"s": "block", "id": g.fresh_id(), "ctx": g.decoys(cn or ctx_names(cls)[:1]),
                               "body": [{"s": "block", "id": g.fresh_id(), "ctx": g.decoys((cn or ctx_names(cls))[:1]),
                                         "body": [{"s": "raise"}]}]}
                        prog = [{"s": "block", "id": g.fresh_id(), "ctx": ctxd, "body": [{"s": "try", "body": [bad]}] + inner}]
                    cases.append({"cls": cls, "cfg": cfg, "init": None, "prog": prog, "depth": nesting,
                                  "uses_ctx": bool(need), "exc_exit": exc_exit,
                                  "label": "%s.%s/%s/n%d" % (cls, name, style, nesting)})
    return cases


def random_prog(g, depth, budget):
    rng = g.rng
    cls = g.cls
    names = sorted(n for (c, n) in signatures() if c == cls and n != "application" and (c, n) not in _SKIP)
    prog = []
    n = rng.randrange(1, 4)
    for _ in range(n):
        if budget[0] <= 0:
            break
        budget[0] -= 1
        r = rng.random()
        if r < 0.40 or depth >= 4:
            name = rng.choice(names)
            if name in ("discover_connections", "get_system_info") and rng.random() < 0.7:
                name = rng.choice(names)      # these two send hundreds of datagrams: keep them rarer
            st, need = g.call(name, rng.choice(["mixed", "mixed", "context", "default", "keyword", "positional"]),
                              caught=rng.random() < 0.8)
            if cls == "MachineController" and rng.random() < 0.12:
                st["fault"] = random_fault(rng, name)
            # values that must come from a context: set them on the way (block or update), or leave them out
            if need and rng.random() < 0.7:
                kv = [[k, v] for k, v in need.items() if rng.random() < 0.85]
                if (rng.random() < 0.5 or any(isinstance(v, dict) for _, v in kv)) and kv:
                    prog.append({"s": "block", "id": g.fresh_id(), "ctx": kv, "body": [st]})
                else:
                    if kv:
                        prog.append({"s": "update", "kv": kv})
                    prog.append(st)
            else:
                prog.append(st)
        elif r < 0.62:
            pool = ctx_names(cls) + ["tag", "clear", "foo", "100%s", "{}", "x{0}%d"]
            sub = [nm for nm in pool if rng.random() < 0.4]
            ctxd = g.decoys([nm for nm in sub if nm in ctx_names(cls)]) + [[nm, rng.randrange(2)] for nm in sub if nm not in ctx_names(cls)]
            if rng.random() < 0.04:
                # the sentinel itself as a context value (not for names inner calls pick up: p, processor)
                ctxd.append([rng.choice([nm for nm in ctx_names(cls) if nm not in ("p", "processor")]), {"req": 1}])
            rng.shuffle(ctxd)
            blk = {"s": "block", "id": g.fresh_id(), "ctx": ctxd, "body": random_prog(g, depth + 1, budget)}
            if rng.random() < 0.3:
                blk["cb"] = random_prog(g, depth + 1, budget)
            prog.append(blk)
        elif r < 0.74 and cls == "MachineController":
            style = rng.choice(["positional", "keyword", "context"])
            st, need = g.call("application", style)
            if need and rng.random() < 0.8:
                prog.append({"s": "update", "kv": [[k, v] for k, v in need.items()]})
            app = {"s": "app", "id": st["id"], "pos": st["pos"], "kw": st["kw"], "stop_fails": rng.random() < 0.2,
                   "body": random_prog(g, depth + 1, budget)}
            if rng.random() < 0.3:
                app["cb"] = random_prog(g, depth + 1, budget)
            prog.append(app)
        elif r < 0.80 and getattr(g, "pool", None):
            # `with o:` for a kept object: possibly one that is active already, or one used before
            oid, is_app = rng.choice(g.pool)
            prog.append({"s": "enter", "id": g.fresh_id(), "oid": oid, "stop_fails": is_app and rng.random() < 0.15,
                         "body": random_prog(g, depth + 1, budget)})
        elif r < 0.84:
            prog.append({"s": "update", "kv": g.decoys([nm for nm in ctx_names(cls) if rng.random() < 0.4])})
        elif r < 0.92:
            prog.append({"s": "try", "body": random_prog(g, depth + 1, budget)})
        else:
            prog.append({"s": "raise"})
            break
    return prog


def has_exc_exit(prog, inside=False):
    for st in prog:
        if st["s"] == "raise" and inside:
            return True
        if st["s"] in ("block", "app", "enter") and (has_exc_exit(st["body"], True) or has_exc_exit(st.get("cb", []), True)):
            return True
        if st["s"] == "try" and has_exc_exit(st["body"], inside):
            return True
    return False


def random_cases(ctx, rng, n):
    cases = []
    for i in range(n):
        cls = "MachineController" if rng.random() < 0.75 else "BMPController"
        cfg = random_cfg(rng, cls)
        if cls == "MachineController" and rng.random() < 0.3:
            cfg["machine"] = random_machine(rng)
        g = Gen(rng, cls, cfg)
        init = None
        if rng.random() < 0.3:
            init = g.decoys([nm for nm in ctx_names(cls) if rng.random() < 0.5])
        g.pool, head = [], []
        if rng.random() < 0.5:
            # context objects created up front and kept: the program may enter each any number of times
            for oid in range(1, rng.randrange(2, 5)):
                if cls == "MachineController" and rng.random() < 0.3:
                    head.append({"s": "newapp", "id": g.fresh_id(), "oid": oid, "pos": [g.ctx_value("app_id")], "kw": []})
                    g.pool.append((oid, True))
                else:
                    head.append({"s": "new", "oid": oid, "ctx": g.decoys([nm for nm in ctx_names(cls) if rng.random() < 0.5])})
                    g.pool.append((oid, False))
                if rng.random() < 0.25:
                    pr = g.call("send_signal" if cls == "MachineController" else "read_adc", "default", caught=True)[0]
                    head[-1]["cb"] = [pr] + ([{"s": "raise"}] if rng.random() < 0.2 else [])
        prog = head + random_prog(g, 0, [14])
        cases.append({"cls": cls, "cfg": cfg, "init": init, "prog": prog, "depth": 1, "uses_ctx": True,
                      "exc_exit": has_exc_exit(prog)})
    return cases


_MODEL_CORE = [[]]
_CHANGED = []      # decorated methods whose wire rule EXTRACTED from the source differs from the hand-written one


def check_signature_table(ctx):
    """every decorated method has a wire rule, and the model's table is the source's table"""
    r = ctx.lean([{"suite": "c18", "op": "sigs"}])[0]
    got = {(s["cls"], s["name"]): s for s in r}
    for key in signatures():
        s = got.get(key)
        if s is None:
            ctx.broken.append("translator: %s.%s missing from Gen/Signatures.lean" % key)
        elif not s["wf"]:
            ctx.broken.append("signature of %s.%s is not well-formed for the decorator" % key)
        elif s["body"] == 0 and key[1] != "application":
            ctx.broken.append("no wire rule for %s.%s (new decorated method: extend bodyOf)" % key)
        elif not s["rule_ok"] or not s["chip_known"]:
            ctx.broken.append("wire rule of %s.%s does not address the chip / board its signature names" % key)
    # every decorated method a decorated method calls directly (or hands on as a bound method) must be an
    # inner call of its wire rule: composite operations re-dispatch through the decorator
    from harness import common
    from harness.gen import c18 as gmod
    n_inner = 0
    for key, callees in sorted(gmod.read_inner_calls(common.REPO).items()):
        have = set(got.get(key, {}).get("calls", []))
        if key[1] == "application":
            callees = [c for c in callees if c != "send_signal"]     # its callback: modelled by `enter` of the object
        n_inner += len(callees)
        for c in callees:
            if c not in have:
                ctx.broken.append("wire rule of %s.%s lacks the inner call of %s the source makes" % (key[0], key[1], c))
    ctx.extra["inner_calls_in_source"] = n_inner
    # the wire rules extracted from the source on this run (Gen/C18Bodies.lean) against the hand-written ones
    del _CHANGED[:]
    for key in sorted(signatures()):
        s = got.get(key)
        if s is None or "gen_same_rules" not in s:
            continue
        why = []
        if s["gen_unknown"]:
            why.append("a send / inner call the translator cannot classify (%s)" % "; ".join(s["gen_unknown"]))
        if not s["gen_rule_ok"]:
            why.append("a request that does not address the chip / board / application its signature names")
        if not s["gen_same_rules"]:
            why.append("requests other than those of the hand-written rule bodyOf")
        if why:
            _CHANGED.append(key)
            ctx.broken.append("wire rule extracted from the source of %s.%s has %s" % (key[0], key[1], " and ".join(why)))
    ctx.extra["generated_ops"] = sum(s.get("gen_n_ops", 0) for s in got.values())
    ctx.extra["generated_rules_differ_for"] = sorted("%s.%s" % k for k in _CHANGED)
    ctx.extra["decorated_methods"] = len(signatures())
    ctx.extra["symbolic_requests"] = sum(s["n_rules"] for s in got.values())
    _MODEL_CORE[0] = sorted("%s.%s" % k for k, s in got.items() if s["core_from_context"])
    ctx.extra["model_core_from_context"] = _MODEL_CORE[0]


def style_probe(ctx):
    """Observation (documented, not a violation): for which methods the wire traffic depends on HOW the same
    contextual values are passed (keyword / enclosing context), and on an ambient `p` set by an enclosing context.
    Compared with what the model proves (`core_from_context_methods`, `core_style_dependent_methods`,
    `chip_independent_of_passing_style`): an observed dependence the model does not predict, or ANY difference in
    the chips (x, y) addressed, is reported as a model/implementation mismatch (the wire oracle of the systematic
    cases turns a wrong chip into a violation with a replay)."""
    import random
    differs, ambient = {}, {}
    fixed = {"x": 3, "y": 5, "p": 7, "app_id": 40, "processor": 9, "cabinet": 0, "frame": 0, "board": 1}
    model_core = set(_MODEL_CORE[0])

    def observe(cls, cfg, prog):
        r = run_impl({"cls": cls, "cfg": cfg, "init": None, "prog": prog})
        ev = [e for e in r["events"] if e["ev"] == "call"]
        return [(d["x"], d["y"], d["p"], d["cmd"], d["arg1"], d["arg2"]) for d in ev[0]["datagrams"]] if ev else None

    for (cls, name) in sorted(signatures()):
        if (cls, name) in _SKIP or name == "application":
            continue
        full = "%s.%s" % (cls, name)
        cfg = {"dims": None, "root": None, "conns": []} if cls == "MachineController" else {"bmp_conns": [[0, 0]]}
        obs = []
        for style in ("keyword", "context"):
            g = Gen(random.Random(1), cls, cfg)
            st, need = g.call(name, style, ctxvals=dict(fixed))
            if name.startswith("sdram_alloc"):
                st["fault"] = "alloc0"      # the failure path is the one with inner reads
                st["kw"] = [kv for kv in st["kw"] if kv[0] != "tag"]
                if len(st["pos"]) > 1:
                    st["pos"][1] = 1
                else:
                    st["kw"].append(["tag", 1])
            if name.startswith("get_iobuf"):
                st["fault"] = "iobuf"
            prog = [{"s": "block", "id": 99, "ctx": [[k, v] for k, v in need.items()], "body": [st]}] if need else [st]
            obs.append(observe(cls, cfg, prog))
            if style == "keyword" and cls == "MachineController":
                # the same call under an enclosing context that sets only `p`
                amb = observe(cls, cfg, [{"s": "block", "id": 98, "ctx": [["p", 11]], "body": [st]}])
                if amb != obs[0]:
                    ambient[full] = sorted({t[2] for t in (amb or [])} - {t[2] for t in (obs[0] or [])})
                    if [t[:2] + t[3:] for t in (amb or [])] != [t[:2] + t[3:] for t in (obs[0] or [])]:
                        ctx.mismatch("c18.style", "%s: an ambient p changes more than the core: %r vs %r" % (full, obs[0][:4], amb[:4]), {})
        if obs[0] != obs[1]:
            differs[full] = {"keyword": [list(t[:3]) for t in (obs[0] or [])][:3],
                             "context": [list(t[:3]) for t in (obs[1] or [])][:3]}
            if [t[:2] + t[3:] for t in (obs[0] or [])] != [t[:2] + t[3:] for t in (obs[1] or [])]:
                ctx.mismatch("c18.style", "%s: the passing style changes more than the core of a request "
                             "(chip / command / arguments): keyword %r context %r" % (full, obs[0][:4], obs[1][:4]), {})
    ctx.extra["wire_depends_on_passing_style"] = differs
    ctx.extra["core_follows_ambient_p"] = ambient
    unpredicted = sorted((set(differs) | set(ambient)) - model_core)
    if unpredicted:
        ctx.mismatch("c18.style", "the core of a request depends on the context for %r, which the model "
                     "(core_from_context_methods) does not predict" % (unpredicted,), {})
    missing = sorted(model_core - set(differs) - set(ambient))
    ctx.extra["core_from_context_not_observed"] = missing
    if missing:
        ctx.mismatch("c18.style", "the model says the core of an inner request of %r is left to the context, "
                     "but no such dependence was observed" % (missing,), {})


def run(ctx):
    ctx.extra["rule"] = RULE
    ctx.assumptions += [
        "blocks are `with` statements (well-bracketed enter/exit); a context object may be kept and entered any number of times, also while active; it is used with the controller that created it; callbacks are registered before the first entry",
        "board arguments are ints or non-empty collections (list, tuple, set, range, iterator, generator, map) of distinct non-negative ints (set_power / set_led only: the other BMP methods document a single board); a single-pass iterable is used for one command",
        "the hand-written `bodyOf` (which requests / inner decorated calls a method makes) is proved to give the same symbolic requests as the table extracted from the source on this run (gen_rules_eq_hand); the extraction itself (harness/gen/c18.py) is trusted; order and multiplicity of sends are validated by correspondence only",
        "whether a method body fails (SCP error, failed allocation) is taken from the implementation run as an input of the model; the connection table rewritten by discover_connections is observed per datagram, not predicted",
    ]
    try:
        check_signature_table(ctx)
        rng = ctx.rng
        mult = 4 if ctx.extended else 1
        cases = systematic_cases(ctx, rng, ctx.scale(1, 6) * mult)
        cases += extra_cases(ctx, rng, ctx.scale(1, 8) * mult)
        cases += reuse_cases(ctx, rng, ctx.scale(3, 40) * mult)
        cases += discover_cases(ctx, rng, ctx.scale(1, 6) * mult)
        cases += scale_cases(ctx, rng, ctx.scale(1, 2) * mult)
        cases += twin_cases(ctx, rng, ctx.scale(2, 16) * mult)
        cases += collection_cases(ctx, rng, ctx.scale(2, 12) * mult)
        cases += explicit_cases(ctx, rng, ctx.scale(3, 24) * mult)
        cases += changed_cases(ctx, rng, ctx.scale(6, 24))
        cases += random_cases(ctx, rng, ctx.scale(400, 40000) * mult)
        for i in range(0, len(cases), 2000):
            evaluate(ctx, cases[i:i + 2000])
        style_probe(ctx)
        tapped = ctx.tags.get("tapped", 0)
        ctx.extra["closure_tap_calls"] = tapped
        missing = [k for k in signatures() if ("method:%s.%s" % ("mc" if k[0] == "MachineController" else "bmp", k[1])) not in ctx.tags
                   and k[1] != "application"]
        ctx.extra["methods_never_accepted"] = sorted("%s.%s" % k for k in missing)
        if missing:
            ctx.mismatch("c18.coverage", "methods never driven to an accepted call: %r" % (missing,), {})
    finally:
        if _APLX[0] and os.path.exists(_APLX[0]):
            os.unlink(_APLX[0])
            _APLX[0] = None


def replay(ctx, payload):
    ctx.extra["rule"] = RULE
    case = payload["case"]
    if "prog" not in case:
        return
    try:
        # re-register argument objects for tokens: regenerate a table from every method's plausible values
        import random
        r = random.Random(0)
        for (cls, name) in signatures():
            for _ in range(8):
                given, extra = method_args(cls, name, r)
                for o in list(given.values()) + list(extra):
                    obj_token(o)
        evaluate(ctx, [dict(case)])
    finally:
        if _APLX[0] and os.path.exists(_APLX[0]):
            os.unlink(_APLX[0])
            _APLX[0] = None
THEOREMS += ["gen_scanned_all", "gen_no_unknown", "gen_rules_obey_signature_rule", "gen_rules_chip_known",
             "gen_wire_carries_resolved", "gen_chip_independent_of_passing_style", "gen_core_independent_of_passing_style",
             "gen_core_from_context_methods", "gen_rules_eq_hand", "gen_wire_within_hand_rules", "hand_wire_within_gen_rules",
             "gen_deferred", "gen_lazy",      # wire rules extracted from the source (Props/C18Bodies.lean)
             "gen_mc_send", "gen_bmpConnection", "gen_bmp_dest",      # the _send_scp primitives, read from the source
             "wireB_carries_resolved", "chipB_independent_of_passing_style", "coreB_independent_of_passing_style"]
THEOREMS += ['gen_localEth', 'gen_getConnection']   # translator tie: generated function bodies = model (Props/C18Gen.lean)
