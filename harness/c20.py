"""C20 - boot sends the complete image carrying this call's options only.

Correspondence of rig/machine_control/boot.py (+ struct_file.py, and
MachineController.boot) with the Lean model RigModel/Model/C20.lean over
*histories* of boots in one process, and the Lean specification `specOK`
evaluated on the implementation's own datagrams / returned structs.

Observation is by replacing the module attributes `socket` and `time` of
rig.machine_control.boot (no source change).  Every history starts from a
freshly (re)loaded boot module, i.e. from the state of a new process."""
import enum
import importlib
import json
import operator
import os
import random
import re
import shutil
import struct
import sys
import tempfile
import traceback

CLAIM = dict(
    text=("Machine-checked proof (Lean 4) over ALL images, struct tables, option sets, clocks and call histories: (1) the "
          "datagram sequence of boot() is start(n-1), n blocks numbered 0..n-1 of <= 1 KiB, end(1), sent to the host/port "
          "of this call; (2) undoing the per-word byte swap and concatenating gives the image with bytes 384..511 replaced "
          "by the first 128 bytes of the packed sv struct and nothing else changed; (3) Struct.pack writes every field "
          "little-endian at its offset and zero elsewhere, and the fields carry the file defaults overridden by this "
          "call's options and then the clock fields; (4) the returned struct carries the same values; (5) composed: every "
          "in-domain call satisfies the executable specification specOK, which is the oracle evaluated on the "
          "implementation's datagrams; (6) in the repaired (copy-before-update) model every call of every history is a "
          "function of its own arguments and meets specOK, and a kernel-evaluated witness shows that the code as written "
          "(in-place update of the default dict) leaks options into the next boot. Tied to rig/machine_control/boot.py, "
          "struct_file.py and MachineController.boot by exact event-trace correspondence (connect/send/sleep/close, "
          "returned structs, exceptions, caller dictionaries) over generated boot histories in which EVERY returned "
          "struct dictionary is kept and read again after every later boot, MachineController construction, "
          "read_struct_file of another struct file and caller edit of another result, and judged by the same Lean "
          "predicate (returnedOK with the options of the call that returned it); sark.struct and the boot "
          "constants are regenerated from the source on every run by an independent parser and the generated sv table "
          "is proved well formed. (7) THE STRUCT-FILE PARSER IS INSIDE THE MODEL: parseStructFile (Model/C20Parse.lean) "
          "models read_struct_file byte for byte (splitlines, comment stripping, tokens, the two regular expressions, "
          "num incl. hex / sign / PEP-515 underscores, perl pack letters with counts, array suffix, in-place "
          "replacement of repeated struct / field names, every exception with the order in which the code raises "
          "them); sark_parsed: the BYTES of rig/boot/sark.struct (regenerated each run) parse in the kernel to the "
          "table the boot theorems and the oracle use, boot_meets_spec_parsed: the boot theorem for the parsed "
          "table; parse_print: for EVERY well-formed table parsing its canonical printing gives the table "
          "(unbounded; well-formedness is decided by tableWFB and holds for the bundled table, sark_table_wf); "
          "field_line_accepted / field_line_raises / line_syntax_error: an accepted field line stores exactly the "
          "name, array length, pack characters, offset and default the line states, and which line raises which "
          "error; perl_packs_documented: rig's perl->Python pack table is the documented meaning of the perl "
          "letters. Tied on every run by STREAM struct files: generated struct-file texts (valid: every pack "
          "letter, counts, arrays, hex / decimal / signed / underscored numbers, odd white space, comments, CR / LF "
          "/ CRLF, repeated headers, fields and structs; malformed: missing name / size / base, wrong token counts, "
          "unknown keys and pack letters, malformed numbers, '#' inside tokens, field before name, empty files, "
          "bytes outside ASCII) go to read_struct_file and to parseStructFile and tables and errors (kind, line, "
          "token) are compared exactly; every text with an in-domain sv is then BOOTED and judged by specOK with "
          "the table the model parser gave; read_struct_file(printStructs T) = T is checked for every parsed table."),
    design="3/C20",
    note=("Domain: 4 | len image, 512 <= len image < 32 KiB, non-overlapping integer fields inside the struct, options "
          "naming fields with values that fit. Outside the domain only the correspondence is checked. The sleeps are "
          "recorded (their values must be this call's delays) but real time is not measured; a wrong delay, a wrong "
          "connect target or a wrong direct boot_packet() result is a correspondence mismatch, not a violation (the "
          "property text speaks about the datagrams and the returned definitions). Checklist items judged not "
          "applicable: hashable identifiers / collections-as-iterables / lazily consumed results (boot takes and "
          "returns none; its only collection argument is the sv_overrides mapping, exercised as dict, OrderedDict, "
          "defaultdict and a dict subclass); read_struct_file(bytearray / memoryview) (the parser uses the tokens as "
          "dict keys: only bytes is legal); 257 blocks / 65,537 blocks (the DTCM assertion bounds a boot at 32 blocks, "
          "theorem boot_sequence; the 8-bit block number can never wrap); recursion depth (nothing in scope is "
          "recursive); per-chip configuration (boot talks to one unbooted board; layouts, bases, images, ports and "
          "delays do vary per call and per controller). Left at their defaults: MachineController.boot("
          "only_if_needed=True / check_booted=True) (they decide WHETHER to boot and wait afterwards by talking SCP "
          "to a machine - C18/C09 territory; the boot datagrams are the same call of boot.boot), and "
          "MachineController(scp_port, n_tries, timeout, initial_context) (not used by boot); hostname is always a "
          "non-empty string (a real UDP socket is opened for controllers). Struct-file parser: Model/C20.lean's "
          "packValue knows the plain codes B b H I (anything else = struct.error, true for every 's' code); "
          "counted integer codes such as '1I' (perl 'V1') are covered by packValueFull (proved equal to packValue "
          "on the plain codes, tied to struct.pack by STREAM pack characters) and texts using them are compared "
          "parser-against-parser but not booted. A digit string longer than CPython's 4300-digit int limit is not "
          "generated. A parser difference on a text without an in-domain sv (malformed files, error kinds) is a "
          "correspondence mismatch: the property text does not say which error a malformed file raises."),
    technique="Lean 4 theorems over a hand-written model + differential correspondence over histories + Lean spec as oracle")

THEOREMS = ["consts_documented", "sv_table_ok", "boot_sequence", "unswap_concat", "config_area",
            "struct_pack_spec", "returned_defaults", "boot_meets_spec", "state_unchanged",
            "history_independent", "history_meets_spec", "fresh_process_default", "leak_witness"]

RULE = ("STREAM histories: 1-6 boot() calls from freshly loaded struct_file/boot modules: hosts, ports (default, 0, 1, "
        "65535, random), delays (defaults, 0, 0.0, given), keyword and positional convention, file names as str / "
        "bytes / pathlib, through boot.boot or MachineController.boot (plain / subclass / structs= given / deprecated "
        "width,height), images = bundled scamp.boot, random bytes, or (about half) STRUCTURED content built block by "
        "block from content classes - whole-block byte palindromes (full and short final block), word palindromes "
        "(blocks equal to their own swap), periodic with periods 1,2,3,4,8, repeated halves, all-0x00 / all-0xFF, "
        "equal to / the word swap of the previous block, zero head / zero tail - under image templates (mixed, blank "
        "first / middle / LAST block(s), all blocks equal, all zero, all 0xFF, all palindromes, palindromic last "
        "block, one class throughout); every block count 1..32 with random AND structured content in the thorough "
        "tier, block edges, out-of-domain short / unaligned / oversize; the widened search after a broken "
        "obligation draws from the same classes; evidence counts templates and per-block classes "
        "(content_template_*, content_block_*, content_last_block_*); struct file = bundled sark.struct or a synthetic "
        "layout (well-formed, overlapping, overflowing, unpackable; bases and other structs differ), options = none "
        "/ board preset / any field via keywords, via a fresh sv_overrides mapping (dict, OrderedDict, defaultdict, "
        "dict subclass), via a caller mapping reused across calls, via both incl. the same variable in both; values "
        "as int, bool, IntEnum member, numpy integer, edge / out-of-range / BIG (2^31 .. 2^100) integers, 0 / False "
        "for variables with non-zero defaults, non-integers (None, '', float), unknown names; clocks incl. t1 != t2 "
        "and 2^32 .. 2^100; the same call again; two layouts and two controllers used alternately; injected faults "
        "(missing file, connect fails, n-th send fails) followed by further boots with the same objects. Between "
        "boots the caller constructs MachineControllers, parses other struct files, edits dictionaries it passed "
        "(set / del / clear) and edits results it was given; every result of boot() is KEPT, must not share mutable "
        "objects with another result, and is re-read, re-packed (Struct.pack) and re-judged by the Lean predicates "
        "returnedOK / configOK after every later boot and step. Each call runs under a CPU limit (did-not-return). "
        "The FILE SYSTEM is part of the history (half of the histories): later boots name a path an earlier boot "
        "used after the caller replaced the file or rewrote it in place with new content of the SAME or another "
        "length (mtime kept or changed) or left it alone, other paths hold equal content, names relative or "
        "absolute, struct files share paths too; the image a boot must send is what its file holds when that boot "
        "is called (fs_* tags). STREAM interleaved: boot A with a complete boot B of another board run as a nested "
        "call from A's k-th mock send / patched sleep (before start, before the first / between / before the last "
        "block, before end, after end), optionally followed by a sequential boot; each board's datagram stream is "
        "judged separately by the same Lean predicate; as the property speaks of SEQUENCES of boots these findings "
        "carry their own keys (<key>-interleaved). "
        "STREAM twins: two boots equal in all but one aspect (one option value / added / zero, host, port, one image "
        "byte, clock, keyword-vs-mapping delivery, one layout default, layout base, delay, function-vs-controller) as "
        "[A,B] and [B,A]. STREAM scale: a 400-field struct with a 65,537-element array field and 3,000 comment "
        "lines and 200 overrides; every sv variable overridden in one call; 40 boots alternating two controllers and "
        "two layouts. STREAM packets: boot_packet() called directly (positional / keyword / defaults; command as int, "
        "BootCommand, numpy; arguments up to and beyond 32 bits; data as bytes / bytearray / memoryview of every "
        "length mod 4) against the model bootPacketChecked (mismatch only). Verdicts: Lean specOK + configOK on "
        "pack() of the returned definition on every in-domain call with valid options; exact event/result/caller-"
        "dictionary comparison with the Lean model everywhere. A history is non-trivial when it is in the domain "
        "and either some call carries options that a later call does not ask for or a result obtained with options "
        "is read again after a later boot / step; a packet case when it carries data; distinct = distinct canonical "
        "JSON; the replay carries the whole history incl. steps, faults and calling conventions. STREAM struct files: "
        "220 / 3000 valid + 220 / 3000 malformed struct-file texts (+ the bundled sark.struct) through "
        "read_struct_file and the Lean parseStructFile, compared exactly (parsed tables in file order, error kind "
        "with line number / token / struct name); 70 / 1200 of the texts with an in-domain sv are booted "
        "(sark_struct=<text>) and judged by specOK with the model-parsed table (replay = the one-call history "
        "carrying the text); every parsed table (some with sizes / offsets / defaults replaced by negative and "
        "large integers) is printed by the Lean printStructs and read back by read_struct_file. STREAM pack "
        "characters: struct.pack('<' + count + code, v) against packValueFull (mismatch only)")

RESERVED = {"hostname", "boot_port", "scamp_binary", "sark_struct", "boot_delay", "post_boot_delay",
            "sv_overrides", "width", "height", "only_if_needed", "check_booted"}
RANGE = {"B": (0, 255), "b": (-128, 127), "H": (0, 65535), "I": (0, 2 ** 32 - 1)}
PERL = {"B": "C", "b": "c", "H": "v", "I": "V"}
BOOT_DELAY, POST_DELAY = 0.25, 0.75        # delays of calls that do not say otherwise (old replays)
DEFAULT_DELAYS = (0.05, 2.0)                # boot()'s own defaults
BIG = [2 ** 31 - 1, 2 ** 31, 2 ** 32 - 1, 2 ** 32, 2 ** 53 + 1, 2 ** 63, 2 ** 64, 2 ** 100]

_cache = {}


def default_table():
    if "table" not in _cache:
        from harness.gen import c20 as g
        from harness import common
        st = g.parse_struct_file(common.REPO)
        sv = [s for s in st if s[0] == "sv"][0]
        _cache["table"] = {"size": sv[1], "fields": [list(f) for f in sv[3]]}
        _cache["structs"] = st
        _cache["image"] = open(os.path.join(common.REPO, "rig/boot/scamp.boot"), "rb").read()
    return _cache["table"]


# ---------------------------------------------------------------- generators
def image_bytes(spec):
    if spec["kind"] == "default":
        default_table()
        return _cache["image"]
    if spec["kind"] == "blocks":
        b = structured_image(spec)
    else:
        b = random.Random(spec["seed"]).randbytes(spec["len"])
    if spec.get("flip") is not None and b:           # a twin image: one byte differs
        i = spec["flip"] % len(b)
        b = b[:i] + bytes([b[i] ^ 0x5a]) + b[i + 1:]
    return b


BLOCK_CLASSES = ["random", "palindrome", "word_palindrome", "period1", "period2", "period3", "period4", "period8",
                 "repeat_half", "zero", "ff", "same_as_prev", "swap_of_prev", "zero_tail", "zero_head"]
IMAGE_TEMPLATES = ["mixed", "mixed", "mixed", "blank_last", "blank_last2", "blank_first", "blank_middle",
                   "all_equal", "all_zero", "all_ff", "all_palindrome", "last_palindrome", "uniform_class"]


def block_bytes(cls, n, rnd, prev):
    """one block of n bytes (n may be short / not a word multiple for out-of-domain images) of a content class"""
    if cls == "palindrome":                    # reads the same from both ends as a WHOLE (words are not symmetric)
        h = rnd.randbytes((n + 1) // 2)
        return (h + h[::-1][n % 2:])[:n]
    if cls == "word_palindrome":               # every word equals its own byte swap
        out = b"".join((lambda w: w + w[::-1])(rnd.randbytes(2)) for _ in range(n // 4 + 1))
        return out[:n]
    if cls.startswith("period"):
        p = rnd.randbytes(int(cls[6:]))
        return (p * (n // len(p) + 1))[:n]
    if cls == "repeat_half":
        h = rnd.randbytes((n + 1) // 2)
        return (h + h)[:n]
    if cls == "zero":
        return bytes(n)
    if cls == "ff":
        return b"\xff" * n
    if cls == "same_as_prev" and prev:
        return (prev * 2)[:n]
    if cls == "swap_of_prev" and prev:
        sw = b"".join(prev[i:i + 4][::-1] for i in range(0, len(prev), 4))
        return (sw * 2)[:n]
    if cls == "zero_tail":                     # code followed by zero words inside the block
        k = rnd.randrange(0, n + 1)
        return rnd.randbytes(k) + bytes(n - k)
    if cls == "zero_head":
        k = rnd.randrange(0, n + 1)
        return bytes(k) + rnd.randbytes(n - k)
    return rnd.randbytes(n)


def structured_image(spec):
    rnd = random.Random(spec["seed"])
    out, prev = [], b""
    n = spec["len"]
    for i, cls in enumerate(spec["classes"]):
        ln = min(1024, n - 1024 * i)
        prev = block_bytes(cls, ln, rnd, prev)
        out.append(prev)
    return b"".join(out)


def gen_block_classes(rng, n):
    """content classes of the ceil(n/1024) blocks of a structured image (by template)"""
    k = max(1, (n + 1023) // 1024)
    t = rng.choice(IMAGE_TEMPLATES)
    cl = [rng.choice(BLOCK_CLASSES) for _ in range(k)]
    if t == "blank_last":
        cl[-1] = "zero"
    elif t == "blank_last2":
        for i in range(max(0, k - rng.choice([2, 3])), k):
            cl[i] = "zero"
    elif t == "blank_first":
        cl[0] = "zero"
    elif t == "blank_middle" and k >= 3:
        cl[rng.randrange(1, k - 1)] = rng.choice(["zero", "ff"])
    elif t == "all_equal":
        cl = [rng.choice(["random", "palindrome", "period3"])] + ["same_as_prev"] * (k - 1)
    elif t == "all_zero":
        cl = ["zero"] * k
    elif t == "all_ff":
        cl = ["ff"] * k
    elif t == "all_palindrome":
        cl = ["palindrome"] * k
    elif t == "last_palindrome":
        cl[-1] = "palindrome"
    elif t == "uniform_class":
        cl = [rng.choice(BLOCK_CLASSES)] * k
    return t, cl


def structured(rng, n):
    t, cl = gen_block_classes(rng, n)
    return {"kind": "blocks", "len": n, "seed": rng.randrange(2 ** 30), "template": t, "classes": cl}


def gen_image(rng, force_len=None):
    img = gen_image_plain(rng, force_len)
    # image CONTENT is a generator dimension of its own: about half of the generated images are structured
    if img["kind"] == "rand" and rng.random() < 0.5:
        return structured(rng, img["len"])
    return img


def gen_image_plain(rng, force_len=None):
    if force_len is not None:
        return {"kind": "rand", "len": force_len, "seed": rng.randrange(2 ** 30)}
    r = rng.random()
    if r < 0.12:
        return {"kind": "default"}
    if r < 0.55:
        n = 4 * rng.randrange(128, 1100)
    elif r < 0.75:
        k = rng.randrange(1, 33)
        n = 1024 * k + rng.choice([-8, -4, 0, 0, 4, 8])
        n = max(512, min(n, 32764))
    elif r < 0.85:
        n = 4 * rng.randrange(128, 8191)
    elif r < 0.90:
        n = rng.choice([512, 516, 1020, 1024, 1028, 32764, 32760])
    elif r < 0.94:
        n = 4 * rng.randrange(0, 128)                  # no configuration area (out of domain)
    elif r < 0.97:
        n = rng.randrange(512, 5000) | 1               # not a word multiple (out of domain)
    else:
        n = rng.choice([32768, 32772, 32768 + 4 * rng.randrange(0, 300), 32766])   # too large
    return {"kind": "rand", "len": n, "seed": rng.randrange(2 ** 30)}


def gen_table(rng):
    """synthetic struct table: list fields [name, pypack, offset, printf, default, length]"""
    kind = rng.choice(["wf"] * 9 + ["overlap", "overlap", "overflow", "unpackable", "small", "noclock"])
    size = rng.choice([128, 132, 160, 256, 300])
    names = ["unix_time", "boot_sig", "root_chip", "hw_ver", "led0", "boot_delay"]
    packs = {"unix_time": "I", "boot_sig": "I", "root_chip": "B", "hw_ver": "B", "led0": "I", "boot_delay": "B"}
    if kind == "noclock":
        names.remove(rng.choice(["unix_time", "boot_sig", "root_chip"]))
    for i in range(rng.randrange(0, 12)):
        names.append("f%d" % i)
        packs["f%d" % i] = rng.choice("BbHI")
    rng.shuffle(names)
    fields, off = [], rng.choice([0, 0, 1, 4])
    for n in names:
        w = struct.calcsize("<" + packs[n])
        if off + w > size:
            break
        lo, hi = RANGE[packs[n]]
        d = rng.choice([0, 0, lo, hi, rng.randint(lo, hi)])
        fields.append([n, packs[n], off, rng.choice(["%d", "%08x", "%02x"]), d, 1])
        off += w + rng.choice([0, 0, 0, 1, 2, 5, 30])
    if kind == "overlap" and len(fields) >= 2:
        a, b = rng.sample(range(len(fields)), 2)
        fields[a][2] = fields[b][2] + rng.choice([0, 0, 1])
    elif kind == "overflow" and fields:
        fields[rng.randrange(len(fields))][2] = size - rng.choice([0, 1, 2]) + rng.choice([0, 0, 10])
    elif kind == "unpackable":
        fields.insert(rng.randrange(len(fields) + 1), ["txt", "16s", min(off, size), "%s", 0, 1])
    elif kind == "small":
        size = rng.choice([0, 64, 120, 127])
    if rng.random() < 0.3:
        rng.shuffle(fields)
    if rng.random() < 0.2 and fields:
        fields[rng.randrange(len(fields))][5] = rng.randrange(2, 20)     # an array field (length is not packed)
    t = {"size": size, "fields": fields}
    if rng.random() < 0.5:                            # layouts differ in base address and in their other struct
        t["base"] = rng.choice([0, 0x10, 0xf5007f00, 0xe5007f00, 2 ** 32 - 256])
        t["other"] = rng.choice([7, 0, 255, 2 ** 32 - 1])
    return t


def struct_text(table, rng):
    if "text" in table:                         # a table the model parser made from this very text (STREAM struct files)
        return bytes.fromhex(table["text"])
    out = ["# synthetic struct file"] + ["# padding line %d" % i for i in range(table.get("comments", 0))]
    out += ["name = sv", "size = %d" % table["size"], "base = 0x%x" % table.get("base", 0xf5007f00), ""]
    for n, p, off, pf, d, ln in table["fields"]:
        perl = PERL[p] if p in PERL else "A" + p[:-1]
        nm = n if ln == 1 else "%s[%d]" % (n, ln)
        ds = (rng.choice(["0x%x", "0X%X", "0x%08x"]) % d) if (d >= 0 and rng.random() < 0.4) else str(d)
        offs = rng.choice(["0x%02x", "0x%02x", "%d", "0X%X"]) % off
        out.append("%-20s %s  %s  %s  %s   # c" % (nm, perl, offs, pf, ds))
    out += ["", "name = other", "size = 8", "base = 0", "x V 0 %%d %d" % table.get("other", 7), ""]
    return "\n".join(out).encode()


NONZERO_DEFAULT = None


def lean_value(v):
    """option values as the model sees them: anything with __index__ (bool, IntEnum member, numpy integer) is
    that integer; a value struct.pack cannot take as an integer (None, "", 1.0, ...) fits no field, exactly like
    an integer that is out of range for every pack code.  Works on case encodings and on live objects."""
    if isinstance(v, dict):
        return lean_value(v["v"]) if v.get("k") != "float" else 2 ** 70
    if isinstance(v, float):
        return 2 ** 70
    try:
        return operator.index(v)
    except TypeError:
        return 2 ** 70


_ENUMS = {}


def py_value(v):
    """the live object for a case-encoded option value"""
    if not isinstance(v, dict):
        return v
    k, n = v["k"], v["v"]
    if k == "enum":
        if n not in _ENUMS:
            _ENUMS[n] = enum.IntEnum("Opt%d" % len(_ENUMS), {"member": n}).member
        return _ENUMS[n]
    if k == "np":
        import numpy
        t = (numpy.uint8 if 0 <= n < 256 else numpy.int16 if -2 ** 15 <= n < 2 ** 15 else
             numpy.uint32 if 0 <= n < 2 ** 32 else numpy.int64 if -2 ** 63 <= n < 2 ** 63 else numpy.uint64)
        return t(n)
    if k == "float":
        return float(n)
    raise ValueError(k)


def wrap_value(rng, n):
    """the same integer in another kind struct.pack accepts (tagged by the caller)"""
    r = rng.random()
    if r < 0.06:
        return {"k": "enum", "v": n}
    if r < 0.12 and -2 ** 63 <= n < 2 ** 64:
        return {"k": "np", "v": n}
    if r < 0.14 and n in (0, 1):
        return bool(n)
    return n


def lean_dict(d):
    return [[k, lean_value(v)] for k, v in d]


def gen_value(rng, pack):
    lo, hi = RANGE.get(pack, (0, 255))
    r = rng.random()
    if r < 0.025:
        return wrap_value(rng, rng.choice([hi + 1, lo - 1, hi + rng.randrange(1, 1000), -1 if lo == 0 else lo - 5,
                                           2 ** 40, -2 ** 31, -2 ** 63] + BIG))
    if r < 0.3:
        return wrap_value(rng, rng.choice([lo, hi, 0, 1]))
    return wrap_value(rng, rng.randint(lo, hi))


def gen_opts(rng, table, allow_reserved):
    fields = [f for f in table["fields"] if allow_reserved or f[0] not in RESERVED]
    fields = [f for f in fields if f[0] not in ("unix_time", "boot_sig", "root_chip") or rng.random() < 0.15]
    d = []
    for f in rng.sample(fields, min(len(fields), rng.choice([0, 1, 1, 2, 3, 5]))):
        d.append([f[0], gen_value(rng, f[1])])
    # falsy values for variables whose file default is not zero (disable the watchdog, LEDs off, ...)
    nz = [f for f in fields if f[4] != 0 and f[0] not in [k for k, _ in d]]
    if nz and rng.random() < 0.35:
        for f in rng.sample(nz, min(len(nz), rng.choice([1, 1, 2]))):
            d.insert(rng.randrange(len(d) + 1), [f[0], rng.choice([0, 0, 0, False])])
    if d and rng.random() < 0.02:
        d[rng.randrange(len(d))][1] = rng.choice([None, "", {"k": "float", "v": 1}])   # not an integer: struct.error
    if rng.random() < 0.04:
        d.insert(rng.randrange(len(d) + 1), [rng.choice(["bogus", "hw_version", "led2"]), rng.choice([1, 0])])
    return d


def gen_call_extras(rng, c):
    """everything about HOW the call is made (checklist: optional parameters non-default incl. 0, positional and
    keyword convention, path kinds, controller variants, faults)"""
    c["delays"] = rng.choice([[BOOT_DELAY, POST_DELAY]] * 3 + [[None, None], [0, 0], [0.0, 2], [0.01, None],
                                                               [None, 0], [1, 0.5], [0.05, 2.0]])
    c["paths"] = rng.choice(["str"] * 4 + ["bytes", "pathlib"])
    if c["via"] == "function":
        if rng.random() < 0.2:
            c["style"] = "positional"
    else:
        c["mc"] = {"subclass": rng.random() < 0.3, "structs": rng.random() < 0.3,
                   "width": rng.choice([None, None, 2, 0])}
    r = rng.random()
    if r < 0.03:
        c["fault"] = {"kind": "connect"}
    elif r < 0.07:
        c["fault"] = {"kind": "send", "n": rng.choice([0, 1, 1, 2, 3, 5, 33])}
    elif r < 0.09:
        c["fault"] = {"kind": "nofile", "which": rng.choice(["image", "struct"])}
    return c


def gen_history(rng, force_len=None):
    default_table()
    presets = _cache["presets"]
    n_store = rng.choice([0, 0, 1, 1, 2])
    shared_table = None if rng.random() < 0.7 else gen_table(rng)
    other_table = gen_table(rng)                 # a second layout, used alternately with the first
    store, calls = [], []
    for _ in range(n_store):
        store.append(gen_opts(rng, shared_table or default_table(), True))
    n_calls = rng.choice([1, 2, 2, 3, 3, 4, 5, 6])
    alternate = rng.random() < 0.15              # two layouts / two controllers used alternately
    for i in range(n_calls):
        if calls and rng.random() < 0.12:        # the same call again
            c = json.loads(json.dumps(calls[-1]))
            c.pop("fault", None)
            c["after"] = gen_steps(rng, i, n_calls, c["table"] or default_table(), store)
            calls.append(c)
            continue
        table = shared_table if rng.random() < 0.85 else (None if rng.random() < 0.5 else gen_table(rng))
        if alternate:
            table = shared_table if i % 2 == 0 else other_table
        tab = table or default_table()
        c = {"host": rng.choice(["board%d" % rng.randrange(4), "127.0.0.%d" % rng.randrange(1, 9)]),
             "port": rng.choice([None, None, None, rng.randrange(1024, 65536), 0, 1, 65535]),
             "image": gen_image(rng, force_len if i == 0 else None), "table": table,
             "sv": None, "kwargs": [], "via": "function"}
        if alternate:
            c["host"] = "127.0.0.%d" % (1 + i % 2)
        r = rng.random()
        if r < 0.25:
            pass                                              # no options at all
        elif r < 0.40:
            c["kwargs"] = [list(p) for p in presets[rng.randrange(len(presets))][1]]
        elif r < 0.60:
            c["kwargs"] = gen_opts(rng, tab, False)
        elif r < 0.75:
            store.append(gen_opts(rng, tab, True))            # a fresh sv_overrides dict
            c["sv"] = len(store) - 1
            if rng.random() < 0.5:
                c["kwargs"] = gen_opts(rng, tab, False)
                both = [p for p in store[-1] if p[0] not in RESERVED and p[0] not in [k for k, _ in c["kwargs"]]]
                if both and rng.random() < 0.6:               # the same variable in both: the keyword wins
                    k = rng.choice(both)
                    pk = [f[1] for f in tab["fields"] if f[0] == k[0]]
                    c["kwargs"].append([k[0], gen_value(rng, pk[0]) if pk else 0])
        elif n_store:
            c["sv"] = rng.randrange(n_store)                  # a caller dict reused across calls
            if rng.random() < 0.6:
                c["kwargs"] = gen_opts(rng, tab, False)
        t = rng.choice([0, 1, 1443571200, 1700000000 + rng.randrange(10 ** 8), 2 ** 32 - 1,
                        rng.randrange(2 ** 32)] + ([rng.choice(BIG[3:])] if rng.random() < 0.06 else []))
        c["t1"] = t
        c["t2"] = t + rng.choice([0, 0, 1, 1, 2])
        if c["host"].startswith("127.") and rng.random() < (0.9 if alternate else 0.5):
            c["via"] = "controller"
        gen_call_extras(rng, c)
        c["after"] = gen_steps(rng, i, n_calls, tab, store)
        calls.append(c)
    kinds = [rng.choice(["dict"] * 3 + ["ordered", "subclass", "defaultdict"]) for _ in store]
    if rng.random() < 0.5:
        file_system_history(rng, calls)
    return {"store": store, "store_kinds": kinds, "calls": calls}


def same_length_variant(rng, img):
    """another image of exactly the same length"""
    n = img["len"]
    return structured(rng, n) if rng.random() < 0.5 else {"kind": "rand", "len": n, "seed": rng.randrange(2 ** 30)}


def file_system_history(rng, calls):
    """The FILE SYSTEM is part of the history: later boots name a path an earlier boot used, after the caller
    replaced the file / rewrote it in place (same length or another length, mtime kept or not) or left it alone;
    other paths hold equal content; relative and absolute names.  The image a boot must send is what the file
    holds when that boot is called (`image` of the call always says what that is)."""
    held = {}                                   # path label -> image spec currently in the file
    sheld = set()
    for c in calls:
        if c["table"] is not None and rng.random() < 0.6:
            c["sfile"] = rng.choice(["S", "T"])      # struct files share paths too (always rewritten)
            c["sclass"] = "path_reused" if c["sfile"] in sheld else "first_use"
            sheld.add(c["sfile"])
        if c["image"]["kind"] == "default":
            continue
        label = rng.choice(["A", "A", "B"])
        f = {"path": label, "write": rng.choice(["replace", "replace", "inplace"]),
             "mtime": rng.choice(["change", "keep"]), "rel": rng.random() < 0.2}
        if label not in held:
            other = [v for k, v in held.items() if k != label]
            if other and rng.random() < 0.3:
                c["image"] = json.loads(json.dumps(rng.choice(other)))
                f["class"] = "other_path_equal_content"
            else:
                f["class"] = "first_use"
        else:
            r = rng.random()
            if r < 0.25:
                c["image"] = json.loads(json.dumps(held[label]))
                f["write"] = "keep"
                f["class"] = "left_alone"
            elif r < 0.7 and held[label].get("len") is not None:
                c["image"] = same_length_variant(rng, held[label])
                f["class"] = "new_content_same_length"
            else:
                f["class"] = "new_content" + ("_same_length" if c["image"].get("len") == held[label].get("len") else "_other_length")
        held[label] = c["image"]
        c["file"] = f


def gen_interleaved(rng):
    """boot A (2-6 blocks) with a complete boot B of another board run as a nested call at A's k-th send or k-th
    sleep (before start, between blocks, before end, after end), optionally followed by a sequential boot"""
    default_table()
    presets = _cache["presets"]

    def one(host):
        n = 4 * rng.randrange(256, 1600)
        tab = None if rng.random() < 0.7 else gen_table_wf(rng)
        if tab is default_table():
            tab = None
        c = {"host": host, "port": rng.choice([None, None, 40000 + rng.randrange(100)]),
             "image": structured(rng, n) if rng.random() < 0.5 else {"kind": "rand", "len": n, "seed": rng.randrange(2 ** 30)},
             "table": tab, "sv": None, "via": "function", "t1": 1443571200 + rng.randrange(1000), "after": [],
             "kwargs": (gen_opts(rng, tab or default_table(), False) if rng.random() < 0.6 else
                        [list(p) for p in presets[rng.randrange(len(presets))][1]] if tab is None else [])}
        c["t2"] = c["t1"] + rng.choice([0, 1])
        c["delays"] = rng.choice([[BOOT_DELAY, POST_DELAY], [0, 0], [None, None]])
        if rng.random() < 0.3:
            c["file"] = {"path": "A", "write": "replace", "mtime": "change", "rel": False, "class": "shared_by_interleaved"}
        return c
    a, b = one("board-a"), one("board-b")
    if rng.random() < 0.25:
        a["host"] = b["host"] = "127.0.0.6"
        b["via"] = "controller"
    if rng.random() < 0.3:
        b["image"] = same_length_variant(rng, a["image"])
    n = (a["image"]["len"] + 1023) // 1024
    where = rng.choice(["send", "sleep"])
    if where == "send":          # send 0 = start, 1..n = blocks, n+1 = end
        at, point = rng.choice([(0, "before_start"), (1, "before_first_block"), (rng.randrange(1, n + 1), "between_blocks"),
                                (n, "before_last_block"), (n + 1, "before_end")])
    else:                        # sleep 0 follows start, sleep j follows block j-1, sleep n+1 is the post-boot sleep
        at, point = rng.choice([(0, "after_start"), (rng.randrange(1, n + 1), "between_blocks"), (n, "before_end"),
                                (n + 1, "after_end")])
    b["inside"] = {"of": 0, "where": where, "at": at, "point": point}
    calls = [a, b]
    if rng.random() < 0.4:
        calls.append(one("board-c"))
    for c in calls:
        c.pop("file", None) if c["image"]["kind"] == "default" else None
    return {"store": [], "calls": calls, "interleaved": point}


def gen_steps(rng, i, n_calls, tab, store=()):
    """what the caller does between this boot and the next: every kept result is re-checked after each step"""
    steps = []
    if rng.random() < 0.25:
        steps.append({"do": "controller", "host": "127.0.0.%d" % rng.randrange(1, 9)})
    if rng.random() < 0.2:
        steps.append({"do": "read_struct", "table": None if rng.random() < 0.5 else gen_table(rng)})
    names = [f[0] for f in tab["fields"]] or ["hw_ver"]
    if rng.random() < 0.15:
        steps.append({"do": "mutate", "target": rng.randrange(i + 1),
                      "how": rng.choice(["defaults", "attrs", "dict", "fields", "all"]),
                      "field": rng.choice(names), "value": rng.randrange(256)})
    if i == n_calls - 1 and n_calls >= 2 and rng.random() < 0.85:
        steps.append({"do": "mutate", "target": i, "how": "all", "field": rng.choice(names),
                      "value": rng.randrange(1, 256)})
    if store and rng.random() < 0.2:                # the caller edits a dictionary it passed (or will pass)
        op = rng.choice(["set", "set", "del", "del", "clear"])
        di = rng.randrange(len(store))
        f = rng.choice([f for f in tab["fields"] if f[0] not in ("unix_time", "boot_sig", "root_chip")] or [["hw_ver", "B"]])
        key = rng.choice([k for k, _ in store[di]]) if (op == "del" and store[di]) else f[0]
        pk = [g[1] for g in tab["fields"] if g[0] == key]
        steps.append({"do": "edit_dict", "index": di, "op": op, "key": key,
                      "value": gen_value(rng, pk[0] if pk else "B")})
    rng.shuffle(steps)
    return steps


# ------------------------------------------------------------ implementation
MAX_EVENTS = 4000      # a boot has at most 2 + 32 datagrams; a runaway loop must not fill the memory


class FakeSock(object):
    def __init__(self, log, udp, mod):
        self.log, self.udp, self.mod = log, udp, mod

    def connect(self, addr):
        f = self.mod.fault
        if f and f["kind"] == "connect":
            self.mod.fault = None
            raise OSError(113, "injected: no route to host")
        self.log.append(["connect", str(addr[0]), int(addr[1])] + ([] if self.udp else ["not-udp"]))

    def send(self, data):
        self.mod.fire("send", self.log)
        f = self.mod.fault
        if f and f["kind"] == "send":
            if self.mod.sends == f["n"]:
                self.mod.fault = None
                raise OSError(101, "injected: network is unreachable")
            self.mod.sends += 1
        if len(self.log) < MAX_EVENTS:
            self.log.append(["send", bytes(data).hex()])
        return len(data)

    def sendall(self, data):
        self.send(data)

    def sendto(self, data, addr):
        self.log.append(["sendto", bytes(data).hex(), str(addr[0]), int(addr[1])])
        return len(data)

    def close(self):
        self.log.append(["close"])

    def settimeout(self, t):
        pass

    def setsockopt(self, *a):
        pass


class FakeSocketModule(object):
    def __init__(self, log):
        import socket as real
        self.log, self.real = log, real
        self.AF_INET, self.SOCK_DGRAM = real.AF_INET, real.SOCK_DGRAM
        self.error, self.timeout = real.error, real.timeout
        self.fault, self.sends = None, 0
        self.hook = None        # {"where", "at", "log", "count", "fn"}: run fn() at the at-th send / sleep of that boot

    def fire(self, where, log):
        h = self.hook
        if h and h["where"] == where and h["log"] is log:
            if h["count"] == h["at"]:
                self.hook = None
                h["fn"]()
            else:
                h["count"] += 1

    def socket(self, family=None, kind=None, *a):
        return FakeSock(self.log, family == self.real.AF_INET and kind == self.real.SOCK_DGRAM, self)

    def __getattr__(self, name):
        return getattr(self.real, name)


class FakeTime(object):
    def __init__(self, log, mod=None):
        self.log, self.script, self.mod = log, [], mod

    def time(self):
        v = self.script.pop(0) if len(self.script) > 1 else self.script[0]
        return float(v) + 0.5

    def sleep(self, x):
        if self.mod is not None:
            self.mod.fire("sleep", self.log)
        if len(self.log) < MAX_EVENTS:
            self.log.append(["sleep", x if isinstance(x, (int, float)) and not isinstance(x, bool) else repr(x)])


def canon_struct(s):
    return [[k.decode("latin-1"), f.pack_chars.decode("latin-1"), f.offset, f.printf.decode("latin-1"),
             lean_value(f.default), f.length] for k, f in s.fields.items()]


def snapshot(structs):
    """canonical deep copy of a {name: Struct} dictionary (nothing shared with the live objects)"""
    try:
        sv = structs.get(b"sv")
        try:
            packed = sv.pack().hex() if sv is not None else None
        except Exception as e:      # noqa
            packed = "error: " + type(e).__name__
        return {"sv": canon_struct(sv) if sv is not None else None,
                "svmeta": [sv.size, sv.base] if sv is not None else None, "packed": packed,
                "others": sorted([n.decode("latin-1"), t.size, t.base, canon_struct(t)]
                                 for n, t in structs.items() if n != b"sv")}
    except Exception as e:      # noqa
        return {"broken": repr(e)[:200]}


def shared_objects(a, b):
    """mutable objects two results have in common"""
    out = []
    if a is b:
        out.append("dict")
    sa = {id(x): n for n, x in a.items()}
    for n, x in b.items():
        if id(x) in sa:
            out.append("Struct %r" % (n,))
    fa = {id(x.fields): n for n, x in a.items() if hasattr(x, "fields")}
    for n, x in b.items():
        if hasattr(x, "fields") and id(x.fields) in fa:
            out.append("fields of %r" % (n,))
    return out


def caller_mutates(obj, step):
    """the caller edits a result it was given (its own copy, as far as the caller can know)"""
    from rig.machine_control.struct_file import Struct, StructField
    how = step["how"]
    sv = obj.get(b"sv")
    if how in ("defaults", "all") and sv is not None:
        try:
            sv.update_default_values(**{str(step["field"]): step["value"]})
        except KeyError:
            pass
    if how in ("fields", "all") and sv is not None:
        sv.fields[b"zz_caller"] = StructField(b"B", 0, b"%d", step["value"], 1)
        for k in list(sv.fields)[:1]:
            sv.fields.pop(k)
    if how in ("attrs", "all") and sv is not None:
        sv.size += 4
        sv.base ^= 0x10
    if how in ("attrs", "fields", "all"):
        for k in [k for k in list(obj) if k != b"sv"][:1]:
            obj[k].size += 4
            obj[k].fields[b"zz_caller"] = StructField(b"B", 0, b"%d", step["value"], 1)
    if how in ("dict", "all"):
        for k in [k for k in list(obj) if k != b"sv"][:1]:
            del obj[k]
        obj[b"zz_caller"] = Struct(b"zz_caller", 4, 0)
        if how == "all":
            obj[b"sv"] = Struct(b"sv", 1, 2)


def classify(e):
    tb = traceback.extract_tb(e.__traceback__)
    last = tb[-1]
    if isinstance(e, KeyError):
        k = e.args[0] if e.args else ""
        return {"err": "KeyError", "key": k.decode("latin-1") if isinstance(k, bytes) else str(k)}
    if isinstance(e, struct.error):
        return {"err": "struct.error"}
    if isinstance(e, OSError):
        return {"err": "OSError"}
    if isinstance(e, AssertionError):
        line = last.line or ""
        if last.name == "boot_packet":
            return {"err": "AssertionError:word"}
        if "struct_packed" in line:
            return {"err": "AssertionError:packed"}
        if "DTCM" in line:
            return {"err": "AssertionError:dtcm"}
        return {"err": "AssertionError:" + line[:60]}
    return {"err": "Other:" + type(e).__name__, "detail": repr(e)[:200]}


_HANGS = [0]


class _NoLimit(object):
    def __enter__(self):
        return self

    def __exit__(self, *a):
        return False


def hang_limit():
    """CPU seconds one implementation call may take: a boot takes 5-30 ms, so 5 s is > 100x; lowered after a
    few calls did not return so that the run stays short (the run stops generating after 20 such calls)"""
    return 5 if _HANGS[0] < 3 else 1 if _HANGS[0] < 10 else 0.5


class CallerDict(dict):
    """a caller's own dict subclass"""


def make_dict(kind, pairs):
    items = [(k, py_value(v)) for k, v in pairs]
    if kind == "ordered":
        import collections
        return collections.OrderedDict(items)
    if kind == "defaultdict":
        import collections
        d = collections.defaultdict(int)
        d.update(items)
        return d
    if kind == "subclass":
        return CallerDict(items)
    return dict(items)


def run_impl(case):
    """Run one history on the real code.  Returns (outcomes, final caller dicts, kept) where kept =
    {"late": [...], "shared": [...], "aux": [...], "rechecks": n}: every returned struct dictionary is
    KEPT and compared with its own first snapshot after every later boot and every caller step."""
    from harness import common
    import rig.machine_control.struct_file as sf_mod
    import rig.machine_control.boot as boot_mod
    importlib.reload(sf_mod)            # fresh function objects = fresh process state
    importlib.reload(boot_mod)
    log = []
    real_socket, real_time = boot_mod.socket, boot_mod.time
    boot_mod.socket = FakeSocketModule(log)
    ftime = FakeTime(log, boot_mod.socket)
    boot_mod.time = ftime
    tmp = tempfile.mkdtemp(prefix="c20-")
    kinds = case.get("store_kinds") or ["dict"] * len(case["store"])
    store = [make_dict(kd, d) for kd, d in zip(kinds, case["store"])]
    outcomes = []
    mcs = {}
    results = []        # kept results of boot(): {"call", "obj", "first", "released"}
    aux = []            # other struct dictionaries alive in the process: {"what", "obj", "first", "want"}
    kept = {"late": [], "shared": [], "aux": [], "rechecks": 0}
    alive = []
    fsock = boot_mod.socket

    def recheck(label):
        for r in results:
            if r["released"]:
                continue
            kept["rechecks"] += 1
            now = snapshot(r["obj"])
            if now != r["first"] and not any(l["call"] == r["call"] and l["snap"] == now for l in kept["late"]):
                kept["late"].append({"call": r["call"], "after": label, "snap": now})
        for x in aux:
            kept["rechecks"] += 1
            now = snapshot(x["obj"])
            if now != x["first"] and not x.get("reported"):
                x["reported"] = True
                kept["aux"].append("%s changed after %s" % (x["what"], label))

    def keep_aux(what, obj, table):
        first = snapshot(obj)
        aux.append({"what": what, "obj": obj, "first": first})
        want = expected_structs(table)
        if any(first.get(k) != want[k] for k in want):
            kept["aux"].append("%s does not equal the independent parse of its struct file" % what)

    def default_text():
        from harness import common
        return open(os.path.join(common.REPO, "rig/boot/sark.struct"), "rb").read()

    def new_controller(host, port, opt=None):
        from rig.machine_control.machine_controller import MachineController
        opt = opt or {}
        cls = MachineController
        if opt.get("subclass"):
            cls = type("CallerController", (MachineController,), {})
        kw = {}
        if port is not None:
            kw["boot_port"] = port
        if opt.get("structs"):
            kw["structs"] = sf_mod.read_struct_file(default_text())
        mc = cls(host, **kw)
        alive.append(mc)
        keep_aux("structs of MachineController(%r)" % host, mc.structs, None)
        return mc

    def conv_path(pth, kind):
        if kind == "bytes":
            return os.fsencode(pth)
        if kind == "pathlib":
            import pathlib
            return pathlib.Path(pth)
        return pth
    pending = {}

    def write_file(p, content, how, keep_mtime):
        old = os.stat(p) if os.path.exists(p) else None
        if how == "inplace" and old is not None:
            with open(p, "r+b") as fh:
                fh.write(content)
                fh.truncate()
        elif how == "replace" and old is not None:
            open(p + ".new", "wb").write(content)
            os.replace(p + ".new", p)
        else:
            open(p, "wb").write(content)
        if keep_mtime and old is not None:
            os.utime(p, ns=(old.st_atime_ns, old.st_mtime_ns))

    def image_path(i, c):
        """the FILE SYSTEM is part of the history: a path named by several boots holds, for each boot, what the
        caller last wrote there (replaced / rewritten in place / left alone; mtime kept or not)"""
        f = c.get("file") or {}
        p = os.path.join(tmp, "img_%s.bin" % f["path"] if f.get("path") else "img%d.bin" % i)
        content = image_bytes(c["image"])
        if not (f.get("write") == "keep" and os.path.exists(p) and open(p, "rb").read() == content):
            write_file(p, content, f.get("write", "replace"), f.get("mtime") == "keep")
        return os.path.relpath(p) if f.get("rel") else p

    def perform(i, c, nested=False):
        """one call of boot() with its own event log; returns its outcome"""
        mylog = []
        saved = (fsock.log, ftime.log, ftime.script)
        fsock.log = ftime.log = mylog
        try:
            return perform_inner(i, c, nested, mylog)
        finally:
            fsock.log, ftime.log, ftime.script = saved

    def perform_inner(i, c, nested, log):
        if True:
            ftime.script = [c["t1"], c["t2"]]
            bd, pd = c.get("delays", [BOOT_DELAY, POST_DELAY])
            kw = {}
            if bd is not None:
                kw["boot_delay"] = bd
            if pd is not None:
                kw["post_boot_delay"] = pd
            fault = c.get("fault")
            if c["image"]["kind"] != "default":
                kw["scamp_binary"] = conv_path(image_path(i, c), c.get("paths", "str"))
            if c["table"] is not None:
                p = os.path.join(tmp, "s_%s.struct" % c["sfile"] if c.get("sfile") else "s%d.struct" % i)
                write_file(p, struct_text(c["table"], random.Random(i)), "replace", False)
                kw["sark_struct"] = conv_path(p, c.get("paths", "str"))
            if fault and fault["kind"] == "nofile":
                kw["scamp_binary" if fault["which"] == "image" else "sark_struct"] = os.path.join(tmp, "missing-%d" % i)
            if c["sv"] is not None:
                kw["sv_overrides"] = store[c["sv"]]
            for k, v in c["kwargs"]:
                kw[k] = py_value(v)
            fsock.fault = dict(fault) if fault and fault["kind"] in ("connect", "send") else None
            fsock.sends = 0
            try:
                # every call of the model terminates (total Lean functions); a boot takes milliseconds: a call still
                # running after 5 s of CPU time is reported as not having returned (1 s after 4 such calls)
                nxt = case["calls"][i + 1] if i + 1 < len(case["calls"]) else None
                if nxt is not None and (nxt.get("inside") or {}).get("of") == i and not nested:
                    # an INTERLEAVED history: a complete boot of another board runs while this one is between two
                    # datagrams (as a nested call from the patched sleep / the mock socket's send)
                    ins = nxt["inside"]
                    fsock.hook = {"where": ins["where"], "at": ins["at"], "log": log, "count": 0,
                                  "fn": lambda: pending.__setitem__(i + 1, perform(i + 1, nxt, True))}
                with (common.cpu_limit(hang_limit()) if not nested else _NoLimit()):
                    if c["via"] == "controller":
                        key = (c["host"], c["port"])
                        if key not in mcs:
                            mcs[key] = new_controller(c["host"], c["port"], c.get("mc"))
                            recheck("constructing the MachineController used by call %d" % i)
                        mc = mcs[key]
                        width = (c.get("mc") or {}).get("width")
                        if width is not None:
                            kw.update(width=width, height=width)
                        sent = mc.boot(only_if_needed=False, check_booted=False, **kw)
                        structs = mc.structs
                        extra = [] if sent is True else ["controller-returned-%r" % (sent,)]
                    elif c.get("style") == "positional":
                        opts_kw = dict((k, py_value(v)) for k, v in c["kwargs"])
                        structs = boot_mod.boot(c["host"], c["port"] if c["port"] is not None else _cache["BOOT_PORT"],
                                                kw.get("scamp_binary"), kw.get("sark_struct"),
                                                bd if bd is not None else DEFAULT_DELAYS[0],
                                                pd if pd is not None else DEFAULT_DELAYS[1],
                                                kw.get("sv_overrides", {}), **opts_kw)
                        extra = []
                    else:
                        if c["port"] is not None:
                            kw["boot_port"] = c["port"]
                        structs = boot_mod.boot(c["host"], **kw)
                        extra = []
                first = snapshot(structs)
                if "broken" in first or first["sv"] is None:
                    raise TypeError("boot() returned something that is not {name: Struct} with an sv entry: %r" % (first,))
                if snapshot(structs) != first:
                    extra = extra + ["reading-the-result-twice-differs"]
                res = {"ok": first["sv"]}
                others, svmeta = first["others"], first["svmeta"]
                for r in results:
                    if not r["released"]:
                        sh_ = shared_objects(r["obj"], structs)
                        if sh_:
                            kept["shared"].append("results of call %d and call %d share %s" % (r["call"], i, ", ".join(sh_)))
                results.append({"call": i, "obj": structs, "first": first, "released": False})
            except common.ImplHang as e:
                _HANGS[0] += 1
                res, others, svmeta, extra, first = {"err": "DidNotReturn", "detail": str(e)}, None, None, [], {}
            except Exception as e:          # noqa
                res, others, svmeta, extra, first = classify(e), None, None, [], {}
            fsock.fault = None
            if not nested:
                fsock.hook = None
            return {"events": [list(x) for x in log] + extra, "result": res,
                    "others": others, "svmeta": svmeta, "packed": first.get("packed")}

    try:
        for i, c in enumerate(case["calls"]):
            if i in pending:
                out = pending.pop(i)
                out["nested"] = "ran_inside"
            else:
                out = perform(i, c)
                if c.get("inside"):
                    out["nested"] = "not_reached"
            outcomes.append(out)
            recheck("call %d" % i)
            for n_step, st in enumerate(c.get("after", [])):
                label = "step %d after call %d (%s)" % (n_step, i, st["do"])
                if st["do"] == "controller":
                    new_controller(st["host"], None, st.get("mc"))
                elif st["do"] == "read_struct":
                    text = (struct_text(st["table"], random.Random(n_step)) if st["table"] is not None else default_text())
                    try:
                        parsed_now = sf_mod.read_struct_file(text)
                    except Exception as e:      # noqa
                        kept["aux"].append("read_struct_file raised %s in %s" % (type(e).__name__, label))
                    else:
                        keep_aux("result of read_struct_file in " + label, parsed_now, st["table"])
                elif st["do"] == "edit_dict":
                    d = store[st["index"]]
                    if st["op"] == "set":
                        d[st["key"]] = py_value(st["value"])
                    elif st["op"] == "del":
                        d.pop(st["key"], None)
                    else:
                        d.clear()
                elif st["do"] == "mutate":
                    for r in results:
                        if r["call"] == st["target"] and not r["released"]:
                            r["released"] = True
                            caller_mutates(r["obj"], st)
                recheck(label)
    finally:
        boot_mod.socket, boot_mod.time = real_socket, real_time
        shutil.rmtree(tmp, ignore_errors=True)
        for mc in alive:
            try:
                mc.connections[None].sock.close()
            except Exception:
                pass
    kept["results"] = len(results)
    return outcomes, [[[k, lean_value(v)] for k, v in d.items()] for d in store], kept


def expected_structs(table):
    """snapshot a parse of the bundled sark.struct (table None) or of struct_text(table) must give"""
    default_table()
    if table is None:
        sv = [t for t in _cache["structs"] if t[0] == "sv"][0]
        return {"sv": [list(f) for f in sv[3]], "svmeta": [sv[1], sv[2]],
                "others": sorted([t[0], t[1], t[2], [list(f) for f in t[3]]] for t in _cache["structs"] if t[0] != "sv")}
    if "others" in table:
        return {"sv": [list(f) for f in table["fields"]], "svmeta": [table["size"], table["base"]],
                "others": [[s[0], s[1], s[2], [list(f) for f in s[3]]] for s in table["others"]]}
    return {"sv": [list(f) for f in table["fields"]], "svmeta": [table["size"], table.get("base", 0xf5007f00)],
            "others": [["other", 8, 0, [["x", "I", 0, "%d", table.get("other", 7), 1]]]]}


# ------------------------------------------------------------------ checking
def edit_pairs(pairs, st):
    """the caller's edit `st` on an insertion-ordered list of [key, value]"""
    pairs = [list(p) for p in pairs]
    if st["op"] == "clear":
        return []
    if st["op"] == "del":
        return [p for p in pairs if p[0] != st["key"]]
    for p in pairs:
        if p[0] == st["key"]:
            p[1] = st["value"]
            return pairs
    return pairs + [[st["key"], st["value"]]]


def lean_view(case):
    """The caller's own view of its dictionaries, call by call: the repaired boot() never changes them, the
    caller's edits (steps `edit_dict`) do.  Every edit makes a new entry of the model's store.  Returns
    {"store": model store, "idx": model index per call, "base": dictionary contents per call,
     "final": model index of every caller dictionary at the end}."""
    store = [[list(p) for p in d] for d in case["store"]]
    cur = list(range(len(store)))
    idx, base = [], []
    for c in case["calls"]:
        if c["sv"] is None:
            idx.append(None)
            base.append([])
        else:
            idx.append(cur[c["sv"]])
            base.append(store[cur[c["sv"]]])
        for st in c.get("after", []):
            if st["do"] == "edit_dict":
                store.append(edit_pairs(store[cur[st["index"]]], st))
                cur[st["index"]] = len(store) - 1
    return {"store": store, "idx": idx, "base": base, "final": cur}


def own_opts(case, k, view=None):
    """the options call `k` asked for: the caller's dictionary as the caller last left it, then the keywords"""
    view = view or lean_view(case)
    d = {}
    for key, v in view["base"][k]:
        d[key] = v
    for key, v in case["calls"][k]["kwargs"]:
        d[key] = v
    return [[key, lean_value(v)] for key, v in d.items()]


def lean_call(case, k, view, obs=None):
    default_table()
    c = case["calls"][k]
    j = {"host": c["host"], "port": c["port"] if c["port"] is not None else _cache["BOOT_PORT"],
         "image": image_bytes(c["image"]).hex(), "table": lean_table(c["table"]), "sv": view["idx"][k],
         "kwargs": lean_dict(c["kwargs"]), "t1": c["t1"], "t2": c["t2"], "opts": own_opts(case, k, view)}
    if obs is not None and "ok" in obs["result"]:
        j["datagrams"] = [e[1] for e in obs["events"] if e[0] in ("send", "sendto")]
        j["returned"] = obs["result"]["ok"]
        if isinstance(obs.get("packed"), str) and not obs["packed"].startswith("error"):
            j["packed"] = obs["packed"]
    return j


def lean_table(t):
    return None if t is None else {"size": t["size"], "fields": t["fields"]}


def in_domain_static(c):
    n = len(image_bytes(c["image"]))
    return n % 4 == 0 and 512 <= n < 32768


def nontrivial(case):
    """in the domain, and some call carries an option that a later call does not ask for (a leak would be
    visible) or a result obtained with options is read again after a later boot / caller step"""
    if not all(in_domain_static(c) for c in case["calls"]):
        return False
    view = lean_view(case)
    keys = [set(k for k, _ in own_opts(case, i, view)) for i in range(len(case["calls"]))]
    n = len(keys)
    if any(keys[i] - keys[j] for i in range(n) for j in range(i + 1, n)):
        return True
    return any(keys[i] and (i + 1 < n or any(st["do"] != "mutate" or st["target"] != i
                                              for st in case["calls"][i].get("after", [])))
               for i in range(n))


def expected_outcome(c, m):
    """what the model's outcome `m` of call `c` looks like on the wire of this call: the two sleeps carry this
    call's delays, and an injected fault cuts the trace where it strikes (nothing is sent after it)"""
    bd, pd = c.get("delays", [BOOT_DELAY, POST_DELAY])
    bd = DEFAULT_DELAYS[0] if bd is None else bd
    pd = DEFAULT_DELAYS[1] if pd is None else pd
    ev = [["sleep", bd if e[1] == "boot" else pd] if e[0] == "sleep" else e for e in m["events"]]
    res = m["result"]
    f = c.get("fault")
    if f is None:
        return ev, res, False
    if f["kind"] == "nofile":
        return [], {"err": "OSError"}, True
    if not ev:                                   # the model fails before the socket is opened
        return ev, res, False
    if f["kind"] == "connect":
        return [], {"err": "OSError"}, True
    n = -1
    for i, e in enumerate(ev):
        if e[0] == "send":
            n += 1
            if n == f["n"]:
                return ev[:i], {"err": "OSError"}, True
    return ev, res, False


def evaluate(ctx, cases):
    """Run histories on implementation and model; return one report per history:
    {"mismatches": [(suite, detail)], "violations": [(key, what)], "tags": [...]}"""
    default_table()
    impl = [run_impl(case) for case in cases]
    views = [lean_view(case) for case in cases]
    reqs = []
    for case, view, (outs, _, _) in zip(cases, views, impl):
        reqs.append({"suite": "c20", "op": "history", "leaky": False, "store": [lean_dict(d) for d in view["store"]],
                     "calls": [lean_call(case, k, view, o) for k, o in enumerate(outs)]})
    replies = []
    for i in range(0, len(reqs), 25):
        replies += ctx.lean(reqs[i:i + 25])
    reports = []
    leaky_reqs = []
    late_reqs = []
    for case, view, (outs, store_after, kept), req, rep in zip(cases, views, impl, reqs, replies):
        r = {"mismatches": [], "violations": [], "tags": [], "leakcheck": None}
        reports.append(r)
        if "proto_error" in rep:
            r["mismatches"].append(("c20.protocol", rep["proto_error"]))
            continue
        differs = False
        r["tags"] += ["dict_" + kd for kd in case.get("store_kinds", [])]
        for k, (c, o, m, sp) in enumerate(zip(case["calls"], outs, rep["outcomes"], rep["specs"])):
            ctx.traces += 1
            res = o["result"]
            kind = "ok" if "ok" in res else res["err"].split(":")[0]
            if c["image"]["kind"] == "blocks":
                r["tags"] += ["content_template_" + c["image"].get("template", "given")]
                r["tags"] += ["content_block_" + x for x in c["image"]["classes"]]
                r["tags"] += ["content_last_block_" + c["image"]["classes"][-1]]
            r["tags"] += ["result_" + kind, "via_" + c["via"], "image_" + c["image"]["kind"],
                          "table_" + ("default" if c["table"] is None else "synthetic"),
                          "opts_" + ("none" if not c["kwargs"] and c["sv"] is None else
                                     "kwargs" if c["sv"] is None else "dict" if not c["kwargs"] else "both"),
                          "style_" + c.get("style", "keyword"), "paths_" + c.get("paths", "str"),
                          "delays_" + ("default" if None in c.get("delays", [1, 1]) else
                                       "zero" if 0 in c.get("delays", [1, 1]) else "given"),
                          "port_" + ("default" if c["port"] is None else "edge" if c["port"] in (0, 1, 65535) else "given")]
            r["tags"] += ["value_" + (v["k"] if isinstance(v, dict) else type(v).__name__)
                          for _, v in list(c["kwargs"]) + list(view["base"][k])]
            r["tags"] += ["value_big" for _, v in list(c["kwargs"]) + list(view["base"][k]) if abs(lean_value(v)) >= 2 ** 31]
            if c.get("file"):
                f = c["file"]
                r["tags"] += ["fs_" + f.get("class", "given"), "fs_write_" + f.get("write", "replace"),
                              "fs_mtime_" + f.get("mtime", "change")] + (["fs_relative_path"] if f.get("rel") else [])
            if c.get("sfile"):
                r["tags"].append("fs_struct_file_" + c.get("sclass", "given"))
            if c.get("inside"):
                r["tags"] += ["interleaved_" + c["inside"].get("point", "given"), "interleaved_" + o.get("nested", "given")]
            if c.get("mc"):
                r["tags"] += ["mc_" + x for x in ("subclass", "structs") if c["mc"].get(x)] + (
                    ["mc_width"] if c["mc"].get("width") is not None else [])
            if k and {x: y for x, y in c.items() if x not in ("after", "fault")} == {
                    x: y for x, y in case["calls"][k - 1].items() if x not in ("after", "fault")}:
                r["tags"].append("same_call_again")
            if "ok" in res:
                r["tags"].append("blocks_%02d" % sum(1 for e in o["events"] if e[0] == "send" and e[1][8:12] == "0003"))
            want_ev, want_res, struck = expected_outcome(c, m)
            if c.get("fault"):
                r["tags"].append("fault_%s_%s" % (c["fault"]["kind"], "struck" if struck else "not_reached"))
            mres = dict(res)
            mres.pop("detail", None)
            if res.get("err") == "DidNotReturn":
                differs = True
                if sp and sp.get("domain") and sp.get("opts_valid"):
                    r["violations"].append(("did-not-return", "call %d: boot() did not return (%s); the model of this call terminates and "
                                            "sends %d datagrams" % (k, res.get("detail"), sum(1 for e in m["events"] if e[0] == "send"))))
                else:
                    r["mismatches"].append(("c20.boot_call", "call %d: boot() did not return (%s)" % (k, res.get("detail"))))
                continue
            if o["events"] != want_ev or mres != want_res:
                differs = True
                ev_i = next((i for i, (a, b) in enumerate(zip(o["events"], want_ev)) if a != b),
                            min(len(o["events"]), len(want_ev)))
                r["mismatches"].append(("c20.boot_call", "call %d: impl result %s, %d events; model result %s, %d events; first differing event %d" % (
                    k, str(res)[:150], len(o["events"]), str(want_res)[:150], len(want_ev), ev_i)))
            if "ok" in res:
                want = expected_structs(c["table"])
                if o["others"] != want["others"] or o["svmeta"] != want["svmeta"]:
                    r["mismatches"].append(("c20.struct_file", "call %d: returned structs (other than sv's defaults) differ from the independent parse of the struct file of this call" % k))
                if sp and sp.get("packed_model") is False:
                    r["mismatches"].append(("c20.pack", "call %d: pack() of the returned sv definition differs from the model's structPack of the same fields" % k))
            if struck:
                continue                                   # the property says nothing about a boot that lost its network
            # ---- property oracle (Lean spec on the implementation's output)
            if sp and sp.get("domain") and sp.get("opts_valid"):
                r["tags"].append("oracle_applied")
                if "ok" not in res:
                    r["violations"].append(("boot-raises-on-valid-call",
                                            "call %d of the history is inside the property's domain with valid options but boot() raised %s" % (k, res)))
                elif not sp["all"] or sp.get("packed_ok") is False:
                    bad = [x for x in ("shape", "image", "config", "returned") if not sp[x]]
                    if sp.get("packed_ok") is False:
                        bad.append("pack() of the returned definition != configuration sent")
                    key = ("datagram-sequence" if "shape" in bad else
                           "image-bytes" if "image" in bad else
                           "config-area" if "config" in bad else "returned-struct")
                    r["violations"].append((key, "call %d: Lean specification fails on the implementation's output, clauses %s (options asked for: %s)" % (
                        k, bad, own_opts(case, k, view))))
            elif sp and "ok" in res:
                r["tags"].append("oracle_out_of_domain")
        # ---- an interleaved pair is outside the property's "sequences of boots": its findings carry their own key
        inter = set()
        for k, c in enumerate(case["calls"]):
            if c.get("inside") and outs[k].get("nested") == "ran_inside":
                inter |= {k, c["inside"]["of"]}
        if inter:
            hi, lo = max(inter), min(inter)
            note = " [boot %d ran as a nested call inside boot %d at its %s number %d]" % (
                hi, lo, case["calls"][hi]["inside"]["where"], case["calls"][hi]["inside"]["at"])
            new = []
            for key, what in r["violations"]:
                m = re.match(r"call (\d+)", what)
                if m and int(m.group(1)) in inter:
                    key, what = key + "-interleaved", what + note
                new.append((key, what))
            r["violations"] = new
        # ---- kept results: every returned dictionary re-read after every later boot / caller step
        r["tags"] += ["kept_results"] * kept["results"] + ["kept_rechecks"] * kept["rechecks"]
        for c in case["calls"]:
            r["tags"] += ["step_" + st["do"] for st in c.get("after", [])]
        for what in kept["shared"]:
            r["mismatches"].append(("c20.shared_objects", what))
        for what in kept["aux"]:
            r["mismatches"].append(("c20.other_structs", what))
        for l in kept["late"]:
            k = l["call"]
            c, sp, first = case["calls"][k], rep["specs"][k], outs[k]
            r["mismatches"].append(("c20.kept_result", "the result returned by call %d reads differently after %s" % (k, l["after"])))
            applicable = bool(sp and sp.get("domain") and sp.get("opts_valid") and sp.get("all")
                              and sp.get("packed_ok") is not False)
            j = lean_call(case, k, view)
            j.update(suite="c20", op="retcheck", image="", returned=(l["snap"].get("sv") or []))
            pk = l["snap"].get("packed")
            if isinstance(pk, str) and not pk.startswith("error"):
                j["packed"] = pk
            late_reqs.append((r, k, l, first, applicable, j))
        model_final = [rep["state"]["store"][i] for i in view["final"]]
        if store_after != model_final:
            differs = True
            r["mismatches"].append(("c20.caller_dict", "caller dictionaries after the history: impl %s, caller's own edits give %s" % (
                str(store_after)[:200], str(model_final)[:200])))
        if differs:
            r["leakcheck"] = len(leaky_reqs)
            lr = dict(req)
            lr["leaky"] = True
            leaky_reqs.append((lr, outs, store_after, case, view))
    if late_reqs:
        for (r, k, l, first, applicable, j), ans in zip(late_reqs, ctx.lean([x[5] for x in late_reqs])):
            if applicable and (ans.get("returned") is False or ans.get("packed_ok") is False):
                now, was = l["snap"].get("sv"), first["result"]["ok"]
                byname = {f[0]: f for f in (now or [])}
                diff = "the sv entry is gone" if now is None else next(
                    (("sv.%s is no longer described" % b[0]) if b[0] not in byname else
                     ("sv.%s is now described as %r (pack %s at offset %d) but %r (pack %s at offset %d) was sent" % (
                         b[0], byname[b[0]][4], byname[b[0]][1], byname[b[0]][2], b[4], b[1], b[2]))
                     for b in was if byname.get(b[0]) != b),
                    "fields were added or reordered" if ans.get("returned") is False else
                    "pack() of the kept definition no longer gives the configuration that was sent")
                r["violations"].append(("kept-result-changed",
                                        "the struct definitions returned by call %d were correct right after that boot but no longer describe what "
                                        "was sent to that board after %s: %s (Lean returnedOK / configOK fails on the kept result; options of call %d: %s)" % (
                                            k, l["after"], diff, k, j["opts"])))
    if leaky_reqs:
        lreps = ctx.lean([x[0] for x in leaky_reqs])
        for r in reports:
            if r["leakcheck"] is None:
                continue
            lr, outs, store_after, case, view = leaky_reqs[r["leakcheck"]]
            rep = lreps[r["leakcheck"]]
            same = "outcomes" in rep and not any(st["do"] == "edit_dict" for c in case["calls"] for st in c.get("after", []))
            same = same and store_after == [rep["state"]["store"][i] for i in view["final"]]
            if same:
                for c, o, m in zip(case["calls"], outs, rep["outcomes"]):
                    want_ev, want_res, _ = expected_outcome(c, m)
                    if o["events"] != want_ev or {k: v for k, v in o["result"].items() if k != "detail"} != want_res:
                        same = False
            r["tags"].append("matches_leaky_model" if same else "matches_neither_model")
            if same:
                # the difference is exactly the in-place update of the dictionary boot() was handed
                new = []
                for key, what in r["violations"]:
                    if key in ("config-area", "returned-struct", "boot-raises-on-valid-call"):
                        key = "options-leak"
                        what += " -- the whole history equals the model in which sv_overrides is updated in place"
                    new.append((key, what))
                r["violations"] = new
    return reports


def shrink(ctx, case, key):
    """greedy: drop calls, shorten images, drop options while the same finding key stays"""
    def fails(cand):
        try:
            rep = evaluate(_Quiet(ctx), [cand])[0]
        except Exception:
            return False
        return any(k == key for k, _ in rep["violations"])
    budget = [30]

    def attempt(cand):
        if budget[0] <= 0:
            return False
        budget[0] -= 1
        return fails(cand)
    cur = case
    changed = True
    while changed and budget[0] > 0:
        changed = False
        for i in range(len(cur["calls"])):
            cand = drop_call(cur, i)
            if cand["calls"] and attempt(cand):
                cur, changed = cand, True
                break
    for i in range(len(cur["calls"])):
        for j in range(len(cur["calls"][i].get("after", [])) - 1, -1, -1):
            cand = {"store": cur["store"], "calls": [dict(x) for x in cur["calls"]]}
            cand["calls"][i]["after"] = cur["calls"][i]["after"][:j] + cur["calls"][i]["after"][j + 1:]
            if attempt(cand):
                cur = cand
    for i, c in enumerate(cur["calls"]):
        if c["image"].get("len", 99999) > 512:
            cand = {"store": cur["store"], "calls": [dict(x) for x in cur["calls"]]}
            cand["calls"][i]["image"] = {"kind": "rand", "len": 512, "seed": 1}
            if attempt(cand):
                cur = cand
    for i, c in enumerate(cur["calls"]):
        for j in range(len(c["kwargs"]) - 1, -1, -1):
            cand = {"store": cur["store"], "calls": [dict(x) for x in cur["calls"]]}
            cand["calls"][i]["kwargs"] = c["kwargs"][:j] + c["kwargs"][j + 1:]
            if len(cur["calls"][i]["kwargs"]) > 1 and attempt(cand):
                cur = cand
                c = cur["calls"][i]
    return cur


def drop_call(case, i):
    """the history without call i (and without its steps); caller edits keep pointing at the same results"""
    calls = []
    for k, c in enumerate(case["calls"]):
        if k == i:
            continue
        c = dict(c)
        if c.get("inside"):
            if c["inside"]["of"] == i:
                c.pop("inside")
            elif c["inside"]["of"] > i:
                c["inside"] = dict(c["inside"], of=c["inside"]["of"] - 1)
        steps = []
        for st in c.get("after", []):
            if st["do"] == "mutate":
                if st["target"] == i:
                    continue
                if st["target"] > i:
                    st = dict(st, target=st["target"] - 1)
            steps.append(st)
        c["after"] = steps
        calls.append(c)
    return {"store": case["store"], "calls": calls}


class _Quiet(object):
    """ctx stand-in for shrinking: same driver, nothing counted"""
    def __init__(self, ctx):
        self._ctx = ctx
        self.traces = 0

    def lean(self, reqs):
        return self._ctx.driver.run(reqs)


def report(ctx, cases, reports, do_shrink=True):
    shrunk = set()
    for case, r in zip(cases, reports):
        for t in r["tags"]:
            ctx.tag(t)
        if case.get("twin"):
            ctx.tag("twin_" + case["twin"])
        if case.get("interleaved"):
            ctx.tag("stream_interleaved")
        if case.get("scale"):
            ctx.tag("scale_" + case["scale"])
        for suite, detail in r["mismatches"]:
            ctx.mismatch(suite, detail, case)
        for key, what in r["violations"]:
            c = case
            if do_shrink and key not in shrunk:
                shrunk.add(key)
                c = shrink(ctx, case, key)
                if c is not case:
                    rep = evaluate(_Quiet(ctx), [c])[0]
                    what = next((w for k, w in rep["violations"] if k == key), what)
            ctx.violation(key, what, c)
        ctx.case(case, nontrivial(case))


def prepare(ctx):
    ctx.extra["rule"] = RULE
    ctx.assumptions += [
        "struct.pack, bytearray slice assignment, dict ordering and keyword passing behave as documented by CPython",
        "the oracle is applied to calls in the domain: 4 | len(image), 512 <= len(image) < 32 KiB, well-formed struct table, options naming fields with fitting values; elsewhere only model = code is checked",
        "each history starts from freshly reloaded rig.machine_control.struct_file and .boot modules (state of a new process)",
        "a kept result is judged by the Lean predicate returnedOK with the options of the call that returned it; the caller edits only results it will not consult again",
        "UDP delivery and real time are outside the model: the datagrams handed to the socket and the sleeps requested are what is observed"]
    default_table()
    c = ctx.lean([{"suite": "c20", "op": "consts"}, {"suite": "c20", "op": "structs"}])
    _cache["BOOT_PORT"] = c[0]["BOOT_PORT"]
    _cache["presets"] = c[0]["spin"]
    # translator cross-check: Gen table (independent parse) == rig's own read_struct_file of the same file
    from rig.machine_control import struct_file, boot as boot_mod, consts
    from harness import common
    try:
        st = struct_file.read_struct_file(open(os.path.join(common.REPO, "rig/boot/sark.struct"), "rb").read())
        theirs = [[n.decode(), s.size, s.base, canon_struct(s)] for n, s in st.items()]
    except Exception as e:      # noqa  (the streams go on: a boot with the bundled file then shows what goes wrong)
        theirs = "read_struct_file(sark.struct) raised %r" % (e,)
    if theirs != c[1]:
        ctx.mismatch("c20.translator", "independent parse of sark.struct differs from read_struct_file", {"struct": "sark.struct"})
    live = [[int(k[4]), [[a, b] for a, b in getattr(boot_mod, k).items()]] for k in sorted(dir(boot_mod))
            if k.startswith("spin") and k.endswith("_boot_options")]
    if live != c[0]["spin"] or consts.BOOT_PORT != c[0]["BOOT_PORT"] or boot_mod.DTCM_SIZE != c[0]["DTCM_SIZE"]:
        ctx.mismatch("c20.translator", "constants read by AST differ from the imported module", {"consts": live})
    ctx.tag("translator_crosscheck")


def fixed_cases():
    """the history of DESIGN 3/C20 and a caller-dict variant, always run first"""
    img = {"kind": "rand", "len": 2048, "seed": 7}
    base = {"port": None, "image": img, "table": None, "sv": None, "kwargs": [], "t1": 1443571200,
            "t2": 1443571201, "via": "function"}
    a = dict(base, host="a", kwargs=[["hw_ver", 3], ["led0", 0x502]])
    b = dict(base, host="b")
    c = dict(base, host="a", sv=0, kwargs=[["hw_ver", 5]])
    d = dict(base, host="b", sv=0)
    # kept results: boot a with options, keep what it returned, then boot b / build a controller / parse another
    # struct file / edit b's result - a's result must still describe what was sent to a
    small = {"size": 128, "fields": [["hw_ver", "B", 0, "%d", 7, 1], ["unix_time", "I", 4, "%08x", 0, 1],
                                     ["boot_sig", "I", 8, "%08x", 0, 1], ["root_chip", "B", 12, "%d", 0, 1],
                                     ["led0", "I", 16, "%08x", 5, 1]]}
    e = dict(base, host="a", kwargs=[["hw_ver", 3], ["led0", 0x502], ["cpu_clk", 150]],
             after=[{"do": "controller", "host": "127.0.0.1"}, {"do": "read_struct", "table": small}])
    f = dict(base, host="b", after=[{"do": "mutate", "target": 1, "how": "all", "field": "hw_ver", "value": 9}])
    g = dict(base, host="127.0.0.2", via="controller", kwargs=[["hw_ver", 5]])
    h = dict(base, host="c", table=small, kwargs=[["led0", 0]],
             after=[{"do": "mutate", "target": 2, "how": "defaults", "field": "led0", "value": 77}])
    # falsy options for variables whose default is not zero, as keyword, via sv_overrides and via both
    z1 = dict(base, host="a", kwargs=[["soft_wdog", 0], ["led0", 0], ["cpu_clk", 0]])
    z2 = dict(base, host="b", sv=0)
    z3 = dict(base, host="c", sv=1, kwargs=[["link_en", 0], ["num_buf", False]])
    # image content: code followed by blank blocks (full and short), whole-block palindromes (full and short final
    # block), equal blocks, an all-zero image
    def blk(n, classes):
        return {"kind": "blocks", "len": n, "seed": 11, "template": "given", "classes": classes}
    contents = [blk(3584, ["random", "random", "zero", "zero"]), blk(4096, ["random", "palindrome", "palindrome", "zero"]),
                blk(2560, ["random", "period3", "palindrome"]), blk(3072, ["random", "same_as_prev", "swap_of_prev"]),
                blk(2048, ["zero", "zero"]), blk(1536, ["ff", "ff"]), blk(2052, ["word_palindrome", "palindrome", "zero"])]
    content_cases = [{"store": [], "calls": [dict(base, host="a", image=im, kwargs=[["hw_ver", 2]]), dict(base, host="b", image=im)]}
                     for im in contents]
    return content_cases + [{"store": [], "calls": [a, b]}, {"store": [[["led1", 9]]], "calls": [c, d]},
            {"store": [], "calls": [dict(base, host="a", image={"kind": "default"}, via="function")]},
            {"store": [], "calls": [e, f]}, {"store": [], "calls": [g, e, h, f]},
            {"store": [[["soft_wdog", 0], ["boot_delay", 0], ["led0", False]], [["link_en", 63], ["iobuf_size", 0]]],
             "calls": [z1, z2, z3]}]


def gen_twins(rng):
    """two boots equal in all but ONE aspect, as the histories [A, B] and [B, A]"""
    default_table()
    aspect = rng.choice(["option_value", "option_added", "option_zero", "host", "port", "image_byte", "clock",
                         "delivery", "layout_default", "layout_base", "delay", "via"])
    tab = default_table() if (rng.random() < 0.6 and not aspect.startswith("layout")) else gen_table_wf(rng)
    table = None if tab is default_table() else tab
    a = {"host": "board0", "port": None, "image": gen_image(rng, 4 * rng.randrange(128, 700)), "table": table,
         "sv": None, "kwargs": [p for p in gen_opts(rng, tab, False) if isinstance(p[1], int)], "via": "function",
         "t1": 1443571200, "t2": 1443571201, "after": []}
    b = json.loads(json.dumps(a))
    store = []
    fields = [f for f in tab["fields"] if f[0] not in RESERVED and f[0] not in ("unix_time", "boot_sig", "root_chip")
              and f[1] in RANGE]
    if aspect == "option_value" and a["kwargs"]:
        j = rng.randrange(len(a["kwargs"]))
        b["kwargs"][j][1] = (lean_value(a["kwargs"][j][1]) + 1) % 128
    elif aspect == "option_added" and fields:
        f = rng.choice(fields)
        b["kwargs"] = [p for p in b["kwargs"] if p[0] != f[0]] + [[f[0], rng.choice([1, RANGE[f[1]][1]])]]
        a["kwargs"] = [p for p in a["kwargs"] if p[0] != f[0]]
    elif aspect == "option_zero":
        nz = [f for f in fields if f[4] != 0]
        if nz:
            f = rng.choice(nz)
            b["kwargs"] = [p for p in b["kwargs"] if p[0] != f[0]] + [[f[0], 0]]
            a["kwargs"] = [p for p in a["kwargs"] if p[0] != f[0]]
    elif aspect == "host":
        b["host"] = "board1"
    elif aspect == "port":
        b["port"] = rng.choice([0, 1, 54320, 65535])
    elif aspect == "image_byte":
        b["image"] = dict(a["image"], flip=rng.randrange(a["image"]["len"]))
    elif aspect == "clock":
        b["t1"], b["t2"] = a["t1"] + 1, a["t2"] + 1
    elif aspect == "delivery":
        store = [[list(p) for p in a["kwargs"]]]
        b["kwargs"], b["sv"] = [], 0
    elif aspect == "layout_default" and table is not None and fields:
        t = json.loads(json.dumps(table))
        f = rng.choice([g for g in t["fields"] if g[0] in [x[0] for x in fields]])
        f[4] = (f[4] + 1) % 100
        b["table"] = t
    elif aspect == "layout_base" and table is not None:
        b["table"] = dict(json.loads(json.dumps(table)), base=0x1000, other=9)
    elif aspect == "delay":
        b["delays"] = [0, 0]
    elif aspect == "via":
        a["host"] = b["host"] = "127.0.0.5"
        b["via"] = "controller"
    else:
        aspect += "_same"
    one = {"store": store, "calls": [a, b], "twin": aspect}
    two = {"store": json.loads(json.dumps(store)), "calls": [json.loads(json.dumps(b)), json.loads(json.dumps(a))],
           "twin": aspect}
    return [one, two]


def gen_table_wf(rng):
    for _ in range(50):
        t = gen_table(rng)
        names = [f[0] for f in t["fields"]]
        if t["size"] >= 128 and all(n in names for n in ("unix_time", "boot_sig", "root_chip")) and all(
                f[1] in RANGE for f in t["fields"]):
            return t
    return default_table()


def gen_scale(rng, which):
    """far beyond the usual size, a handful per run"""
    default_table()
    base = {"host": "board0", "port": None, "image": gen_image(rng, 1024), "table": None, "sv": None, "kwargs": [],
            "via": "function", "t1": 1443571200, "t2": 1443571200, "after": []}
    if which == "fields":                       # a struct of hundreds of fields, half of them overridden
        fields, off = [], 0
        for n in ["unix_time", "boot_sig", "root_chip"] + ["v%d" % i for i in range(400)]:
            pk = {"unix_time": "I", "boot_sig": "I", "root_chip": "B"}.get(n) or rng.choice("BbHI")
            w = struct.calcsize("<" + pk)
            fields.append([n, pk, off, "%d", rng.randint(*RANGE[pk]), 1])
            off += w
        t = {"size": off + rng.choice([0, 3]), "fields": fields, "comments": 3000}
        fields[5][5] = 65537                    # an array of 65,537 elements
        kw = [[f[0], rng.randint(*RANGE[f[1]])] for f in rng.sample(fields[3:], 200)]
        return {"store": [kw[100:]], "calls": [dict(base, table=t, kwargs=kw[:100], sv=0), dict(base, table=t, host="board1")],
                "scale": which}
    if which == "options":                      # every variable of sv overridden in one call
        tab = default_table()
        fs = [f for f in tab["fields"] if f[0] not in ("unix_time", "boot_sig", "root_chip")]
        kw = [[f[0], rng.randint(*RANGE[f[1]])] for f in fs if f[0] not in RESERVED]
        dd = [[f[0], rng.randint(*RANGE[f[1]])] for f in fs]
        return {"store": [dd], "calls": [dict(base, kwargs=kw, sv=0, image={"kind": "default"}), dict(base, host="board1")],
                "scale": which}
    # a long history: 40 boots, two controllers and two layouts used alternately
    t2 = gen_table_wf(rng)
    calls = []
    for i in range(40):
        tab = None if i % 2 == 0 else (t2 if t2 is not default_table() else None)
        c = dict(base, host="127.0.0.%d" % (1 + i % 2), via="controller" if i % 3 else "function", table=tab,
                 image=gen_image(rng, 512 + 4 * (i % 5)),
                 kwargs=gen_opts(rng, tab or default_table(), False) if i % 4 != 3 else [])
        calls.append(c)
    return {"store": [], "calls": calls, "scale": which}


def packet_stream(ctx, n):
    """boot_packet() called directly: positional and keyword, commands as BootCommand members / ints / numpy ints,
    arguments up to and beyond 32 bits, data as bytes / bytearray / memoryview of every length mod 4"""
    import rig.machine_control.boot as boot_mod
    from harness import common
    rng = ctx.rng
    cases = []
    for _ in range(n):
        cmd = rng.choice([1, 3, 5, 0, 2, 255, 2 ** 32 - 1] + ([rng.choice([-1] + BIG[3:])] if rng.random() < 0.1 else []))
        args = [rng.choice([0, 1, 255, (255 << 8) | rng.randrange(256), 2 ** 31, 2 ** 32 - 1, rng.randrange(2 ** 32)] +
                           ([rng.choice([-1] + BIG[3:])] if rng.random() < 0.06 else [])) for _ in range(3)]
        ln = rng.choice([0, 0, 4, 8, 1024, 1028, 4 * rng.randrange(300), rng.randrange(1, 40)])
        data_cls = rng.choice(["random", "random"] + BLOCK_CLASSES)
        data = block_bytes(data_cls, ln, random.Random(rng.randrange(2 ** 30)), rng.randbytes(ln))
        case = {"cmd": cmd, "args": args, "data": data.hex(), "content": data_cls, "cmd_kind": rng.choice(["int", "enum", "np"]),
                "data_kind": rng.choice(["bytes", "bytes", "bytearray", "memoryview"]),
                "style": rng.choice(["positional", "positional", "keyword", "keyword", "defaults"])}
        if case["style"] == "defaults":
            case["args"], case["data"] = [0, 0, 0], ""
        cases.append(case)
    packet_eval(ctx, cases)


def packet_eval(ctx, cases):
    import rig.machine_control.boot as boot_mod
    from harness import common
    impl = []
    for case in cases:
        log = []
        sock = FakeSock(log, True, FakeSocketModule(log))
        cmd = case["cmd"]
        if case["cmd_kind"] == "enum" and cmd in (1, 3, 5):
            cmd = boot_mod.BootCommand(cmd)
        elif case["cmd_kind"] == "np" and 0 <= cmd < 2 ** 63:
            cmd = py_value({"k": "np", "v": cmd})
        else:
            case["cmd_kind"] = "int"
        data = bytes.fromhex(case["data"])
        data = bytearray(data) if case["data_kind"] == "bytearray" else memoryview(data) if case["data_kind"] == "memoryview" else data
        a1, a2, a3 = case["args"]
        try:
            with common.cpu_limit(hang_limit()):
                if case["style"] == "positional":
                    boot_mod.boot_packet(sock, cmd, a1, a2, a3, data)
                elif case["style"] == "keyword":
                    boot_mod.boot_packet(sock, cmd, arg3=a3, data=data, arg1=a1, arg2=a2)
                else:
                    boot_mod.boot_packet(sock, cmd)
            impl.append({"ok": log[0]} if len(log) == 1 else {"err": "events", "detail": str(log)[:200]})
        except common.ImplHang as e:
            _HANGS[0] += 1
            impl.append({"err": "DidNotReturn", "detail": str(e)})
        except Exception as e:      # noqa
            impl.append(classify(e))
    reps = ctx.lean([{"suite": "c20", "op": "packet", "cmd": c["cmd"], "a1": c["args"][0], "a2": c["args"][1],
                      "a3": c["args"][2], "data": c["data"]} for c in cases])
    for case, o, m in zip(cases, impl, reps):
        ctx.traces += 1
        ctx.tag("packet_" + ("ok" if "ok" in o else o["err"].split(":")[0]), "packet_data_" + case["data_kind"],
                "packet_content_" + case.get("content", "random"),
                "packet_cmd_" + case["cmd_kind"], "packet_style_" + case["style"])
        o = {k: v for k, v in o.items() if k != "detail"}
        if o != m:
            ctx.mismatch("c20.boot_packet", "boot_packet: impl %s model %s" % (str(o)[:200], str(m)[:200]), {"packet": case})
        ctx.case({"packet": case}, "ok" in o and len(case["data"]) > 0)


# ------------------------------------------------------------------ STREAM struct files (read_struct_file vs parseStructFile)
# Generated struct-file TEXTS go to rig's read_struct_file and to the Lean model parser (suite c20parse); parsed
# tables and raised errors (kind + detail) are compared exactly (mismatch).  Every text whose Lean parse has an
# in-domain `sv` struct is then BOOTED: boot(sark_struct=<the text>) is judged by the Lean specOK with the table
# parseStructFile gave - the boot theorems applied to the parsed table - so a parser that reads the file
# differently (offsets, widths, defaults, array lengths, comments, line ends) ends in a concrete VIOLATION.
PERL_OF = {"B": "C", "b": "c", "H": "v", "I": "V"}
SEPS = [" ", " ", "  ", "   ", "\t", " \t", "\x0b", "\x0c", "          "]
EOLS = ["\n", "\n", "\n", "\r\n", "\r"]


def fmt_num(rng, v, fancy=True):
    """one of the spellings `num` accepts for the integer v"""
    if v < 0:
        return rng.choice(["%d" % v, "-0%d" % -v]) if fancy else "%d" % v
    forms = ["%d", "%d", "0x%x", "0x%02x", "0X%X", "0x%08x", "0x%X"]
    if fancy:
        forms += ["0%d", "+%d", "00%d", "0X%x"]
    s = rng.choice(forms) % v
    if fancy and rng.random() < 0.12:
        digits = s[2:] if s[:2] in ("0x", "0X") else s.lstrip("+")
        if len(digits) >= 2:
            k = rng.randrange(1, len(digits))
            s = s[:len(s) - len(digits)] + digits[:k] + "_" + digits[k:]
    return s


def perl_token(rng, pypack, counted):
    if pypack in PERL_OF:
        t = PERL_OF[pypack]
        if counted and rng.random() < 0.3:
            t += rng.choice(["1", "01", "2", "0", "4", "1zz"])
        return t
    return "A" + pypack[:-1]


def field_line(rng, f, fancy, counted=False):
    n, p, off, pf, d, ln = f
    nm = n if ln == 1 else "%s[%s]" % (n, rng.choice(["%d", "%d", "0%d"]) % ln if fancy else "%d" % ln)
    return [nm, perl_token(rng, p, counted), fmt_num(rng, off, fancy), pf, fmt_num(rng, d, fancy)]


def render(rng, lines, fancy):
    """lines = list of token lists (or raw strings) -> bytes, with separators, comments, blank lines and line ends"""
    eol = rng.choice(EOLS) if fancy else "\n"
    mixed = fancy and rng.random() < 0.15
    out = []
    for toks in lines:
        if isinstance(toks, str):
            s = toks
        else:
            sep = rng.choice(SEPS) if fancy else "  "
            s = (rng.choice(["", "", " ", "\t"]) if fancy else "") + sep.join(toks)
            r = rng.random()
            if r < 0.35:
                s += rng.choice(["  # comment", "#c", " #", "\t# a # b", "   ", "# x = y", " # name = q"])
        out.append(s + (rng.choice(EOLS) if mixed else eol))
        if fancy and rng.random() < 0.2:
            out.append(rng.choice(["", "   ", "# only a comment", "\t#", "#" + "-" * 30]) + (rng.choice(EOLS) if mixed else eol))
    text = "".join(out)
    if fancy and rng.random() < 0.3:
        text = text.rstrip("\r\n")              # no line end after the last line
    return text.encode("latin-1")


def struct_lines(rng, name, size, base, fields, fancy, counted=False):
    eq = rng.choice(["=", "=", "=", ":", "is", "=="]) if fancy else "="
    hdr = [["size", eq, fmt_num(rng, size, fancy)], ["base", eq, fmt_num(rng, base, fancy)]]
    if fancy and rng.random() < 0.3:
        hdr.reverse()
    if fancy and rng.random() < 0.15:            # a header given twice: the later one counts
        hdr.insert(0, [hdr[-1][0], eq, fmt_num(rng, rng.choice([0, 4, 512]), fancy)])
    body = [field_line(rng, f, fancy, counted) for f in fields]
    if fancy and rng.random() < 0.15 and body:   # header lines may come after fields
        k = rng.randrange(len(body) + 1)
        return [["name", eq, name]] + body[:k] + hdr + body[k:]
    return [["name", eq, name]] + hdr + body


def gen_small_struct(rng, name, allpacks):
    fields, off = [], 0
    for i in range(rng.randrange(0, 5)):
        p = rng.choice(["B", "b", "H", "I"] + (["16s", "1s", "0s", "4s"] if allpacks else []))
        lo, hi = RANGE.get(p, (0, 9))
        fields.append([rng.choice(["x%d", "y.%d", "z_%d", "%dq"]) % i, p, off, rng.choice(["%d", "%s", "%08x"]),
                       rng.choice([0, lo, hi, rng.randint(lo, hi)]), rng.choice([1, 1, 1, 2, 16])])
        off += rng.choice([1, 2, 4, 16])
    return [name, rng.choice([8, 64, 128]), rng.choice([0, 0x10, 0xe5007f00]), fields]


def gen_valid_text(rng, bootable):
    """a struct file read_struct_file accepts; `bootable`: ASCII, uncounted integer packs, an in-domain sv (mostly)"""
    fancy = rng.random() < 0.8
    t = gen_table_wf(rng) if rng.random() < 0.85 else gen_table(rng)
    fields = [list(f) for f in t["fields"]]
    if rng.random() < 0.3 and fields:            # array fields (the count is not packed, it is reported)
        for f in rng.sample(fields, min(len(fields), rng.randrange(1, 4))):
            f[5] = rng.choice([2, 3, 16, 20, 0, 65537])
    if rng.random() < 0.25 and fields:           # names the array expression does not match: kept whole, length 1
        f = rng.choice(fields)
        if f[0] not in ("unix_time", "boot_sig", "root_chip") and f[5] == 1:
            f[0] = rng.choice(["%s.sub", "%s.a[3]", "%s[x]", "%s[", "%s[]", "a-%s"]) % f[0]
    structs = []
    for i in range(rng.choice([0, 0, 1, 2])):
        structs.append(gen_small_struct(rng, "pre%d" % i, True))
    sv = ["sv", t["size"], t.get("base", 0xf5007f00), fields]
    if rng.random() < 0.15:                      # sv defined twice: the second definition replaces the first in place
        structs.append(["sv", 64, 0, [["old", "I", 0, "%d", 1, 1]]])
        structs.append(gen_small_struct(rng, "mid", True))
    structs.append(sv)
    for i in range(rng.choice([0, 1, 1, 2])):
        structs.append(gen_small_struct(rng, "post%d" % i, True))
    lines = []
    for nm, size, base, fs in structs:
        fs = [list(f) for f in fs]
        if nm == "sv" and fs and rng.random() < 0.2:       # a field given twice: the later line replaces it in place
            k = rng.randrange(len(fs))
            old = list(fs[k])
            old[2], old[4] = rng.choice([0, 1, old[2]]), rng.choice([0, 1])
            fs.insert(rng.randrange(k + 1), old)
        lines += struct_lines(rng, nm, size, base, fs, fancy, counted=not bootable)
    if not bootable and rng.random() < 0.3:      # bytes outside ASCII in names / printf strings, odd control bytes
        extra = rng.choice(["caf\xe9", "\xa0x", "a\x1cb", "a\x85", "n\x00l", "\xff"])
        lines.append([extra, "C", "0", "%" + extra, "0"])
    return render(rng, lines, fancy)


BAD_NUMS = ["0x", "12a", "1__0", "_1", "1_", "0x1g", "--1", "+-1", "0b101", "1e3", "0x_1", "0x1__2", "-0x10",
            "+0x10", "1.0", "0o17", "x10", "\xb2", "1\x00", "0X", "-", "+"]
BAD_PACKS = ["x", "Q", "VV", "16A", "4", "a", "s", "I", "_1", "v_", "\xe9", "c1c", "A"]


def gen_malformed_text(rng):
    """a valid text with one thing wrong (or odd): which error, and where, must agree with the model"""
    base = gen_valid_text(rng, rng.random() < 0.5).decode("latin-1")
    eol = "\r\n" if "\r\n" in base else ("\r" if "\r" in base and "\n" not in base else "\n")
    lines = base.split(eol)
    kind = rng.choice(["drop_size", "drop_base", "drop_name", "tokens", "badkey", "badnum_field", "badnum_header",
                       "badpack", "field_first", "empty", "hash_in_token", "hash_line", "redefine", "array_odd",
                       "pack_junk", "two_errors", "only_header"])
    def idx(pred):
        c = [i for i, l in enumerate(lines) if pred(l.split("#")[0].split())]
        return rng.choice(c) if c else None
    is_field = lambda t: len(t) == 5
    if kind in ("drop_size", "drop_base", "drop_name"):
        key = kind[5:]
        i = idx(lambda t: len(t) == 3 and t[0] == key)
        if i is not None:
            if rng.random() < 0.5:
                lines = [l for l in lines if l.split("#")[0].split()[:1] != [key]] if key != "name" else lines[:i] + lines[i + 1:]
            else:
                del lines[i]
    elif kind == "tokens":
        n = rng.choice([1, 2, 4, 6, 7])
        lines.insert(rng.randrange(len(lines) + 1), " ".join(rng.choice(["a", "=", "0", "V", "name", "%d"]) for _ in range(n)))
    elif kind == "badkey":
        lines.insert(rng.randrange(len(lines) + 1), rng.choice(["Name = x", "sizes = 4", "x V 0", "base= 4 5", "NAME = sv", "= = ="]))
    elif kind == "badnum_field":
        i = idx(is_field)
        if i is not None:
            t = lines[i].split("#")[0].split()
            t[rng.choice([2, 4])] = rng.choice(BAD_NUMS)
            lines[i] = " ".join(t)
    elif kind == "badnum_header":
        i = idx(lambda t: len(t) == 3 and t[0] in ("size", "base"))
        if i is not None:
            t = lines[i].split("#")[0].split()
            t[2] = rng.choice(BAD_NUMS)
            lines[i] = " ".join(t)
    elif kind in ("badpack", "pack_junk"):
        i = idx(is_field)
        if i is not None:
            t = lines[i].split("#")[0].split()
            t[1] = rng.choice(BAD_PACKS) if kind == "badpack" else rng.choice(["V4zz", "A16s", "C1[", "v01x", "c0", "V12345678901234567890"])
            lines[i] = " ".join(t)
    elif kind == "field_first":
        lines.insert(0, rng.choice(["f V 0 %d 0", "size = 4", "base = 0x10", "f Q 0 %d 0", "f V zz %d 0", "size = zz"]))
    elif kind == "empty":
        lines = rng.choice([[], [""], ["# nothing"], ["", "   ", "\t"], ["#"]])
    elif kind == "hash_in_token":
        i = idx(lambda t: len(t) >= 3)
        if i is not None:
            l = lines[i]
            k = rng.randrange(len(l) + 1)
            lines[i] = l[:k] + "#" + l[k:]
    elif kind == "hash_line":
        i = idx(lambda t: len(t) >= 3)
        if i is not None:
            lines[i] = "#" + lines[i]
    elif kind == "redefine":
        names = [l.split("#")[0].split()[2] for l in lines if l.split("#")[0].split()[:1] == ["name"] and len(l.split("#")[0].split()) == 3]
        lines.append("name = " + (rng.choice(names) if names and rng.random() < 0.7 else "fresh"))
        if rng.random() < 0.5:
            lines += ["size = 4"] + (["base = 4"] if rng.random() < 0.5 else [])
    elif kind == "array_odd":
        i = idx(is_field)
        if i is not None:
            t = lines[i].split("#")[0].split()
            t[0] = rng.choice(["a[3", "a[]", "a[3]x", "[3]", "a.b[3]", "a[0x3]", "a[03]", "a[3][4]", "a[-1]", "a_1[10]]",
                               "\xe9[3]", "a[3 ]", "a[1_0]", "9[9]", "_[00]"]).replace(" ", "")
            lines[i] = " ".join(t)
    elif kind == "two_errors":
        lines.insert(rng.randrange(len(lines) + 1), "f Q zz %d yy")
        lines.insert(rng.randrange(len(lines) + 1), "a b")
    elif kind == "only_header":
        lines = ["name = sv"] + rng.choice([[], ["size = 4"], ["base = 4"], ["size = 4", "base = 4"], ["base = 4", "name = t"]])
    return kind, eol.join(lines).encode("latin-1")


def parse_impl(data):
    """rig's read_struct_file on `data`, canonicalised like the model's reply"""
    import ast
    from rig.machine_control import struct_file
    from harness import common
    try:
        with common.cpu_limit(5):
            st = struct_file.read_struct_file(data)
        out = []
        for n, s in st.items():
            if n != s.name:
                return {"err": "name-attribute-differs"}
            out.append([n.hex(), s.size, s.base,
                        [[k.hex(), f.pack_chars.hex(), f.offset, f.printf.hex(), f.default, f.length]
                         for k, f in s.fields.items()]])
        return {"ok": out}
    except common.ImplHang:
        return {"err": "DidNotReturn"}
    except ValueError as e:
        a = e.args[0] if e.args else None
        if isinstance(a, bytes):
            return {"err": "badkey", "key": a.hex()}
        m = re.match(r"line (\d+): Invalid syntax in struct file$", str(a))
        if m:
            return {"err": "syntax", "line": int(m.group(1))}
        for k in ("size", "base"):
            m = re.match(r"%s value missing for struct '(.*)'$" % k, str(a), re.S)
            if m:
                try:
                    return {"err": k + "-missing", "name": ast.literal_eval(m.group(1)).hex()}
                except Exception:       # noqa
                    return {"err": k + "-missing", "name": repr(m.group(1))}
        m = re.match(r"invalid literal for int\(\) with base \d+: (.*)$", str(a), re.S)
        if m:
            try:
                return {"err": "int", "tok": ast.literal_eval(m.group(1)).hex()}
            except Exception:           # noqa
                return {"err": "int", "tok": repr(m.group(1))}
        return {"err": "ValueError", "detail": str(a)[:100]}
    except KeyError as e:
        a = e.args[0] if e.args else "?"
        if a is None:
            return {"err": "none"}
        if isinstance(a, bytes):
            return {"err": "pack", "key": a.hex()}
        return {"err": "KeyError", "detail": repr(a)[:100]}
    except Exception as e:              # noqa
        return {"err": type(e).__name__, "detail": str(e)[:100]}


def table_of_parse(parsed, text):
    """the c20 table (what lean_table / expected_structs read) of a model parse; None when the file has no sv
    struct the boot model can carry (negative numbers, non-ASCII names)"""
    def dec(h):
        return bytes.fromhex(h).decode("latin-1")
    def conv(s):
        return [dec(s[0]), s[1], s[2], [[dec(f[0]), dec(f[1]), f[2], dec(f[3]), f[4], f[5]] for f in s[3]]]
    ss = [conv(s) for s in parsed]
    sv = [s for s in ss if s[0] == "sv"]
    if not sv:
        return None
    for s in ss:
        if s[1] < 0 or s[2] < 0 or any(f[2] < 0 for f in s[3]):
            return None
    if any(ord(ch) > 126 or ord(ch) < 32 for s in ss for ch in s[0] + "".join(f[0] + f[1] + f[3] for f in s[3])):
        return None
    sv = sv[0]
    if any(f[1] not in RANGE and not f[1].endswith("s") for f in sv[3]):
        return None         # counted integer codes ("1I"): packValueFull / STREAM pack characters, not Model/C20's packValue
    return {"size": sv[1], "base": sv[2], "fields": sv[3], "text": text.hex(),
            "others": sorted(s for s in ss if s[0] != "sv")}


def parse_eval(ctx, items):
    """items: [{"text": hex, "kind": ...}] -> list of (item, model reply, impl reply)"""
    ms = ctx.lean([{"suite": "c20parse", "op": "parse", "data": it["text"]} for it in items])
    out = []
    for it, m in zip(items, ms):
        o = parse_impl(bytes.fromhex(it["text"]))
        ctx.traces += 1
        ctx.tag("parse_kind_" + it.get("kind", "replay"), "parse_" + ("ok" if "ok" in m else "err_" + m["err"]))
        if m.get("err") == "int" and o.get("err") == "int":
            o, m = {"err": "int"}, {"err": "int"}       # the token quoted in int()'s message is not behaviour
        if o != m:
            ctx.mismatch("c20.read_struct_file", "read_struct_file: impl %s model %s" % (str(o)[:300], str(m)[:300]),
                         {"parse": it})
        ctx.case({"parse": it}, "ok" in m and any(len(s[3]) > 0 for s in m["ok"]))
        out.append((it, m, o))
    return out


def boot_case_of_text(rng, table, j):
    opts = gen_opts(rng, table, False) if rng.random() < 0.6 else []
    t = rng.choice([0, 1443571200, rng.randrange(2 ** 32)])
    return {"store": [], "store_kinds": [], "calls": [
        {"host": "board%d" % (j % 4), "port": None, "image": {"kind": "rand", "len": rng.choice([512, 1024, 2048]), "seed": j},
         "table": table, "sv": None, "kwargs": opts, "t1": t, "t2": t + rng.choice([0, 1]), "via": "function",
         "after": []}]}


def pack_stream(ctx, n):
    """struct.pack(b"<" + pack_chars, v) for every pack string the parser can produce against packValueFull"""
    import struct as _struct
    rng = ctx.rng
    reqs, cases = [], []
    for _ in range(n):
        ch = rng.choice("bBHIs")
        cnt = rng.choice(["", "", "", "1", "01", "001", "0", "2", "16", "00"])
        lo, hi = RANGE.get(ch, (0, 255))
        v = rng.choice([0, 1, lo, hi, lo - 1, hi + 1, rng.randint(lo, hi), -1, 2 ** 32, rng.choice(BIG)])
        pk = (cnt + ch).encode()
        cases.append((pk, v))
        reqs.append({"suite": "c20parse", "op": "packv", "pack": pk.hex(), "v": v})
    for (pk, v), m in zip(cases, ctx.lean(reqs)):
        try:
            o = {"ok": _struct.pack(b"<" + pk, v).hex()}
        except _struct.error:
            o = {"err": "struct.error"}
        ctx.tag("packv_" + ("ok" if "ok" in o else "err"))
        if o != m:
            ctx.mismatch("c20.struct_pack_chars", "struct.pack(%r, %d): python %s model %s" % (pk, v, o, m),
                         {"packv": [pk.hex(), v]})


def parse_stream(ctx, n_valid, n_bad, n_boot):
    """returns the boot cases made from the valid texts (judged with the other histories)"""
    rng = ctx.rng
    items = []
    for _ in range(n_valid):
        bootable = rng.random() < 0.7
        items.append({"text": gen_valid_text(rng, bootable).hex(), "kind": "valid_bootable" if bootable else "valid_any"})
    for _ in range(n_bad):
        kind, text = gen_malformed_text(rng)
        items.append({"text": text.hex(), "kind": "bad_" + kind})
    from harness import common
    items.append({"text": open(os.path.join(common.REPO, "rig/boot/sark.struct"), "rb").read().hex(), "kind": "sark"})
    boots, tables = [], []
    for j, (it, m, o) in enumerate(parse_eval(ctx, items)):
        if "ok" in m:
            tables.append(m["ok"])
            table = table_of_parse(m["ok"], bytes.fromhex(it["text"]))
            if table is not None and len(boots) < n_boot and (it["kind"] == "valid_bootable" or rng.random() < 0.3):
                boots.append(boot_case_of_text(rng, table, j))
                ctx.tag("parse_text_booted")
    # the round trip of theorem parse_print on the implementation: for a table the Lean check tableWFB accepts,
    # read_struct_file(printStructs table) must be the table (tables = what the texts above parsed to, some with
    # sizes / bases / offsets / defaults replaced by other integers incl. negative ones)
    for t in tables:
        if rng.random() < 0.3:
            for s_ in t:
                if rng.random() < 0.5:
                    s_[rng.choice([1, 2])] = rng.choice([-1, 0, -2 ** 31, 2 ** 64, 7])
                for f in s_[3]:
                    if rng.random() < 0.3:
                        f[rng.choice([2, 4])] = rng.choice([-1, -128, 2 ** 40, 0, 10, 16])
    pr = ctx.lean([{"suite": "c20parse", "op": "print", "structs": t} for t in tables])
    for t, r in zip(tables, pr):
        ctx.tag("print_wf" if r["wf"] else "print_not_wf")
        if not r["wf"]:
            continue
        o = parse_impl(bytes.fromhex(r["text"]))
        ctx.traces += 1
        if o != {"ok": t}:
            ctx.mismatch("c20.print_roundtrip", "read_struct_file(printStructs T) is not T: %s" % str(o)[:300],
                         {"parse": {"text": r["text"], "kind": "printed"}})
    return boots


def load_corpus():
    from harness import common
    import json
    d = os.path.join(common.VERIF, "corpus", "C20")
    out = []
    if os.path.isdir(d):
        for f in sorted(os.listdir(d)):
            if f.endswith(".json"):
                out.append(json.load(open(os.path.join(d, f)))["case"])
    return out


def run(ctx):
    prepare(ctx)
    rng = ctx.rng
    cases = load_corpus() + fixed_cases()
    n = ctx.scale(150, 2000)
    if ctx.extended:
        n *= 4
    if not ctx.quick:
        # images of every block count: exact multiples and one word either side
        for k in range(1, 33):
            for d in (-4, 0, 4):
                ln = 1024 * k + d
                if 512 <= ln < 32768:
                    cases.append(gen_history(rng, force_len=ln))
                    h = gen_history(rng, force_len=ln)          # the same block count with structured content
                    h["calls"][0]["image"] = structured(rng, ln)
                    cases.append(h)
    for _ in range(n):
        cases.append(gen_history(rng))
    m = 4 if ctx.extended else 1
    cases += parse_stream(ctx, ctx.scale(220, 3000) * m, ctx.scale(220, 3000) * m, ctx.scale(70, 1200) * m)
    pack_stream(ctx, ctx.scale(300, 5000))
    for _ in range(ctx.scale(30, 300) * (4 if ctx.extended else 1)):
        cases += gen_twins(rng)
    for _ in range(ctx.scale(40, 600) * (4 if ctx.extended else 1)):
        cases.append(gen_interleaved(rng))
    for which in ["fields", "options", "history"] + ([] if ctx.quick else ["fields", "options", "history"] * 2):
        cases.append(gen_scale(rng, which))
    for i in range(0, len(cases), 50):
        if _HANGS[0] >= 20:
            ctx.tag("stopped_after_20_calls_that_did_not_return")
            break
        chunk = cases[i:i + 50]
        report(ctx, chunk, evaluate(ctx, chunk))
    packet_stream(ctx, ctx.scale(300, 5000))


def replay(ctx, payload):
    prepare(ctx)
    case = payload["case"]
    if "packet" in case:
        packet_eval(ctx, [case["packet"]])
        return
    if "parse" in case:
        parse_eval(ctx, [case["parse"]])
        return
    if "packv" in case:
        return
    if "calls" not in case:
        return
    report(ctx, [case], evaluate(ctx, [case]), do_shrink=False)
THEOREMS += ["perl_packs_documented", "sark_parsed", "sark_table_embeds", "parsedSv_eq", "boot_meets_spec_parsed",
             "parse_print", "parse_print_decided", "sark_table_wf", "sark_print_roundtrip", "packValueFull_plain",
             "field_line_accepted", "field_line_raises", "line_syntax_error"]   # Props/C20Parse.lean
THEOREMS += ['gen_boot_packet', 'header_be', 'bp_loop']   # translator tie: generated function bodies = model (Props/C20Gen.lean)
