"""C20 - boot sends the complete image carrying this call's options only.

Correspondence of rig/machine_control/boot.py (+ struct_file.py, and
MachineController.boot) with the Lean model RigModel/Model/C20.lean over
*histories* of boots in one process, and the Lean specification `specOK`
evaluated on the implementation's own datagrams / returned structs.

Observation is by replacing the module attributes `socket` and `time` of
rig.machine_control.boot (no source change).  Every history starts from a
freshly (re)loaded boot module, i.e. from the state of a new process."""
import importlib
import os
import random
import shutil
import struct
import sys
import tempfile
import traceback

CLAIM = dict(
    text=("Machine-checked proof (Lean 4) over ALL images, struct tables, option sets, clocks and call histories: (1) the "
          "datagram sequence of boot() is start(n-1), n blocks numbered 0..n-1 of <= 1 KiB, end(1), sent to the host/port "
          "of this call; (2) undoing the per-word byte swap and concatenating gives the image with bytes 384..511 replaced "
          "by the first 128 bytes of the packed sv struct and nothing else changed; (3) Struct.pack writes every field "
          "little-endian at its offset and zero elsewhere, and the fields carry the file defaults overridden by this "
          "call's options and then the clock fields; (4) the returned struct carries the same values; (5) composed: every "
          "in-domain call satisfies the executable specification specOK, which is the oracle evaluated on the "
          "implementation's datagrams; (6) in the repaired (copy-before-update) model every call of every history is a "
          "function of its own arguments and meets specOK, and a kernel-evaluated witness shows that the code as written "
          "(in-place update of the default dict) leaks options into the next boot. Tied to rig/machine_control/boot.py, "
          "struct_file.py and MachineController.boot by exact event-trace correspondence (connect/send/sleep/close, "
          "returned structs, exceptions, caller dictionaries) over generated boot histories in which EVERY returned "
          "struct dictionary is kept and read again after every later boot, MachineController construction, "
          "read_struct_file of another struct file and caller edit of another result, and judged by the same Lean "
          "predicate (returnedOK with the options of the call that returned it); sark.struct and the boot "
          "constants are regenerated from the source on every run by an independent parser and the generated sv table "
          "is proved well formed."),
    design="3/C20",
    note=("Domain: 4 | len image, 512 <= len image < 32 KiB, non-overlapping integer fields inside the struct, options "
          "naming fields with values that fit. Outside the domain only the correspondence is checked. The sleeps are "
          "recorded but real time is not measured."),
    technique="Lean 4 theorems over a hand-written model + differential correspondence over histories + Lean spec as oracle")

THEOREMS = ["consts_documented", "sv_table_ok", "boot_sequence", "unswap_concat", "config_area",
            "struct_pack_spec", "returned_defaults", "boot_meets_spec", "state_unchanged",
            "history_independent", "history_meets_spec", "fresh_process_default", "leak_witness"]

RULE = ("histories of 1-6 boot() calls from freshly loaded struct_file/boot modules: hosts/ports vary, images are the "
        "bundled scamp.boot or random byte strings (every block count 1..32 in the thorough tier, lengths at block "
        "edges, plus out-of-domain short / unaligned / oversize images), struct file = bundled sark.struct or a "
        "synthetic table (well-formed, overlapping, overflowing, unpackable), options = none / board preset / random "
        "overrides of any field via keywords, via a fresh sv_overrides dict, via a caller dict reused across calls, "
        "or via both (incl. the same variable in both), edge and out-of-range values, 0 / False for variables whose "
        "file default is non-zero, non-integer values, unknown names; clock values incl. t1 != t2 and > 2^32; a share "
        "of calls goes through MachineController.boot. Between boots the caller constructs MachineControllers, "
        "parses other struct files and edits results it was given; every result returned by boot() is KEPT, must "
        "not share mutable objects with another result, and is re-read and re-judged after every later boot and "
        "every such step (the replay carries the whole history incl. the steps). A history is non-trivial when it "
        "is in the property's domain and either some call carries options that a later call does not ask for (a "
        "leak would be visible) or a result obtained with options is read again after a later boot / step; "
        "distinct = distinct canonical JSON")

RESERVED = {"hostname", "boot_port", "scamp_binary", "sark_struct", "boot_delay", "post_boot_delay",
            "sv_overrides", "width", "height", "only_if_needed", "check_booted"}
RANGE = {"B": (0, 255), "b": (-128, 127), "H": (0, 65535), "I": (0, 2 ** 32 - 1)}
PERL = {"B": "C", "b": "c", "H": "v", "I": "V"}
BOOT_DELAY, POST_DELAY = 0.25, 0.75

_cache = {}


def default_table():
    if "table" not in _cache:
        from harness.gen import c20 as g
        from harness import common
        st = g.parse_struct_file(common.REPO)
        sv = [s for s in st if s[0] == "sv"][0]
        _cache["table"] = {"size": sv[1], "fields": [list(f) for f in sv[3]]}
        _cache["structs"] = st
        _cache["image"] = open(os.path.join(common.REPO, "rig/boot/scamp.boot"), "rb").read()
    return _cache["table"]


# ---------------------------------------------------------------- generators
def image_bytes(spec):
    if spec["kind"] == "default":
        default_table()
        return _cache["image"]
    return random.Random(spec["seed"]).randbytes(spec["len"])


def gen_image(rng, force_len=None):
    if force_len is not None:
        return {"kind": "rand", "len": force_len, "seed": rng.randrange(2 ** 30)}
    r = rng.random()
    if r < 0.12:
        return {"kind": "default"}
    if r < 0.55:
        n = 4 * rng.randrange(128, 1100)
    elif r < 0.75:
        k = rng.randrange(1, 33)
        n = 1024 * k + rng.choice([-8, -4, 0, 0, 4, 8])
        n = max(512, min(n, 32764))
    elif r < 0.85:
        n = 4 * rng.randrange(128, 8191)
    elif r < 0.90:
        n = rng.choice([512, 516, 1020, 1024, 1028, 32764, 32760])
    elif r < 0.94:
        n = 4 * rng.randrange(0, 128)                  # no configuration area (out of domain)
    elif r < 0.97:
        n = rng.randrange(512, 5000) | 1               # not a word multiple (out of domain)
    else:
        n = rng.choice([32768, 32772, 32768 + 4 * rng.randrange(0, 300), 32766])   # too large
    return {"kind": "rand", "len": n, "seed": rng.randrange(2 ** 30)}


def gen_table(rng):
    """synthetic struct table: list fields [name, pypack, offset, printf, default, length]"""
    kind = rng.choice(["wf"] * 9 + ["overlap", "overlap", "overflow", "unpackable", "small", "noclock"])
    size = rng.choice([128, 132, 160, 256, 300])
    names = ["unix_time", "boot_sig", "root_chip", "hw_ver", "led0", "boot_delay"]
    packs = {"unix_time": "I", "boot_sig": "I", "root_chip": "B", "hw_ver": "B", "led0": "I", "boot_delay": "B"}
    if kind == "noclock":
        names.remove(rng.choice(["unix_time", "boot_sig", "root_chip"]))
    for i in range(rng.randrange(0, 12)):
        names.append("f%d" % i)
        packs["f%d" % i] = rng.choice("BbHI")
    rng.shuffle(names)
    fields, off = [], rng.choice([0, 0, 1, 4])
    for n in names:
        w = struct.calcsize("<" + packs[n])
        if off + w > size:
            break
        lo, hi = RANGE[packs[n]]
        d = rng.choice([0, 0, lo, hi, rng.randint(lo, hi)])
        fields.append([n, packs[n], off, rng.choice(["%d", "%08x", "%02x"]), d, 1])
        off += w + rng.choice([0, 0, 0, 1, 2, 5, 30])
    if kind == "overlap" and len(fields) >= 2:
        a, b = rng.sample(range(len(fields)), 2)
        fields[a][2] = fields[b][2] + rng.choice([0, 0, 1])
    elif kind == "overflow" and fields:
        fields[rng.randrange(len(fields))][2] = size - rng.choice([0, 1, 2]) + rng.choice([0, 0, 10])
    elif kind == "unpackable":
        fields.insert(rng.randrange(len(fields) + 1), ["txt", "16s", min(off, size), "%s", 0, 1])
    elif kind == "small":
        size = rng.choice([0, 64, 120, 127])
    if rng.random() < 0.3:
        rng.shuffle(fields)
    if rng.random() < 0.2 and fields:
        fields[rng.randrange(len(fields))][5] = rng.randrange(2, 20)     # an array field (length is not packed)
    return {"size": size, "fields": fields}


def struct_text(table, rng):
    out = ["# synthetic struct file", "name = sv", "size = %d" % table["size"],
           "base = 0x%x" % 0xf5007f00, ""]
    for n, p, off, pf, d, ln in table["fields"]:
        perl = PERL[p] if p in PERL else "A" + p[:-1]
        nm = n if ln == 1 else "%s[%d]" % (n, ln)
        ds = ("0x%x" % d) if (d >= 0 and rng.random() < 0.4) else str(d)
        out.append("%-20s %s  0x%02x  %s  %s   # c" % (nm, perl, off, pf, ds))
    out += ["", "name = other", "size = 8", "base = 0", "x V 0 %d 7", ""]
    return "\n".join(out).encode()


NONZERO_DEFAULT = None


def lean_value(v):
    """option values as the model sees them: bools are ints; a value struct.pack cannot take as an integer
    (None, "", ...) fits no field, exactly like an integer that is out of range for every pack code"""
    if isinstance(v, bool):
        return int(v)
    if isinstance(v, int):
        return v
    return 2 ** 70


def lean_dict(d):
    return [[k, lean_value(v)] for k, v in d]


def gen_value(rng, pack):
    lo, hi = RANGE.get(pack, (0, 255))
    r = rng.random()
    if r < 0.025:
        return rng.choice([hi + 1, lo - 1, hi + rng.randrange(1, 1000), -1 if lo == 0 else lo - 5, 2 ** 32, 2 ** 40])
    if r < 0.3:
        return rng.choice([lo, hi, 0, 1])
    return rng.randint(lo, hi)


def gen_opts(rng, table, allow_reserved):
    fields = [f for f in table["fields"] if allow_reserved or f[0] not in RESERVED]
    fields = [f for f in fields if f[0] not in ("unix_time", "boot_sig", "root_chip") or rng.random() < 0.15]
    d = []
    for f in rng.sample(fields, min(len(fields), rng.choice([0, 1, 1, 2, 3, 5]))):
        d.append([f[0], gen_value(rng, f[1])])
    # falsy values for variables whose file default is not zero (disable the watchdog, LEDs off, ...)
    nz = [f for f in fields if f[4] != 0 and f[0] not in [k for k, _ in d]]
    if nz and rng.random() < 0.35:
        for f in rng.sample(nz, min(len(nz), rng.choice([1, 1, 2]))):
            d.insert(rng.randrange(len(d) + 1), [f[0], rng.choice([0, 0, 0, False])])
    if d and rng.random() < 0.02:
        d[rng.randrange(len(d))][1] = rng.choice([None, ""])      # not an integer: struct.error
    if rng.random() < 0.04:
        d.insert(rng.randrange(len(d) + 1), [rng.choice(["bogus", "hw_version", "led2"]), rng.choice([1, 0])])
    return d


def gen_history(rng, force_len=None):
    default_table()
    presets = _cache["presets"]
    n_store = rng.choice([0, 0, 1, 1, 2])
    shared_table = None if rng.random() < 0.7 else gen_table(rng)
    store, calls = [], []
    for _ in range(n_store):
        store.append(gen_opts(rng, shared_table or default_table(), True))
    n_calls = rng.choice([1, 2, 2, 3, 3, 4, 5, 6])
    for i in range(n_calls):
        table = shared_table if rng.random() < 0.85 else (None if rng.random() < 0.5 else gen_table(rng))
        tab = table or default_table()
        c = {"host": rng.choice(["board%d" % rng.randrange(4), "127.0.0.%d" % rng.randrange(1, 9)]),
             "port": rng.choice([None, None, rng.randrange(1024, 65536)]),
             "image": gen_image(rng, force_len if i == 0 else None), "table": table,
             "sv": None, "kwargs": [], "via": "function"}
        r = rng.random()
        if r < 0.25:
            pass                                              # no options at all
        elif r < 0.40:
            c["kwargs"] = [list(p) for p in presets[rng.randrange(len(presets))][1]]
        elif r < 0.60:
            c["kwargs"] = gen_opts(rng, tab, False)
        elif r < 0.75:
            store.append(gen_opts(rng, tab, True))            # a fresh sv_overrides dict
            c["sv"] = len(store) - 1
            if rng.random() < 0.5:
                c["kwargs"] = gen_opts(rng, tab, False)
                both = [p for p in store[-1] if p[0] not in RESERVED and p[0] not in [k for k, _ in c["kwargs"]]]
                if both and rng.random() < 0.6:               # the same variable in both: the keyword wins
                    k = rng.choice(both)
                    pk = [f[1] for f in tab["fields"] if f[0] == k[0]]
                    c["kwargs"].append([k[0], gen_value(rng, pk[0]) if pk else 0])
        elif n_store:
            c["sv"] = rng.randrange(n_store)                  # a caller dict reused across calls
            if rng.random() < 0.6:
                c["kwargs"] = gen_opts(rng, tab, False)
        t = rng.choice([0, 1, 1443571200, 1700000000 + rng.randrange(10 ** 8), 2 ** 32 - 1,
                        rng.randrange(2 ** 32)] + ([2 ** 32, 2 ** 32 + 5] if rng.random() < 0.06 else []))
        c["t1"] = t
        c["t2"] = t + rng.choice([0, 0, 1, 1, 2])
        if c["host"].startswith("127.") and rng.random() < 0.5:
            c["via"] = "controller"
        c["after"] = gen_steps(rng, i, n_calls, tab)
        calls.append(c)
    return {"store": store, "calls": calls}


def gen_steps(rng, i, n_calls, tab):
    """what the caller does between this boot and the next: every kept result is re-checked after each step"""
    steps = []
    if rng.random() < 0.25:
        steps.append({"do": "controller", "host": "127.0.0.%d" % rng.randrange(1, 9)})
    if rng.random() < 0.2:
        steps.append({"do": "read_struct", "table": None if rng.random() < 0.5 else gen_table(rng)})
    names = [f[0] for f in tab["fields"]] or ["hw_ver"]
    if rng.random() < 0.15:
        steps.append({"do": "mutate", "target": rng.randrange(i + 1),
                      "how": rng.choice(["defaults", "attrs", "dict", "fields", "all"]),
                      "field": rng.choice(names), "value": rng.randrange(256)})
    if i == n_calls - 1 and n_calls >= 2 and rng.random() < 0.85:
        steps.append({"do": "mutate", "target": i, "how": "all", "field": rng.choice(names),
                      "value": rng.randrange(1, 256)})
    rng.shuffle(steps)
    return steps


# ------------------------------------------------------------ implementation
class FakeSock(object):
    def __init__(self, log, udp):
        self.log, self.udp = log, udp

    def connect(self, addr):
        self.log.append(["connect", str(addr[0]), int(addr[1])] + ([] if self.udp else ["not-udp"]))

    def send(self, data):
        self.log.append(["send", bytes(data).hex()])
        return len(data)

    def sendall(self, data):
        self.send(data)

    def sendto(self, data, addr):
        self.log.append(["sendto", bytes(data).hex(), str(addr[0]), int(addr[1])])
        return len(data)

    def close(self):
        self.log.append(["close"])

    def settimeout(self, t):
        pass

    def setsockopt(self, *a):
        pass


class FakeSocketModule(object):
    def __init__(self, log):
        import socket as real
        self.log, self.real = log, real
        self.AF_INET, self.SOCK_DGRAM = real.AF_INET, real.SOCK_DGRAM
        self.error, self.timeout = real.error, real.timeout

    def socket(self, family=None, kind=None, *a):
        return FakeSock(self.log, family == self.real.AF_INET and kind == self.real.SOCK_DGRAM)

    def __getattr__(self, name):
        return getattr(self.real, name)


class FakeTime(object):
    def __init__(self, log):
        self.log, self.script = log, []

    def time(self):
        v = self.script.pop(0) if len(self.script) > 1 else self.script[0]
        return float(v) + 0.5

    def sleep(self, x):
        self.log.append(["sleep", "boot" if x == BOOT_DELAY else "post" if x == POST_DELAY else repr(x)])


def canon_struct(s):
    return [[k.decode("latin-1"), f.pack_chars.decode("latin-1"), f.offset, f.printf.decode("latin-1"),
             lean_value(f.default), f.length] for k, f in s.fields.items()]


def snapshot(structs):
    """canonical deep copy of a {name: Struct} dictionary (nothing shared with the live objects)"""
    try:
        sv = structs.get(b"sv")
        return {"sv": canon_struct(sv) if sv is not None else None,
                "svmeta": [sv.size, sv.base] if sv is not None else None,
                "others": sorted([n.decode("latin-1"), t.size, t.base, canon_struct(t)]
                                 for n, t in structs.items() if n != b"sv")}
    except Exception as e:      # noqa
        return {"broken": repr(e)[:200]}


def shared_objects(a, b):
    """mutable objects two results have in common"""
    out = []
    if a is b:
        out.append("dict")
    sa = {id(x): n for n, x in a.items()}
    for n, x in b.items():
        if id(x) in sa:
            out.append("Struct %r" % (n,))
    fa = {id(x.fields): n for n, x in a.items() if hasattr(x, "fields")}
    for n, x in b.items():
        if hasattr(x, "fields") and id(x.fields) in fa:
            out.append("fields of %r" % (n,))
    return out


def caller_mutates(obj, step):
    """the caller edits a result it was given (its own copy, as far as the caller can know)"""
    from rig.machine_control.struct_file import Struct, StructField
    how = step["how"]
    sv = obj.get(b"sv")
    if how in ("defaults", "all") and sv is not None:
        try:
            sv.update_default_values(**{str(step["field"]): step["value"]})
        except KeyError:
            pass
    if how in ("fields", "all") and sv is not None:
        sv.fields[b"zz_caller"] = StructField(b"B", 0, b"%d", step["value"], 1)
        for k in list(sv.fields)[:1]:
            sv.fields.pop(k)
    if how in ("attrs", "all") and sv is not None:
        sv.size += 4
        sv.base ^= 0x10
    if how in ("attrs", "fields", "all"):
        for k in [k for k in list(obj) if k != b"sv"][:1]:
            obj[k].size += 4
            obj[k].fields[b"zz_caller"] = StructField(b"B", 0, b"%d", step["value"], 1)
    if how in ("dict", "all"):
        for k in [k for k in list(obj) if k != b"sv"][:1]:
            del obj[k]
        obj[b"zz_caller"] = Struct(b"zz_caller", 4, 0)
        if how == "all":
            obj[b"sv"] = Struct(b"sv", 1, 2)


def classify(e):
    tb = traceback.extract_tb(e.__traceback__)
    last = tb[-1]
    if isinstance(e, KeyError):
        k = e.args[0] if e.args else ""
        return {"err": "KeyError", "key": k.decode("latin-1") if isinstance(k, bytes) else str(k)}
    if isinstance(e, struct.error):
        return {"err": "struct.error"}
    if isinstance(e, AssertionError):
        line = last.line or ""
        if last.name == "boot_packet":
            return {"err": "AssertionError:word"}
        if "struct_packed" in line:
            return {"err": "AssertionError:packed"}
        if "DTCM" in line:
            return {"err": "AssertionError:dtcm"}
        return {"err": "AssertionError:" + line[:60]}
    return {"err": "Other:" + type(e).__name__, "detail": repr(e)[:200]}


def run_impl(case):
    """Run one history on the real code.  Returns (outcomes, final caller dicts, kept) where kept =
    {"late": [...], "shared": [...], "aux": [...], "rechecks": n}: every returned struct dictionary is
    KEPT and compared with its own first snapshot after every later boot and every caller step."""
    import rig.machine_control.struct_file as sf_mod
    import rig.machine_control.boot as boot_mod
    importlib.reload(sf_mod)            # fresh function objects = fresh process state
    importlib.reload(boot_mod)
    log = []
    ftime = FakeTime(log)
    real_socket, real_time = boot_mod.socket, boot_mod.time
    boot_mod.socket, boot_mod.time = FakeSocketModule(log), ftime
    tmp = tempfile.mkdtemp(prefix="c20-")
    store = [dict((k, v) for k, v in d) for d in case["store"]]
    outcomes = []
    mcs = {}
    results = []        # kept results of boot(): {"call", "obj", "first", "released"}
    aux = []            # other struct dictionaries alive in the process: {"what", "obj", "first", "want"}
    kept = {"late": [], "shared": [], "aux": [], "rechecks": 0}
    alive = []

    def recheck(label):
        for r in results:
            if r["released"]:
                continue
            kept["rechecks"] += 1
            now = snapshot(r["obj"])
            if now != r["first"] and not any(l["call"] == r["call"] and l["snap"] == now for l in kept["late"]):
                kept["late"].append({"call": r["call"], "after": label, "snap": now})
        for x in aux:
            kept["rechecks"] += 1
            now = snapshot(x["obj"])
            if now != x["first"] and not x.get("reported"):
                x["reported"] = True
                kept["aux"].append("%s changed after %s" % (x["what"], label))

    def keep_aux(what, obj, table):
        first = snapshot(obj)
        aux.append({"what": what, "obj": obj, "first": first})
        want = expected_structs(table)
        if first != want:
            kept["aux"].append("%s does not equal the independent parse of its struct file" % what)

    def new_controller(host, port):
        from rig.machine_control.machine_controller import MachineController
        mc = MachineController(host) if port is None else MachineController(host, boot_port=port)
        alive.append(mc)
        keep_aux("structs of MachineController(%r)" % host, mc.structs, None)
        return mc
    try:
        for i, c in enumerate(case["calls"]):
            del log[:]
            ftime.script = [c["t1"], c["t2"]]
            kw = dict(boot_delay=BOOT_DELAY, post_boot_delay=POST_DELAY)
            if c["image"]["kind"] != "default":
                p = os.path.join(tmp, "img%d.bin" % i)
                open(p, "wb").write(image_bytes(c["image"]))
                kw["scamp_binary"] = p
            if c["table"] is not None:
                p = os.path.join(tmp, "s%d.struct" % i)
                open(p, "wb").write(struct_text(c["table"], random.Random(i)))
                kw["sark_struct"] = p
            if c["sv"] is not None:
                kw["sv_overrides"] = store[c["sv"]]
            for k, v in c["kwargs"]:
                kw[k] = v
            try:
                if c["via"] == "controller":
                    key = (c["host"], c["port"])
                    if key not in mcs:
                        mcs[key] = new_controller(c["host"], c["port"])
                        recheck("constructing the MachineController used by call %d" % i)
                    mc = mcs[key]
                    sent = mc.boot(only_if_needed=False, check_booted=False, **kw)
                    structs = mc.structs
                    extra = [] if sent is True else ["controller-returned-%r" % (sent,)]
                else:
                    if c["port"] is not None:
                        kw["boot_port"] = c["port"]
                    structs = boot_mod.boot(c["host"], **kw)
                    extra = []
                first = snapshot(structs)
                if "broken" in first or first["sv"] is None:
                    raise TypeError("boot() returned something that is not {name: Struct} with an sv entry: %r" % (first,))
                res = {"ok": first["sv"]}
                others, svmeta = first["others"], first["svmeta"]
                for r in results:
                    if not r["released"]:
                        sh_ = shared_objects(r["obj"], structs)
                        if sh_:
                            kept["shared"].append("results of call %d and call %d share %s" % (r["call"], i, ", ".join(sh_)))
                results.append({"call": i, "obj": structs, "first": first, "released": False})
            except Exception as e:          # noqa
                res, others, svmeta, extra = classify(e), None, None, []
            outcomes.append({"events": [list(x) for x in log] + extra, "result": res,
                             "others": others, "svmeta": svmeta})
            recheck("call %d" % i)
            for n_step, st in enumerate(c.get("after", [])):
                label = "step %d after call %d (%s)" % (n_step, i, st["do"])
                if st["do"] == "controller":
                    new_controller(st["host"], None)
                elif st["do"] == "read_struct":
                    text = (struct_text(st["table"], random.Random(n_step)) if st["table"] is not None else
                            open(os.path.join(os.path.dirname(sf_mod.__file__), "..", "boot", "sark.struct"), "rb").read())
                    keep_aux("result of read_struct_file in " + label, sf_mod.read_struct_file(text), st["table"])
                elif st["do"] == "mutate":
                    for r in results:
                        if r["call"] == st["target"] and not r["released"]:
                            r["released"] = True
                            caller_mutates(r["obj"], st)
                recheck(label)
    finally:
        boot_mod.socket, boot_mod.time = real_socket, real_time
        shutil.rmtree(tmp, ignore_errors=True)
        for mc in alive:
            try:
                mc.connections[None].sock.close()
            except Exception:
                pass
    kept["results"] = len(results)
    return outcomes, [[[k, lean_value(v)] for k, v in d.items()] for d in store], kept


def expected_structs(table):
    """snapshot a parse of the bundled sark.struct (table None) or of struct_text(table) must give"""
    default_table()
    if table is None:
        sv = [t for t in _cache["structs"] if t[0] == "sv"][0]
        return {"sv": [list(f) for f in sv[3]], "svmeta": [sv[1], sv[2]],
                "others": sorted([t[0], t[1], t[2], [list(f) for f in t[3]]] for t in _cache["structs"] if t[0] != "sv")}
    return {"sv": [list(f) for f in table["fields"]], "svmeta": [table["size"], 0xf5007f00],
            "others": [["other", 8, 0, [["x", "I", 0, "%d", 7, 1]]]]}


# ------------------------------------------------------------------ checking
def own_opts(case, c):
    """the options call `c` asked for: the caller's dictionary as the caller built it, then kwargs"""
    d = {}
    if c["sv"] is not None:
        for k, v in case["store"][c["sv"]]:
            d[k] = v
    for k, v in c["kwargs"]:
        d[k] = v
    return [[k, lean_value(v)] for k, v in d.items()]


def lean_call(case, c, obs=None):
    default_table()
    j = {"host": c["host"], "port": c["port"] if c["port"] is not None else _cache["BOOT_PORT"],
         "image": image_bytes(c["image"]).hex(), "table": c["table"], "sv": c["sv"],
         "kwargs": lean_dict(c["kwargs"]), "t1": c["t1"], "t2": c["t2"], "opts": own_opts(case, c)}
    if obs is not None and "ok" in obs["result"]:
        j["datagrams"] = [e[1] for e in obs["events"] if e[0] in ("send", "sendto")]
        j["returned"] = obs["result"]["ok"]
    return j


def in_domain_static(c):
    n = len(image_bytes(c["image"]))
    return n % 4 == 0 and 512 <= n < 32768


def nontrivial(case):
    """in the domain, and some call carries an option that a later call does not ask for (a leak would be
    visible) or a result obtained with options is read again after a later boot / caller step"""
    if not all(in_domain_static(c) for c in case["calls"]):
        return False
    keys = [set(k for k, _ in own_opts(case, c)) for c in case["calls"]]
    n = len(keys)
    if any(keys[i] - keys[j] for i in range(n) for j in range(i + 1, n)):
        return True
    return any(keys[i] and (i + 1 < n or any(st["do"] != "mutate" or st["target"] != i
                                              for st in case["calls"][i].get("after", [])))
               for i in range(n))


def evaluate(ctx, cases):
    """Run histories on implementation and model; return one report per history:
    {"mismatches": [(suite, detail)], "violations": [(key, what)], "tags": [...]}"""
    default_table()
    impl = [run_impl(case) for case in cases]
    reqs = []
    for case, (outs, _, _) in zip(cases, impl):
        reqs.append({"suite": "c20", "op": "history", "leaky": False, "store": [lean_dict(d) for d in case["store"]],
                     "calls": [lean_call(case, c, o) for c, o in zip(case["calls"], outs)]})
    replies = []
    for i in range(0, len(reqs), 25):
        replies += ctx.lean(reqs[i:i + 25])
    reports = []
    leaky_reqs = []
    late_reqs = []
    for case, (outs, store_after, kept), req, rep in zip(cases, impl, reqs, replies):
        r = {"mismatches": [], "violations": [], "tags": [], "leakcheck": None}
        reports.append(r)
        if "proto_error" in rep:
            r["mismatches"].append(("c20.protocol", rep["proto_error"]))
            continue
        differs = False
        for k, (c, o, m, sp) in enumerate(zip(case["calls"], outs, rep["outcomes"], rep["specs"])):
            ctx.traces += 1
            res = o["result"]
            kind = "ok" if "ok" in res else res["err"].split(":")[0]
            r["tags"] += ["result_" + kind, "via_" + c["via"], "image_" + c["image"]["kind"],
                          "table_" + ("default" if c["table"] is None else "synthetic"),
                          "opts_" + ("none" if not c["kwargs"] and c["sv"] is None else
                                     "kwargs" if c["sv"] is None else "dict")]
            if "ok" in res:
                r["tags"].append("blocks_%02d" % sum(1 for e in o["events"] if e[0] == "send" and e[1][8:12] == "0003"))
            mres = dict(res)
            mres.pop("detail", None)
            if o["events"] != m["events"] or mres != m["result"]:
                differs = True
                ev_i = next((i for i, (a, b) in enumerate(zip(o["events"], m["events"])) if a != b),
                            min(len(o["events"]), len(m["events"])))
                r["mismatches"].append(("c20.boot_call", "call %d: impl result %s, %d events; model result %s, %d events; first differing event %d" % (
                    k, str(res)[:150], len(o["events"]), str(m["result"])[:150], len(m["events"]), ev_i)))
            if "ok" in res:
                want = expected_structs(c["table"])
                if o["others"] != want["others"] or o["svmeta"] != want["svmeta"]:
                    r["mismatches"].append(("c20.struct_file", "call %d: returned structs (other than sv's defaults) differ from the independent parse of the struct file of this call" % k))
            # ---- property oracle (Lean spec on the implementation's output)
            if sp and sp.get("domain") and sp.get("opts_valid"):
                r["tags"].append("oracle_applied")
                if "ok" not in res:
                    r["violations"].append(("boot-raises-on-valid-call",
                                            "call %d of the history is inside the property's domain with valid options but boot() raised %s" % (k, res)))
                elif not sp["all"]:
                    bad = [x for x in ("shape", "image", "config", "returned") if not sp[x]]
                    key = ("datagram-sequence" if "shape" in bad else
                           "image-bytes" if "image" in bad else
                           "config-area" if "config" in bad else "returned-struct")
                    r["violations"].append((key, "call %d: Lean specification fails on the implementation's output, clauses %s (options asked for: %s)" % (
                        k, bad, own_opts(case, c))))
            elif sp and "ok" in res:
                r["tags"].append("oracle_out_of_domain")
        # ---- kept results: every returned dictionary re-read after every later boot / caller step
        r["tags"] += ["kept_results"] * kept["results"] + ["kept_rechecks"] * kept["rechecks"]
        for c in case["calls"]:
            r["tags"] += ["step_" + st["do"] for st in c.get("after", [])]
        for what in kept["shared"]:
            r["mismatches"].append(("c20.shared_objects", what))
        for what in kept["aux"]:
            r["mismatches"].append(("c20.other_structs", what))
        for l in kept["late"]:
            k = l["call"]
            c, sp, first = case["calls"][k], rep["specs"][k], outs[k]
            r["mismatches"].append(("c20.kept_result", "the result returned by call %d reads differently after %s" % (k, l["after"])))
            applicable = bool(sp and sp.get("domain") and sp.get("opts_valid") and sp.get("all"))
            j = lean_call(case, c)
            j.update(suite="c20", op="retcheck", image="", returned=(l["snap"].get("sv") or []))
            late_reqs.append((r, k, l, first, applicable, j))
        if store_after != rep["state"]["store"]:
            differs = True
            r["mismatches"].append(("c20.caller_dict", "caller dictionaries after the history: impl %s model %s" % (
                str(store_after)[:200], str(rep["state"]["store"])[:200])))
        if differs:
            r["leakcheck"] = len(leaky_reqs)
            lr = dict(req)
            lr["leaky"] = True
            leaky_reqs.append((lr, outs, store_after))
    if late_reqs:
        for (r, k, l, first, applicable, j), ans in zip(late_reqs, ctx.lean([x[5] for x in late_reqs])):
            if applicable and ans.get("returned") is False:
                now, was = l["snap"].get("sv"), first["result"]["ok"]
                byname = {f[0]: f for f in (now or [])}
                diff = "the sv entry is gone" if now is None else next(
                    (("sv.%s is no longer described" % b[0]) if b[0] not in byname else
                     ("sv.%s is now described as %r (pack %s at offset %d) but %r (pack %s at offset %d) was sent" % (
                         b[0], byname[b[0]][4], byname[b[0]][1], byname[b[0]][2], b[4], b[1], b[2]))
                     for b in was if byname.get(b[0]) != b), "fields were added or reordered")
                r["violations"].append(("kept-result-changed",
                                        "the struct definitions returned by call %d were correct right after that boot but no longer describe what "
                                        "was sent to that board after %s: %s (Lean returnedOK fails on the kept result; options of call %d: %s)" % (
                                            k, l["after"], diff, k, j["opts"])))
    if leaky_reqs:
        lreps = ctx.lean([x[0] for x in leaky_reqs])
        for r in reports:
            if r["leakcheck"] is None:
                continue
            lr, outs, store_after = leaky_reqs[r["leakcheck"]]   # noqa
            rep = lreps[r["leakcheck"]]
            same = "outcomes" in rep and store_after == rep["state"]["store"] and all(
                o["events"] == m["events"] and {k: v for k, v in o["result"].items() if k != "detail"} == m["result"]
                for o, m in zip(outs, rep["outcomes"]))
            r["tags"].append("matches_leaky_model" if same else "matches_neither_model")
            if same:
                # the difference is exactly the in-place update of the dictionary boot() was handed
                new = []
                for key, what in r["violations"]:
                    if key in ("config-area", "returned-struct", "boot-raises-on-valid-call"):
                        key = "options-leak"
                        what += " -- the whole history equals the model in which sv_overrides is updated in place"
                    new.append((key, what))
                r["violations"] = new
    return reports


def shrink(ctx, case, key):
    """greedy: drop calls, shorten images, drop options while the same finding key stays"""
    def fails(cand):
        try:
            rep = evaluate(_Quiet(ctx), [cand])[0]
        except Exception:
            return False
        return any(k == key for k, _ in rep["violations"])
    budget = [30]

    def attempt(cand):
        if budget[0] <= 0:
            return False
        budget[0] -= 1
        return fails(cand)
    cur = case
    changed = True
    while changed and budget[0] > 0:
        changed = False
        for i in range(len(cur["calls"])):
            cand = drop_call(cur, i)
            if cand["calls"] and attempt(cand):
                cur, changed = cand, True
                break
    for i in range(len(cur["calls"])):
        for j in range(len(cur["calls"][i].get("after", [])) - 1, -1, -1):
            cand = {"store": cur["store"], "calls": [dict(x) for x in cur["calls"]]}
            cand["calls"][i]["after"] = cur["calls"][i]["after"][:j] + cur["calls"][i]["after"][j + 1:]
            if attempt(cand):
                cur = cand
    for i, c in enumerate(cur["calls"]):
        if c["image"].get("len", 99999) > 512:
            cand = {"store": cur["store"], "calls": [dict(x) for x in cur["calls"]]}
            cand["calls"][i]["image"] = {"kind": "rand", "len": 512, "seed": 1}
            if attempt(cand):
                cur = cand
    for i, c in enumerate(cur["calls"]):
        for j in range(len(c["kwargs"]) - 1, -1, -1):
            cand = {"store": cur["store"], "calls": [dict(x) for x in cur["calls"]]}
            cand["calls"][i]["kwargs"] = c["kwargs"][:j] + c["kwargs"][j + 1:]
            if len(cur["calls"][i]["kwargs"]) > 1 and attempt(cand):
                cur = cand
                c = cur["calls"][i]
    return cur


def drop_call(case, i):
    """the history without call i (and without its steps); caller edits keep pointing at the same results"""
    calls = []
    for k, c in enumerate(case["calls"]):
        if k == i:
            continue
        c = dict(c)
        steps = []
        for st in c.get("after", []):
            if st["do"] == "mutate":
                if st["target"] == i:
                    continue
                if st["target"] > i:
                    st = dict(st, target=st["target"] - 1)
            steps.append(st)
        c["after"] = steps
        calls.append(c)
    return {"store": case["store"], "calls": calls}


class _Quiet(object):
    """ctx stand-in for shrinking: same driver, nothing counted"""
    def __init__(self, ctx):
        self._ctx = ctx
        self.traces = 0

    def lean(self, reqs):
        return self._ctx.driver.run(reqs)


def report(ctx, cases, reports, do_shrink=True):
    shrunk = set()
    for case, r in zip(cases, reports):
        for t in r["tags"]:
            ctx.tag(t)
        for suite, detail in r["mismatches"]:
            ctx.mismatch(suite, detail, case)
        for key, what in r["violations"]:
            c = case
            if do_shrink and key not in shrunk:
                shrunk.add(key)
                c = shrink(ctx, case, key)
                if c is not case:
                    rep = evaluate(_Quiet(ctx), [c])[0]
                    what = next((w for k, w in rep["violations"] if k == key), what)
            ctx.violation(key, what, c)
        ctx.case(case, nontrivial(case))


def prepare(ctx):
    ctx.extra["rule"] = RULE
    ctx.assumptions += [
        "struct.pack, bytearray slice assignment, dict ordering and keyword passing behave as documented by CPython",
        "the oracle is applied to calls in the domain: 4 | len(image), 512 <= len(image) < 32 KiB, well-formed struct table, options naming fields with fitting values; elsewhere only model = code is checked",
        "each history starts from freshly reloaded rig.machine_control.struct_file and .boot modules (state of a new process)",
        "a kept result is judged by the Lean predicate returnedOK with the options of the call that returned it; the caller edits only results it will not consult again",
        "UDP delivery and real time are outside the model: the datagrams handed to the socket and the sleeps requested are what is observed"]
    default_table()
    c = ctx.lean([{"suite": "c20", "op": "consts"}, {"suite": "c20", "op": "structs"}])
    _cache["BOOT_PORT"] = c[0]["BOOT_PORT"]
    _cache["presets"] = c[0]["spin"]
    # translator cross-check: Gen table (independent parse) == rig's own read_struct_file of the same file
    from rig.machine_control import struct_file, boot as boot_mod, consts
    from harness import common
    st = struct_file.read_struct_file(open(os.path.join(common.REPO, "rig/boot/sark.struct"), "rb").read())
    theirs = [[n.decode(), s.size, s.base, canon_struct(s)] for n, s in st.items()]
    if theirs != c[1]:
        ctx.mismatch("c20.translator", "independent parse of sark.struct differs from read_struct_file", {"struct": "sark.struct"})
    live = [[int(k[4]), [[a, b] for a, b in getattr(boot_mod, k).items()]] for k in sorted(dir(boot_mod))
            if k.startswith("spin") and k.endswith("_boot_options")]
    if live != c[0]["spin"] or consts.BOOT_PORT != c[0]["BOOT_PORT"] or boot_mod.DTCM_SIZE != c[0]["DTCM_SIZE"]:
        ctx.mismatch("c20.translator", "constants read by AST differ from the imported module", {"consts": live})
    ctx.tag("translator_crosscheck")


def fixed_cases():
    """the history of DESIGN 3/C20 and a caller-dict variant, always run first"""
    img = {"kind": "rand", "len": 2048, "seed": 7}
    base = {"port": None, "image": img, "table": None, "sv": None, "kwargs": [], "t1": 1443571200,
            "t2": 1443571201, "via": "function"}
    a = dict(base, host="a", kwargs=[["hw_ver", 3], ["led0", 0x502]])
    b = dict(base, host="b")
    c = dict(base, host="a", sv=0, kwargs=[["hw_ver", 5]])
    d = dict(base, host="b", sv=0)
    # kept results: boot a with options, keep what it returned, then boot b / build a controller / parse another
    # struct file / edit b's result - a's result must still describe what was sent to a
    small = {"size": 128, "fields": [["hw_ver", "B", 0, "%d", 7, 1], ["unix_time", "I", 4, "%08x", 0, 1],
                                     ["boot_sig", "I", 8, "%08x", 0, 1], ["root_chip", "B", 12, "%d", 0, 1],
                                     ["led0", "I", 16, "%08x", 5, 1]]}
    e = dict(base, host="a", kwargs=[["hw_ver", 3], ["led0", 0x502], ["cpu_clk", 150]],
             after=[{"do": "controller", "host": "127.0.0.1"}, {"do": "read_struct", "table": small}])
    f = dict(base, host="b", after=[{"do": "mutate", "target": 1, "how": "all", "field": "hw_ver", "value": 9}])
    g = dict(base, host="127.0.0.2", via="controller", kwargs=[["hw_ver", 5]])
    h = dict(base, host="c", table=small, kwargs=[["led0", 0]],
             after=[{"do": "mutate", "target": 2, "how": "defaults", "field": "led0", "value": 77}])
    # falsy options for variables whose default is not zero, as keyword, via sv_overrides and via both
    z1 = dict(base, host="a", kwargs=[["soft_wdog", 0], ["led0", 0], ["cpu_clk", 0]])
    z2 = dict(base, host="b", sv=0)
    z3 = dict(base, host="c", sv=1, kwargs=[["link_en", 0], ["num_buf", False]])
    return [{"store": [], "calls": [a, b]}, {"store": [[["led1", 9]]], "calls": [c, d]},
            {"store": [], "calls": [dict(base, host="a", image={"kind": "default"}, via="function")]},
            {"store": [], "calls": [e, f]}, {"store": [], "calls": [g, e, h, f]},
            {"store": [[["soft_wdog", 0], ["boot_delay", 0], ["led0", False]], [["link_en", 63], ["iobuf_size", 0]]],
             "calls": [z1, z2, z3]}]


def load_corpus():
    from harness import common
    import json
    d = os.path.join(common.VERIF, "corpus", "C20")
    out = []
    if os.path.isdir(d):
        for f in sorted(os.listdir(d)):
            if f.endswith(".json"):
                out.append(json.load(open(os.path.join(d, f)))["case"])
    return out


def run(ctx):
    prepare(ctx)
    rng = ctx.rng
    cases = load_corpus() + fixed_cases()
    n = ctx.scale(150, 2000)
    if ctx.extended:
        n *= 4
    if not ctx.quick:
        # images of every block count: exact multiples and one word either side
        for k in range(1, 33):
            for d in (-4, 0, 4):
                ln = 1024 * k + d
                if 512 <= ln < 32768:
                    cases.append(gen_history(rng, force_len=ln))
    for _ in range(n):
        cases.append(gen_history(rng))
    for i in range(0, len(cases), 50):
        chunk = cases[i:i + 50]
        report(ctx, chunk, evaluate(ctx, chunk))


def replay(ctx, payload):
    prepare(ctx)
    case = payload["case"]
    if "calls" not in case:
        return
    report(ctx, [case], evaluate(ctx, [case]), do_shrink=False)
