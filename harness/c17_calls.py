"""Repertoire of library calls for C17, shared by the in-process history runner
and the fresh-interpreter probe (`python c17_calls.py '<json spec>'`).

A call spec is {"fn": name, "seed": int}; everything else is derived from the
seed, so the same spec means the same arguments in every process.  Vertices
are ints, so no result depends on hash randomisation or object addresses.
"""
import json
import random
import sys
import warnings


def snap(o, depth=0):
    """deep structural snapshot of an argument (plain data only)"""
    if depth > 12:
        return "..."
    if o is None or isinstance(o, (bool, int, float, str, bytes)):
        return o if not isinstance(o, bytes) else o.hex()
    if isinstance(o, slice):
        return ["slice", o.start, o.stop, o.step]
    if isinstance(o, dict):
        return ["dict"] + [[snap(k, depth + 1), snap(v, depth + 1)] for k, v in o.items()]
    if isinstance(o, (set, frozenset)):
        return ["set"] + sorted((snap(x, depth + 1) for x in o), key=repr)
    if isinstance(o, (list, tuple)):
        return [type(o).__name__] + [snap(x, depth + 1) for x in o]
    import enum
    if isinstance(o, enum.Enum):
        return ["enum", type(o).__name__, o.name]
    d = {}
    for klass in type(o).__mro__:
        for s in getattr(klass, "__slots__", ()) or ():
            if hasattr(o, s):
                d[s] = snap(getattr(o, s), depth + 1)
    if hasattr(o, "__dict__"):
        for k, v in vars(o).items():
            d[k] = snap(v, depth + 1)
    return ["obj", type(o).__name__, sorted(d.items())]


def scribble(o, depth=0):
    """what a caller may do to a result it was handed: edit it in place.  Called on the raw return values
    AFTER the canonical result and the argument snapshots were taken; a library that handed back its own
    internal / default / memoised object will then show the edit in a later call"""
    if depth > 2:
        return
    if isinstance(o, dict):
        for v in list(o.values()):
            scribble(v, depth + 1)
        ks = list(o)
        if ks and isinstance(ks[0], tuple) and all(isinstance(x, int) for x in ks[0]):
            o[tuple(x + 1 for x in ks[0])] = o[ks[0]]        # a plausible extra key of the same shape
        elif ks:
            del o[ks[0]]
        else:
            o[(0, 0)] = set([(0, 0)])
    elif isinstance(o, list):
        for v in o[:3]:
            scribble(v, depth + 1)
        if o:
            o.pop()
        else:
            o.append((0, 0))
    elif isinstance(o, set):
        if o:
            o.pop()
        else:
            o.add((0, 0))


def gen_problem(seed, vary=None):
    """a place-and-route problem drawn from `seed`; `vary` = k gives a TWIN of it that differs in exactly
    one aspect (dead links, a dead chip, chip resource exceptions, net weights, one constraint, one
    vertex's resources, wrap-around links): histories mix twins so that anything remembered about an
    earlier call under a key that omits that aspect shows up in the probe"""
    from rig.place_and_route import Machine, Cores, SDRAM
    from rig.netlist import Net
    from rig.links import Links
    from rig.place_and_route.constraints import (LocationConstraint, SameChipConstraint,
                                                 ReserveResourceConstraint, AlignResourceConstraint)
    r = random.Random(seed)
    w, h = r.choice([(2, 2), (3, 3), (4, 3), (4, 4), (5, 5)])
    chips = [(x, y) for x in range(w) for y in range(h)]
    dead = set(r.sample(chips[1:], r.choice([0, 0, 1])))
    dead_links = set()
    for _ in range(r.choice([0, 0, 2, 5])):
        c = r.choice(chips)
        dead_links.add((c[0], c[1], r.choice(list(Links))))
    exc = {}
    live = [c for c in chips if c not in dead]
    for c in r.sample(live, min(len(live), r.choice([0, 1, 2]))):
        exc[c] = {Cores: r.choice([10, 17]), SDRAM: 100}
    m = Machine(w, h, chip_resources={Cores: 18, SDRAM: 128}, chip_resource_exceptions=exc,
                dead_chips=dead, dead_links=dead_links)
    n = r.randrange(2, 14)
    vr = {v: {Cores: r.choice([1, 1, 1, 2]), SDRAM: r.choice([0, 4, 8])} for v in range(n)}
    nets = []
    for _ in range(r.randrange(1, 8)):
        src = r.randrange(n)
        sinks = [r.randrange(n) for _ in range(r.randrange(1, 5))]
        nets.append(Net(src, sinks, r.choice([1.0, 2.0])))
    cons = [ReserveResourceConstraint(Cores, slice(0, 1))]
    if r.random() < 0.5:
        cons.append(LocationConstraint(r.randrange(n), r.choice(live)))
    if n > 3 and r.random() < 0.7:
        a, b = r.sample(range(n), 2)
        if not any(isinstance(c, LocationConstraint) and c.vertex in (a, b) for c in cons):
            cons.append(SameChipConstraint([a, b]))
    if r.random() < 0.5:
        cons.append(AlignResourceConstraint(SDRAM, 4))
    if vary is not None:
        q = random.Random(seed * 31 + vary)
        kind = vary % 7
        located = set(c.location for c in cons if isinstance(c, LocationConstraint))
        if kind == 0:       # dead links: none <-> some
            dead_links = set() if dead_links else set((c[0], c[1], l) for c in q.sample(chips, min(3, len(chips)))
                                                      for l in q.sample(list(Links), 2))
        elif kind == 1:     # one chip dies / comes back
            if dead:
                dead = set()
            else:
                cand = [c for c in chips[1:] if c not in located]
                dead = set(q.sample(cand, 1)) if cand else dead
                exc = {c: v for c, v in exc.items() if c not in dead}
        elif kind == 2:     # chip resource exceptions
            c = q.choice([c for c in chips if c not in dead])
            exc = dict(exc)
            exc[c] = {Cores: q.choice([9, 16]), SDRAM: 96}
        elif kind == 3:     # net weights
            nets = [Net(n_.source, list(n_.sinks), n_.weight + 1.0 + i) for i, n_ in enumerate(nets)]
        elif kind == 4:     # one constraint fewer / one more
            cons = cons[:-1] if len(cons) > 1 else cons + [AlignResourceConstraint(SDRAM, 8)]
        elif kind == 5:     # one vertex needs more
            v = q.randrange(n)
            vr = dict(vr)
            vr[v] = {Cores: vr[v][Cores] + 1, SDRAM: vr[v][SDRAM] + 4}
        else:               # the wrap-around links all die (torus -> mesh) / all other links as before
            dead_links = set(dead_links)
            for x in range(w):
                dead_links |= {(x, h - 1, Links.north), (x, 0, Links.south), (x, h - 1, Links.north_east),
                               (x, 0, Links.south_west)}
            for y in range(h):
                dead_links |= {(w - 1, y, Links.east), (0, y, Links.west), (w - 1, y, Links.north_east),
                               (0, y, Links.south_west)}
        m = Machine(w, h, chip_resources={Cores: 18, SDRAM: 128}, chip_resource_exceptions=exc,
                    dead_chips=dead, dead_links=dead_links)
    return m, vr, nets, cons


def tree_canon(t):
    from rig.place_and_route.routing_tree import RoutingTree
    kids = []
    for route, child in t.children:
        rn = None if route is None else int(route)
        kids.append([rn, tree_canon(child) if isinstance(child, RoutingTree) else ["v", child]])
    return [list(t.chip), sorted(kids, key=repr)]


def table_canon(tables):
    out = {}
    for chip, entries in tables.items():
        out["%d,%d" % chip] = [[sorted(int(x) for x in e.route), e.key, e.mask,
                                sorted((-1 if s is None else int(s)) for s in e.sources)] for e in entries]
    return sorted(out.items())


def do_call(spec):
    """returns (canonical result, [snapshots of arguments before], [after])"""
    warnings.simplefilter("ignore")
    fn, seed = spec["fn"], spec["seed"]
    vary = spec.get("vary")
    random.seed(seed * 7 + 1)
    from rig.place_and_route import place as sa_place, allocate, route
    from rig.place_and_route.place import sequential, hilbert, rcm, breadth_first, rand
    from rig.place_and_route.exceptions import (InsufficientResourceError, InvalidConstraintError,
                                                MachineHasDisconnectedSubregion)
    from rig.routing_table import (routing_tree_to_tables, minimise_tables, MinimisationFailedError,
                                   MultisourceRouteError)
    from rig.routing_table import ordered_covering, remove_default_routes
    args, result, before, raws = [], None, [], []

    def staged(upto):
        m, vr, nets, cons = gen_problem(seed, vary)
        st = {"m": m, "vr": vr, "nets": nets, "cons": cons}
        st["placements"] = sequential.place(vr, nets, m, cons)
        if upto == "placed":
            return st
        st["allocations"] = allocate(vr, nets, m, cons, st["placements"])
        if upto == "allocated":
            return st
        st["routes"] = route(vr, nets, m, cons, st["placements"], st["allocations"])
        if upto == "routed":
            return st
        keys = {net: (i << 8, 0xffffff00) for i, net in enumerate(nets)}
        st["keys"] = keys
        st["tables"] = routing_tree_to_tables(st["routes"], keys)
        return st

    try:
        if fn.startswith("place_") and fn != "place_sa_pinned":
            m, vr, nets, cons = gen_problem(seed, vary)
            args = [m, vr, nets, cons]
            before = [snap(a) for a in args]
            which = fn[6:]
            if which == "seqcustom":
                # caller-supplied orders, passed as real lists (they are arguments too)
                r = random.Random(seed + 5)
                vorder = sorted(vr)
                r.shuffle(vorder)
                corder = [c for c in m]
                r.shuffle(corder)
                args += [vorder, corder]
                before = [snap(a) for a in args]
                p = sequential.place(vr, nets, m, cons, vertex_order=vorder, chip_order=corder)
            elif which == "sa":
                p = sa_place(vr, nets, m, cons, effort=0.1, random=random.Random(seed))
            elif which == "rand":
                p = rand.place(vr, nets, m, cons, random=random.Random(seed))
            else:
                p = {"sequential": sequential, "hilbert": hilbert, "rcm": rcm,
                     "breadth_first": breadth_first}[which].place(vr, nets, m, cons)
            result = sorted((v, list(c)) for v, c in p.items())
            raws.append(p)
        elif fn in ("wrapper", "pr_wrapper"):
            # the two public wrappers (the deprecated `wrapper` and `place_and_route_wrapper`) with every
            # combination of their boolean options, with and without a constraints list of the caller's
            import importlib
            wrapper_mod = importlib.import_module("rig.place_and_route.wrapper")
            m, vr, nets, cons = gen_problem(seed, vary)
            r = random.Random(seed + 11)
            vapps = {v: "app%d.aplx" % (v % 3) for v in vr}
            net_keys = {net: (i << 8, 0xffffff00) for i, net in enumerate(nets)}
            use_cons = r.random() < 0.7
            placer = r.choice([sequential.place, hilbert.place, breadth_first.place])
            if fn == "wrapper":
                args = [vr, vapps, nets, net_keys, m] + ([cons] if use_cons else [])
                before = [snap(a) for a in args]
                out = wrapper_mod.wrapper(*args, reserve_monitor=r.random() < 0.5, align_sdram=r.random() < 0.5,
                                          place=placer)
            else:
                from rig.machine_control.machine_controller import SystemInfo, ChipInfo
                from rig.machine_control.consts import AppState
                from rig.links import Links as L
                from rig.place_and_route import Cores as C_, SDRAM as S_
                chips = {}
                for (x, y) in m:
                    busy = r.sample(range(1, 18), r.choice([0, 0, 1, 3]))
                    states = [AppState.run] + [AppState.run if i in busy else AppState.idle for i in range(1, 18)]
                    links = set(l for l in L if (x, y, l) in m)
                    chips[(x, y)] = ChipInfo(num_cores=18, core_states=states, working_links=links,
                                             largest_free_sdram_block=m[(x, y)].get(S_, 128) * 1024,
                                             largest_free_sram_block=1000, largest_free_rtr_mc_block=r.choice([8, 1023]))
                si = SystemInfo(m.width, m.height, chips)
                cons = [c for c in cons if type(c).__name__ != "ReserveResourceConstraint"]
                args = [vr, vapps, nets, net_keys, si] + ([cons] if use_cons else [])
                before = [snap(a) for a in args]
                out = wrapper_mod.place_and_route_wrapper(*args, place=placer)
            pl, al, amap, tabs = out
            result = [sorted((v, list(c)) for v, c in pl.items()),
                      sorted((v, sorted((str(k), s.start, s.stop) for k, s in d.items())) for v, d in al.items()),
                      sorted((a, sorted((list(c), sorted(ps)) for c, ps in t.items())) for a, t in amap.items()),
                      table_canon(tabs)]
            raws += [pl, al, amap, tabs]
        elif fn == "place_sa_pinned":
            # the annealing placer on a problem with a pinned vertex and several same-chip groups, both kernels,
            # seeded generator, vertices_resources an OrderedDict (what the documentation asks for to get
            # reproducible results).  The very same problem is placed three times with vertex objects that are
            # equal call to call but HASH differently (so every set / dict-by-hash the placer builds iterates in
            # another order): the three placements must be the same.
            from rig.place_and_route.constraints import LocationConstraint, SameChipConstraint
            from rig.place_and_route.place.sa import place as sa_direct
            from rig.place_and_route.place.sa.python_kernel import PythonKernel
            from rig.netlist import Net
            import collections as _c
            from rig.place_and_route import Cores as C_
            m, vr0, nets0, cons0 = gen_problem(seed, vary)
            r = random.Random(seed + 23)
            cons0 = [c for c in cons0 if not isinstance(c, (LocationConstraint, SameChipConstraint))]
            # vertices big enough that only two or three fit on a chip: the order in which the placer takes
            # them then shows in the result
            capacity = sum(max(0, m[c].get(C_, 0) - 1) for c in m)
            per = max(1, min(8, int(0.5 * capacity / max(1, len(vr0)))))
            vr0 = {v: dict(list(d.items()) + [(C_, max(1, per + r.choice([-1, 0, 0, 1])))]) for v, d in sorted(vr0.items())}
            vs = sorted(vr0)
            r.shuffle(vs)
            pin = (vs[0], r.choice([c for c in m]))
            rest = vs[1:]
            groups = []
            while len(rest) >= 4 and r.random() < 0.8:
                groups.append([rest.pop(), rest.pop()])
            kw = {}
            if r.random() < 0.5:
                kw["kernel"] = PythonKernel

            class HV(object):
                __slots__ = ["i", "h"]

                def __init__(self, i, h):
                    self.i, self.h = i, h

                def __hash__(self):
                    return self.h

                def __eq__(self, o):
                    return isinstance(o, HV) and o.i == self.i

                def __ne__(self, o):
                    return not self == o

                def __lt__(self, o):
                    return self.i < o.i

                def __repr__(self):
                    return "v%d" % self.i
            result = []
            for rep in range(3):
                hs = {i: [i, (i * 7919 + 13) % 1000003, (i * 104729 + 7) % 4093][rep] for i in vr0}
                V = {i: HV(i, hs[i]) for i in vr0}
                vr = _c.OrderedDict((V[i], dict(vr0[i])) for i in sorted(vr0))
                nets = [Net(V[n_.source], [V[x] for x in n_.sinks], n_.weight) for n_ in nets0]
                cons = list(cons0) + [LocationConstraint(V[pin[0]], pin[1])] + [SameChipConstraint([V[a], V[b]]) for a, b in groups]
                p = sa_direct(vr, nets, m, cons, effort=0.1, random=random.Random(seed), **kw)
                result.append(sorted((v.i, list(c)) for v, c in p.items()))
            if not (result[0] == result[1] == result[2]):
                result = ["not-reproducible"] + result
        elif fn == "allocate":
            st = staged("placed")
            args = [st["m"], st["vr"], st["nets"], st["cons"], st["placements"]]
            before = [snap(a) for a in args]
            al = allocate(st["vr"], st["nets"], st["m"], st["cons"], st["placements"])
            result = sorted((v, sorted((str(k), s.start, s.stop) for k, s in d.items())) for v, d in al.items())
            raws.append(al)
        elif fn == "route":
            st = staged("allocated")
            args = [st["m"], st["vr"], st["nets"], st["cons"], st["placements"], st["allocations"]]
            before = [snap(a) for a in args]
            rt = route(st["vr"], st["nets"], st["m"], st["cons"], st["placements"], st["allocations"],
                       radius=seed % 4)
            result = [tree_canon(rt[n]) for n in st["nets"]]
            raws.append(rt)
        elif fn == "route_big":
            # nets with tens of sinks on a machine of 64-144 chips, search radius 1-3: the router's tree grows
            # past the size at which it switches from scanning its nodes to the hexagon spiral search
            from rig.place_and_route import Machine, Cores
            from rig.netlist import Net
            from rig.links import Links
            r = random.Random(seed + 31)
            w, h = r.choice([(8, 8), (10, 10), (12, 12), (12, 9)])
            dead_links = set()
            if vary is not None and vary % 3 == 0:
                for x in range(w):
                    dead_links |= {(x, h - 1, Links.north), (x, 0, Links.south), (x, h - 1, Links.north_east), (x, 0, Links.south_west)}
                for y in range(h):
                    dead_links |= {(w - 1, y, Links.east), (0, y, Links.west), (w - 1, y, Links.north_east), (0, y, Links.south_west)}
            m = Machine(w, h, chip_resources={Cores: 18}, dead_links=dead_links)
            chips = [(x, y) for x in range(w) for y in range(h)]
            n = r.randrange(25, 60)
            where = {v: r.choice(chips) for v in range(n)}
            vr = {v: {Cores: 1} for v in range(n)}
            placements = dict(where)
            used = {}
            allocations = {}
            for v in range(n):
                c = used.get(where[v], 1)
                if c >= 18:
                    placements[v] = where[v] = next(ch for ch in chips if used.get(ch, 1) < 18)
                    c = used.get(where[v], 1)
                used[where[v]] = c + 1
                allocations[v] = {Cores: slice(c, c + 1)}
            nets = [Net(0, list(range(1, n)), 1.0), Net(n - 1, r.sample(range(n), n // 2), 2.0)]
            args = [m, vr, nets, placements, allocations]
            before = [snap(a) for a in args]
            rt = route(vr, nets, m, [], placements, allocations, radius=(seed + (vary or 0)) % 3 + 1)
            result = [tree_canon(rt[n_]) for n_ in nets]
            raws.append(rt)
        elif fn == "tables":
            st = staged("routed")
            keys = {net: (i << 8, 0xffffff00) for i, net in enumerate(st["nets"])}
            args = [st["routes"], keys]
            before = [snap(a) for a in args]
            tb = routing_tree_to_tables(st["routes"], keys)
            result = table_canon(tb)
            raws.append(tb)
        elif fn.startswith("minimise_"):
            st = staged("tables")
            args = [st["tables"]]
            before = [snap(a) for a in args]
            which = fn[9:]
            if which == "tables":
                out = minimise_tables(st["tables"], target_lengths=None)
            elif which == "oc":
                out = {c: ordered_covering.minimise(t, target_length=None) for c, t in st["tables"].items()}
            else:
                out = {c: remove_default_routes.minimise(t, target_length=None) for c, t in st["tables"].items()}
            result = table_canon(out)
            raws.append(out)
        elif fn == "oc_default":
            # ordered_covering called WITHOUT an alias dictionary (its default), often on tables where nothing
            # can be merged; the caller then combines the alias dictionaries it was handed
            from rig.routing_table import RoutingTableEntry, Routes
            r = random.Random(seed)
            res, combined = [], None
            for _ in range(4):
                bits = r.choice([3, 4])
                routes = [Routes.north, Routes.south, Routes.east, Routes.west]
                keys = r.sample(range(1 << bits), r.randrange(2, 7))
                distinct = r.random() < 0.5            # all routes distinct: nothing merges
                t = [RoutingTableEntry({routes[i % 4] if distinct and i < 4 else r.choice(routes[:2])}, k, (1 << bits) - 1)
                     for i, k in enumerate(keys)]
                if r.random() < 0.6:
                    # more general entries (don't-care bits) of another key block, listed FIRST or in between: the
                    # caller's list is then not in increasing order of generality
                    for j in range(r.randrange(1, 3)):
                        x = r.randrange(1, 1 << bits)
                        e = RoutingTableEntry({r.choice(routes)}, (1 + j) << bits, ((3 << bits) | ((1 << bits) - 1)) & ~x)
                        t.insert(r.randrange(0, len(t)), e)
                args = [t]
                before = [snap(a) for a in args]
                t2, al2 = ordered_covering.ordered_covering(t, r.choice([0, len(t), 100]), no_raise=True)
                if before != [snap(a) for a in args]:
                    raise AssertionError("ordered_covering modified the table it was given")
                res.append([table_canon({(0, 0): t2}), sorted((list(k), sorted(map(list, v))) for k, v in al2.items())])
                # the three public single-table minimisers on the SAME kept list (entries of mixed generality, not in
                # order): each must hand back a new table and leave the caller's list as it was
                from rig.routing_table import minimise_table
                for label, call in (("oc.minimise", lambda: ordered_covering.minimise(t, None)),
                                    ("rdr.minimise", lambda: remove_default_routes.minimise(t, None)),
                                    ("minimise_table", lambda: minimise_table(t, None))):
                    out_t = call()
                    if before != [snap(a) for a in args]:
                        raise AssertionError("%s modified the table it was given" % label)
                    res.append([label, table_canon({(0, 0): out_t})])
                if combined is None:
                    combined = al2
                combined.update(al2)
                combined[(keys[0], (1 << bits) - 1)] = set([(keys[0], (1 << bits) - 1), (keys[-1], (1 << bits) - 1)])
            args, before = [], []
            result = res
        elif fn == "oc_aliases":
            # the documented "update an already minimised table" use: a second ordered-covering pass that
            # is handed the table AND the alias dictionary the first pass returned
            from rig.routing_table import RoutingTableEntry, Routes
            r = random.Random(seed)
            res = []
            for _ in range(6):
                bits = r.choice([3, 4, 5])
                routes = [Routes.north, Routes.south, Routes.east][:r.choice([1, 2, 3])]
                keys = r.sample(range(1 << bits), r.randrange(4, (1 << bits) + 1))
                grp = {k: routes[(k >> (bits - 1)) % len(routes)] if r.random() < 0.8 else r.choice(routes) for k in keys}
                t = [RoutingTableEntry({grp[k]}, k, (1 << bits) - 1) for k in keys]
                t1, al1 = ordered_covering.ordered_covering(list(t), max(2, len(t) // 2), no_raise=True)
                # the caller then extends the minimised table: for some merged entries a sibling entry
                # (one fixed bit flipped, same mask and route) is added, so the second pass merges
                # entries that already carry aliases
                t1 = list(t1)
                for (k, m) in sorted(al1):
                    fixed = [b for b in range(bits) if (m >> b) & 1]
                    if fixed and r.random() < 0.7:
                        e0 = [e for e in t1 if (e.key, e.mask) == (k, m)]
                        k2 = k ^ (1 << r.choice(fixed))
                        if e0 and not any((e.key & m) == (k2 & e.mask & m) and ((e.key ^ k2) & e.mask & m) == 0 for e in t1):
                            t1.append(RoutingTableEntry(set(e0[0].route), k2, m))
                t1.sort(key=lambda e: bin(~e.mask & ((1 << bits) - 1)).count("1"))
                args = [t1, al1]
                before = [snap(a) for a in args]
                t2, al2 = ordered_covering.ordered_covering(t1, 0, aliases=al1, no_raise=True)
                if before != [snap(a) for a in args]:
                    raise AssertionError("ordered_covering modified the table / alias dictionary it was given")
                res.append(table_canon({(0, 0): t2}))
            args, before = [], []
            result = res
        elif fn == "bitfield":
            from rig.bitfield import BitField
            r = random.Random(seed)
            bf = BitField(32)
            names = ["f%d" % i for i in range(r.randrange(1, 5))]
            for nm in names:
                kw = {}
                if r.random() < 0.4:
                    kw["length"] = r.randrange(1, 5)
                if r.random() < 0.4:
                    kw["tags"] = r.choice(["routing", "a b"])
                bf.add_field(nm, **kw)
            v0 = r.randrange(2)
            sub = bf(**{names[0]: v0})
            sub.add_field("child", tags="routing")
            vals = {nm: r.randrange(2) for nm in names}
            inst = bf(**vals)
            if vals[names[0]] == v0:
                inst = inst(child=r.randrange(2))
            bf.assign_fields()
            before = []
            result = [inst.get_value(), inst.get_mask(), sorted(
                (nm,) + tuple(inst.get_location_and_length(nm)) for nm in names)]
        elif fn == "bitfield_tagsets":
            # tags handed over as the caller's own mutable collections (sets / lists), the SAME object used
            # for fields of two separately created bit fields; child fields add further tags
            from rig.bitfield import BitField, UnknownTagError
            r = random.Random(seed)
            shared = r.choice([set, list])(r.sample(["routing", "payload", "x", "y"], r.randrange(1, 3)))
            other = r.choice([set, list])(["extra"])
            args = [shared, other]
            before = [snap(a) for a in args]
            res = []
            bfs = [BitField(32), BitField(32)]
            for i, bf in enumerate(bfs):
                bf.add_field("kind", length=2, tags=shared)
                bf.add_field("aux", length=3, tags=other if i == 0 else None)
            sub = bfs[r.randrange(2)](kind=r.randrange(4))
            sub.add_field("child", length=r.randrange(1, 4), tags=r.choice(["deep", "deep payload", "x deep"]))
            for bf in bfs:
                bf.assign_fields()
                row = [sorted(bf.get_tags("kind")), sorted(bf.get_tags("aux"))]
                for tag in ["routing", "payload", "x", "y", "extra", "deep"]:
                    try:
                        row.append([tag, bf.get_mask(tag=tag)])
                    except UnknownTagError:
                        row.append([tag, None])
                res.append(row)
            result = res
        elif fn == "hexagons":
            from rig.place_and_route.route import ner
            result = [list(c) for c in ner.memoized_concentric_hexagons(seed % 7)]
        elif fn == "boot":
            from rig.machine_control import boot as boot_mod
            r = random.Random(seed)
            sent = []

            class Sock(object):
                def __init__(self, *a):
                    pass

                def __getattr__(self, name):
                    return lambda *a, **k: None

                def send(self, data):
                    sent.append(bytes(data).hex())
                    return len(data)

                def sendto(self, data, addr):
                    sent.append(bytes(data).hex())
                    return len(data)

            class SockMod(object):
                def __getattr__(self, name):
                    import socket as real
                    return Sock if name == "socket" else getattr(real, name)

            class TimeMod(object):
                @staticmethod
                def time():
                    return 1400000000.0

                @staticmethod
                def sleep(x):
                    pass
            saved = (boot_mod.socket, boot_mod.time)
            boot_mod.socket, boot_mod.time = SockMod(), TimeMod()
            try:
                opts = r.choice([{}, {}, dict(boot_mod.spin3_boot_options), dict(boot_mod.spin5_boot_options),
                                 {"led_period": r.randrange(1, 200)}, {"cpu_clk": r.choice([150, 180])}])
                explicit = r.random() < 0.3
                args = [opts]
                before = [snap(a) for a in args]
                if explicit:
                    structs = boot_mod.boot("host%d" % (seed % 3), sv_overrides=opts, boot_delay=0.0, post_boot_delay=0.0)
                else:
                    structs = boot_mod.boot("host%d" % (seed % 3), boot_delay=0.0, post_boot_delay=0.0, **opts)
            finally:
                boot_mod.socket, boot_mod.time = saved
            import hashlib
            result = [hashlib.sha1("".join(sent).encode()).hexdigest(), len(sent),
                      sorted((k.decode(), f.default) for k, f in structs[b"sv"].fields.items())]
        elif fn == "controller":
            import os
            sys.path.insert(0, os.path.dirname(os.path.dirname(os.path.abspath(__file__))))
            from harness import simnet, simmachine
            r = random.Random(seed)
            machine = simmachine.SimMachine(2, 2, buffer_size=256)
            net = simnet.Net(machine.handle, lambda k, d: [(1, "ok")])
            with simnet.installed(net):
                mc = simmachine.make_controller(net)
                x, y, app = r.randrange(2), r.randrange(2), r.randrange(16, 200)
                mc.update_current_context(app_id=app)
                with mc(x=x, y=y, p=r.randrange(18)):
                    mc.read(0x60000000 + 4 * r.randrange(100), r.randrange(1, 600))
                    mc.write(0x60000100, bytes(r.randrange(256) for _ in range(r.randrange(1, 40))))
                ctx_args = mc.get_context_arguments()
            result = [sorted(ctx_args.items()), [e[2].hex() for e in net.log if e[0] == "send"]]
        else:
            raise ValueError(fn)
    except (InsufficientResourceError, InvalidConstraintError, MachineHasDisconnectedSubregion,
            MinimisationFailedError, MultisourceRouteError) as e:
        result = ["raised", type(e).__name__]
    after = [snap(a) for a in args]
    for o in raws:
        scribble(o)
    return result, before, after


FNS = ["wrapper", "wrapper", "pr_wrapper", "place_sa_pinned", "place_sa_pinned", "place_sa_pinned", "place_sequential", "place_seqcustom", "place_seqcustom", "place_hilbert", "place_rcm", "place_breadth_first", "place_rand", "place_sa",
       "allocate", "route", "route", "route_big", "route_big", "tables", "minimise_tables", "minimise_oc", "minimise_rdr", "oc_aliases", "oc_aliases", "oc_default", "oc_default", "bitfield", "bitfield_tagsets", "controller", "boot", "hexagons", "hexagons"]


if __name__ == "__main__":
    # fresh-interpreter probe:  python c17_calls.py <repo> '<json list of specs>'
    sys.path.insert(0, sys.argv[1])
    warnings.simplefilter("ignore")
    out = []
    for spec in json.loads(sys.argv[2]):
        res, _, _ = do_call(spec)
        out.append(res)
        break          # only the first call of a fresh process is a "fresh" result
    print(json.dumps(out[0]))
